(* Proofs/SrvInvGoAway.v - GOAWAY (C10) and panic-freedom (C17 a) over all event lists:
   after a GOAWAY no stream is opened and last-stream-id stays; which codes a GOAWAY can carry; the stream loop returns
   once the reader is closed and drained; no OPanic unless the HPACK decoder panics. *)
From H2V Require Import Base.Bytes Base.MachineInt Base.Result Gen.GenConsts Impl.ServerConn Proofs.SrvBase
  Proofs.SrvInvMoves Proofs.SrvInvDecomp Proofs.SrvInvSteps Proofs.SrvInvSlots Proofs.SrvInvOut Proofs.SrvInvFrame.
From Coq Require Import ZArith Lia ZifyN ZifyNat ZifyBool Permutation.
Local Open Scope N_scope.

Definition hdr_ids (l : list stream) : list N := map st_id (filter is_hdr l).

Lemma hdr_ids_all l : Forall (fun s => st_orig s = KHeaders) l -> hdr_ids l = map st_id l.
Proof.
  induction 1 as [|s l H _ IH]; [reflexivity|]. unfold hdr_ids in *. cbn [filter].
  apply is_hdr_true in H. rewrite H. cbn [map]. rewrite IH. reflexivity.
Qed.
Lemma hdr_ids_slocw l l' : Forall2 slocw l l' -> hdr_ids l' = hdr_ids l.
Proof.
  induction 1 as [|a b l l' S _ IH]; [reflexivity|]. unfold hdr_ids in *. cbn [filter].
  destruct S as (Si & So). unfold is_hdr in *. rewrite So. destruct (fkind_eqb (st_orig a) KHeaders); cbn [map]; rewrite ?Si, IH; reflexivity.
Qed.
Lemma hdr_ids_app l l' : hdr_ids (l ++ l') = hdr_ids l ++ hdr_ids l'.
Proof. unfold hdr_ids. rewrite filter_app, map_app. reflexivity. Qed.
Lemma hdr_ids_del l id : incl (hdr_ids (strms_del l id)) (hdr_ids l).
Proof.
  intros x I. unfold hdr_ids in *. apply in_map_iff in I. destruct I as (s & E & I). apply filter_In in I.
  destruct I as [I H]. apply in_map_iff. exists s. split; [assumption|]. apply filter_In. split; [|assumption].
  eapply strms_del_In. eassumption.
Qed.

Section GoAway.
Variable hstate : Type.
Variable dec_field : hstate -> N -> bytes -> dec_res hstate.
Variable enc_field : hstate -> bytes -> bytes -> bool -> bytes * hstate.
Variable enc_set_max : hstate -> N -> hstate.
Variable cfg : config.
Notation Q := QT.
Notation sconn := (sconn hstate).
Notation mv := (mv hstate dec_field cfg Q).
Notation mvs := (mvs hstate dec_field cfg Q).
Notation gmv := (gmv hstate dec_field cfg Q).
Notation gmvs := (gmvs hstate dec_field cfg Q).
Notation SI := (SI cfg Q).
Notation OI := (OI hstate dec_field Q).
Notation step := (step dec_field enc_field enc_set_max cfg).
Notation run := (run dec_field enc_field enc_set_max cfg).
Implicit Types c : sconn.

(* local copies with the section's parameters filled in *)
Lemma gmv_delta' pc a b : gmv pc a b -> SI a -> delta_ok hstate dec_field Q (gcode pc) a b.
Proof. intros; eapply gmv_delta; eassumption. Qed.
Lemma SI_gmv' pc a b : gmv pc a b -> SI a -> SI b.
Proof. intros; eapply SI_gmv; eassumption. Qed.
Lemma OI_gmv' pc a b : gmv pc a b -> SI a -> OI a -> OI b.
Proof. intros; eapply OI_gmv; eassumption. Qed.

(* ---------- (ii) once a GOAWAY is out, no stream is opened ---------- *)
Lemma mv_hdr_ids o a b : mv o a b -> SI a -> sc_closing a = true ->
  incl (hdr_ids (sc_strms b)) (hdr_ids (sc_strms a)).
Proof.
  intros M HS CL. destruct M; sc_rw; try apply incl_refl.
  - rewrite (lite_strms _ _ _ _ H0). apply incl_refl.
  - sc_cbn. rewrite (hdr_ids_slocw _ _ (sloc_slocw _ _ H0)). apply incl_refl.
  - rewrite sc_strms_put. sc_rw. rewrite (hdr_ids_slocw _ _ (put_slocw _ _ _ H0 H1)). apply incl_refl.
  - congruence.
  - rewrite sc_strms_close_stream. apply hdr_ids_del.
  - rewrite sc_strms_put, (lite_strms _ _ _ _ H0). rewrite (hdr_ids_slocw _ _ (put_slocw _ _ _ H1 H3)). apply incl_refl.
  - unfold brk, note. sc_cbn. rewrite (hdr_ids_slocw _ _ (sloc_slocw _ _ H0)), hdr_ids_app.
    destruct H1 as [->|(s & -> & No & _)]; [rewrite app_nil_r; apply incl_refl|].
    unfold hdr_ids at 2. cbn [filter]. destruct (is_hdr s) eqn:E; [apply is_hdr_true in E; contradiction|].
    cbn [map]. rewrite app_nil_r. apply incl_refl.
  - destruct H0 as [SC _]. destruct SC as (S1 & _). rewrite S1. apply incl_refl.
Qed.

Lemma omv_strms pc a b : omv hstate pc a b -> sc_strms b = sc_strms a.
Proof. intro M. destruct M; sc_rw; reflexivity. Qed.

(* what "frozen" means, from a to b *)
Definition frozen (a b : sconn) : Prop :=
  sc_closing a = true ->
  sc_closing b = true /\ sc_lastID b = sc_lastID a /\ incl (hdr_ids (sc_strms b)) (hdr_ids (sc_strms a)) /\
  forall sid rq, In (ODispatch sid rq) (sc_out b) -> In (ODispatch sid rq) (sc_out a) \/ In sid (hdr_ids (sc_strms a)).

Lemma gmv_frozen pc a b : gmv pc a b -> SI a -> frozen a b.
Proof.
  intros M HS CL. destruct (gmv_delta' _ _ _ M HS) as [(l & E & F) (_ & FR)].
  destruct (FR CL) as [Cb Lb]. split; [assumption|]. split; [assumption|]. split.
  - destruct M; [eapply mv_hdr_ids; eassumption | rewrite (omv_strms _ _ _ H); apply incl_refl].
  - intros sid rq I. rewrite E in I. apply in_app_or in I. destruct I as [I|I]; [|left; assumption].
    right. rewrite Forall_forall in F.
    destruct (new_ok_dispatch _ _ _ _ _ _ _ _ (F _ I)) as (s & -> & _ & Is & Hd & _).
    rewrite (hdr_ids_all _ (si_hdrs _ _ _ _ HS Hd)). assumption.
Qed.

Lemma gmvs_frozen pc a b : gmvs pc a b -> SI a -> SI b /\ frozen a b.
Proof.
  induction 1 as [c|a b c M MS IH]; intro HS.
  - split; [assumption|]. intro CL. repeat split; auto using incl_refl.
  - pose proof (SI_gmv' _ _ _ M HS) as HSb. destruct (IH HSb) as [HSc F2]. split; [assumption|].
    pose proof (gmv_frozen _ _ _ M HS) as F1. intro CL.
    destruct (F1 CL) as (C1 & L1 & I1 & D1). destruct (F2 C1) as (C2 & L2 & I2 & D2).
    split; [assumption|]. split; [congruence|]. split; [eapply incl_tran; eassumption|].
    intros sid rq I. destruct (D2 sid rq I) as [I'|I']; [apply D1; assumption | right; apply I1; assumption].
Qed.

Lemma SI_T_gmvs_step c e : SI c -> gmvs (parser_code e) c (step c e).
Proof. apply SI_gmvs_step. apply QT_closed. Qed.
Lemma SI_T_step c e : SI c -> SI (step c e).
Proof. apply SI_step. apply QT_closed. Qed.

Theorem frozen_run_from evs : forall c, SI c -> SI (run_from dec_field enc_field enc_set_max cfg c evs) /\
  frozen c (run_from dec_field enc_field enc_set_max cfg c evs).
Proof.
  induction evs as [|e t IH]; intros c HS.
  - split; [assumption|]. intro CL. repeat split; auto using incl_refl.
  - rewrite run_from_cons. destruct (gmvs_frozen _ _ _ (SI_T_gmvs_step c e HS) HS) as [HS1 F1].
    destruct (IH _ HS1) as [HS2 F2]. split; [assumption|]. intro CL.
    destruct (F1 CL) as (C1 & L1 & I1 & D1). destruct (F2 C1) as (C2 & L2 & I2 & D2).
    split; [assumption|]. split; [congruence|]. split; [eapply incl_tran; eassumption|].
    intros sid rq I. destruct (D2 sid rq I) as [I'|I']; [apply D1; assumption | right; apply I1; assumption].
Qed.

(* C10 (ii): once the connection is closing (a GOAWAY was sent, see oi_goaway), whatever happens next:
   last-stream-id does not move, no HEADERS-opened stream appears in the table, and every request dispatched from
   then on belongs to a stream that was already open at that point *)
Theorem no_stream_after_goaway h0 evs1 evs2 :
  let a := run h0 evs1 in let b := run h0 (evs1 ++ evs2) in
  sc_closing a = true ->
  sc_closing b = true /\ sc_lastID b = sc_lastID a /\ incl (hdr_ids (sc_strms b)) (hdr_ids (sc_strms a)) /\
  forall sid rq, In (ODispatch sid rq) (trace b) -> In (ODispatch sid rq) (trace a) \/ In sid (hdr_ids (sc_strms a)).
Proof.
  intros a b CL. unfold b. rewrite run_app. fold a.
  destruct (frozen_run_from evs2 a (SI_run_T _ dec_field enc_field enc_set_max cfg h0 evs1)) as [_ F].
  destruct (F CL) as (C & L & I & D). repeat split; try assumption.
  intros sid rq H. apply trace_In in H. destruct (D sid rq H); [left; apply trace_In; assumption | right; assumption].
Qed.

(* ---------- (iii) the codes ---------- *)
Lemma gmvs_codes pc a b : gmvs pc a b -> SI a -> OI a ->
  forall last code, In (OGoAway last code) (sc_out b) \/ In (OLate (OGoAway last code)) (sc_out b) ->
  (In (OGoAway last code) (sc_out a) \/ In (OLate (OGoAway last code)) (sc_out a)) \/ gcode pc code.
Proof.
  induction 1 as [c|a b c M MS IH]; intros HS HO last code I; [left; assumption|].
  pose proof (SI_gmv' _ _ _ M HS) as HSb. pose proof (OI_gmv' _ _ _ M HS HO) as HOb.
  destruct (IH HSb HOb last code I) as [I'|G]; [|right; assumption].
  destruct (gmv_delta' _ _ _ M HS) as [(l & E & F) _]. rewrite Forall_forall in F. rewrite E in I'.
  assert (I2 : (exists x, (x = OGoAway last code \/ x = OLate (OGoAway last code)) /\ In x l) \/
               (In (OGoAway last code) (sc_out a) \/ In (OLate (OGoAway last code)) (sc_out a))).
  { destruct I' as [I'|I']; apply in_app_or in I'; destruct I'; eauto. }
  destruct I2 as [(x & Hx & Ix)|I2]; [|left; assumption].
  right. eapply new_ok_goaway; [exact Hx | apply F; exact Ix].
Qed.

(* every GOAWAY a step emits carries a code of the stream loop's list, or the code the event brought with it
   (the frame parser's error code; NO_ERROR when the idle timer closes the connection) *)
Theorem goaway_code_of_step h0 evs e last code :
  let a := run h0 evs in let b := step a e in
  In (OGoAway last code) (sc_out b) \/ In (OLate (OGoAway last code)) (sc_out b) ->
  (In (OGoAway last code) (sc_out a) \/ In (OLate (OGoAway last code)) (sc_out a)) \/
  In code sl_codes \/ parser_code e = Some code.
Proof.
  intros a b I.
  destruct (SIO_run _ dec_field enc_field enc_set_max cfg Q (QT_closed _ dec_field cfg) h0 evs) as [HS HO].
  exact (gmvs_codes _ _ _ (SI_T_gmvs_step a e HS) HS HO last code I).
Qed.

(* ---------- (iv) the functional half of termination ---------- *)
(* The model has no blocking, so "the connection handler returns within a bounded time" cannot be stated on it.
   What a model of the blocking structure would have to show: (1) the read loop never blocks for good on
   `sc.reader <- fr` (the stream loop keeps receiving, or `forward` sees it gone), (2) sc.write never blocks for good
   (the write loop keeps draining, or writeStop is closed), (3) after the read loop's exit closes sc.reader, the
   stream loop's select reaches the `!ok` arm after at most len(sc.reader) further iterations.  The functional
   content of (3) is proved here: once the reader is closed, taking frames until the queue is empty ends the loop. *)
Lemma rlview_proj (a b : sconn) : rlview _ a = rlview _ b ->
  sc_rl_done a = sc_rl_done b /\ sc_readerQ a = sc_readerQ b /\ sc_expectCont a = sc_expectCont b.
Proof. unfold rlview. intro H. inversion H. auto. Qed.

Lemma drain_from n : forall c, sc_rl_done c = true -> (length (sc_readerQ c) < n)%nat ->
  sc_sl_done (run_from dec_field enc_field enc_set_max cfg c (repeat EvSL n)) = true.
Proof.
  induction n as [|n IH]; intros c Hr Hl; [lia|]. cbn [repeat]. rewrite run_from_cons, step_EvSL.
  destruct (sc_sl_done c) eqn:Hd.
  - clear Hl. revert c Hr Hd. clear IH. induction n as [|n IH]; intros c Hr Hd; [assumption|].
    cbn [repeat]. rewrite run_from_cons, step_EvSL, Hd. apply IH; assumption.
  - destruct (sc_readerQ c) as [|fr q] eqn:RQ.
    + rewrite Hr.
      assert (D : forall m (c0 : sconn), sc_sl_done c0 = true ->
                  sc_sl_done (run_from dec_field enc_field enc_set_max cfg c0 (repeat EvSL m)) = true).
      { induction m as [|m IHm]; intros c0 H0; [assumption|]. cbn [repeat]. rewrite run_from_cons, step_EvSL, H0. auto. }
      apply D. reflexivity.
    + pose proof (sl_frame_frame _ dec_field enc_set_max cfg (upd_readerQ c q) fr) as FR.
      destruct (rlview_proj _ _ FR) as (E2 & E3 & _). cbn [length] in Hl.
      apply IH; [rewrite E2; assumption | rewrite E3; cbn; lia].
Qed.

Theorem stream_loop_returns_when_drained c :
  sc_rl_done c = true ->
  sc_sl_done (run_from dec_field enc_field enc_set_max cfg c (repeat EvSL (S (length (sc_readerQ c))))) = true.
Proof. intro H. apply drain_from; [assumption | lia]. Qed.

Lemma rl_done_after_eof c : sc_rl_done (step c (EvRL RLEof)) = true.
Proof. rewrite step_EvRL. destruct (sc_rl_done c) eqn:H; [assumption | reflexivity]. Qed.

(* ---------- C17 (a): no panic ---------- *)
Theorem no_panic h0 evs :
  (forall d n b, dec_field d n b <> DPanic hstate) ->
  forall who why, ~ In (OPanic who why) (trace (run h0 evs)) /\ ~ In (OLate (OPanic who why)) (trace (run h0 evs)).
Proof.
  intros NP who why.
  destruct (SIO_run _ dec_field enc_field enc_set_max cfg Q (QT_closed _ dec_field cfg) h0 evs) as [_ HO].
  split; intro I; apply trace_In in I.
  - destruct (oi_panic _ _ _ _ HO _ _ I) as (d & n & b & E). exact (NP d n b E).
  - destruct (oi_late _ _ _ _ HO _ I) as [F|(l & c & E)]; [exact F | discriminate E].
Qed.

(* ---------- C10 (i): GOAWAY tells the truth ---------- *)
Lemma SIO_T h0 evs : SI (run h0 evs) /\ OI (run h0 evs).
Proof.
  exact (SIO_run _ dec_field enc_field enc_set_max cfg Q (QT_closed _ dec_field cfg) h0 evs).
Qed.

(* every GOAWAY in the trace (also one queued after the stream loop ended) carries a last-stream-id that is at least
   every stream id dispatched anywhere in the whole trace, before or after it *)
Theorem goaway_truth h0 evs last code sid rq :
  let tr := trace (run h0 evs) in
  In (OGoAway last code) tr \/ In (OLate (OGoAway last code)) tr -> In (ODispatch sid rq) tr -> sid <= last.
Proof.
  intros tr HG HD. destruct (SIO_T h0 evs) as [_ HO].
  assert (HG' : In (OGoAway last code) (sc_out (run h0 evs)) \/ In (OLate (OGoAway last code)) (sc_out (run h0 evs)))
    by (destruct HG as [H|H]; apply trace_In in H; auto).
  apply trace_In in HD.
  destruct (oi_goaway _ _ _ _ HO _ _ HG') as [-> _]. destruct (oi_disp _ _ _ _ HO _ _ HD). assumption.
Qed.

(* it carries sc_lastID, and marks the connection as closing *)
Theorem goaway_state h0 evs last code :
  let c := run h0 evs in
  In (OGoAway last code) (trace c) \/ In (OLate (OGoAway last code)) (trace c) ->
  last = sc_lastID c /\ sc_closing c = true.
Proof.
  intros c HG. destruct (SIO_T h0 evs) as [_ HO]. apply (oi_goaway _ _ _ _ HO _ code).
  destruct HG as [H|H]; apply trace_In in H; auto.
Qed.

(* the output only grows *)
Lemma gmvs_out_incl pc a b : gmvs pc a b -> SI a -> forall x, In x (sc_out a) -> In x (sc_out b).
Proof.
  induction 1 as [c|a b c M MS IH]; intros HS x Hx; [assumption|].
  apply (IH (SI_gmv' _ _ _ M HS)). destruct (gmv_delta' _ _ _ M HS) as [(l & E & _) _]. rewrite E.
  apply in_or_app. right. assumption.
Qed.

Lemma run_from_out_incl evs : forall c, SI c -> forall x, In x (sc_out c) ->
  In x (sc_out (run_from dec_field enc_field enc_set_max cfg c evs)).
Proof.
  induction evs as [|e t IH]; intros c HS x Hx; [assumption|]. rewrite run_from_cons.
  apply IH; [apply SI_T_step; assumption|]. eapply gmvs_out_incl; [apply SI_T_gmvs_step| |]; eassumption.
Qed.

Theorem trace_prefix_incl h0 evs1 evs2 x : In x (trace (run h0 evs1)) -> In x (trace (run h0 (evs1 ++ evs2))).
Proof.
  intro H. apply trace_In in H. apply trace_In. rewrite run_app.
  apply run_from_out_incl; [apply SI_run_T | assumption].
Qed.

(* C10 (ii) on traces: after a GOAWAY, every further dispatch is for a stream that was open in the table when the
   GOAWAY had been sent; nothing is opened, and last-stream-id stays *)
Theorem goaway_then_no_new_stream h0 evs1 evs2 last code :
  let a := run h0 evs1 in let b := run h0 (evs1 ++ evs2) in
  In (OGoAway last code) (trace a) \/ In (OLate (OGoAway last code)) (trace a) ->
  sc_lastID b = last /\ incl (hdr_ids (sc_strms b)) (hdr_ids (sc_strms a)) /\
  forall sid rq, In (ODispatch sid rq) (trace b) ->
    In (ODispatch sid rq) (trace a) \/ (In sid (hdr_ids (sc_strms a)) /\ sid <= last).
Proof.
  intros a b HG. destruct (goaway_state h0 evs1 last code HG) as [EL CL]. fold a in EL, CL.
  destruct (no_stream_after_goaway h0 evs1 evs2 CL) as (_ & L & I & D). fold a b in L, I, D.
  split; [congruence|]. split; [assumption|]. intros sid rq H. destruct (D sid rq H) as [H'|H']; [left; assumption|].
  right. split; [assumption|].
  apply (goaway_truth h0 (evs1 ++ evs2) last code sid rq); [|assumption].
  destruct HG as [H1|H1]; [left | right]; apply trace_prefix_incl; assumption.
Qed.

End GoAway.
