(* C03: the header-block loop. Progress of nextField, the loop with its fuel normalised
   ([frameN]), the specification's parse-then-interpret as one interleaved pass ([GN]), and the
   simulation between the two: dec_refines_spec, table_ok_preserved, history, output bounds. *)
From Coq Require Import List NArith ZArith Bool Lia.
From H2V Require Import Base.Bytes Base.MachineInt Base.Result Gen.GenConsts Gen.GenStatic
     Impl.Huffman Impl.Hpack Spec.Rfc7541Huffman Spec.Rfc7541
     Proofs.HpackDefs Proofs.HpackBytes Proofs.HpackStatic Proofs.HpackInt Proofs.HpackStr
     Proofs.HpackTable Proofs.HpackNext Proofs.HpackStruct Proofs.HpackField.
Import ListNotations.
Local Open Scope N_scope.
Local Opaque huffman_root.

Arguments N.land : simpl never.
Arguments N.pow : simpl never.

(* ---- nextField: what an Ok result looks like (any input) ---- *)

Lemma one_field_ok hp hf c r rest d : is_upd c = false ->
  nf_res (one_field hp hf (c :: r)) = Ok (rest, d) ->
  d = true /\ exists f st, one_core hp (c :: r) = Ok (f, rest, st) /\
    one_field hp hf (c :: r) = mkNF (if st then add_dynamic hp f else hp) f (Ok (rest, true)).
Proof.
  intros Hu H. pose proof (one_field_core hp hf c r Hu) as C. unfold nf_of_core in C.
  destruct (one_core hp (c :: r)) as [[[f rest'] st]|e|w].
  - rewrite C in H. cbn [nf_res] in H. injection H as <- <-. split; [reflexivity|].
    exists f, st. split; [reflexivity | exact C].
  - destruct C as [C _]. rewrite C in H. discriminate.
  - destruct C as [C _]. rewrite C in H. discriminate.
Qed.

Theorem next_field_ok hp hf bs fp b rest d :
  nf_res (next_field hp hf bs fp b) = Ok (rest, d) ->
  exists pre, b = pre ++ rest /\ (b <> [] -> pre <> []) /\ (d = false -> rest = []).
Proof.
  rewrite next_field_scanN.
  destruct (scanN (h_max_settings hp) (allowed_of bs fp) b) as [ns e] eqn:Es.
  unfold nf_of_scan. cbn [fst snd]. destruct e as [|e|w|b'].
  - cbn [nf_res]. intros H. injection H as <- <-. exists b. rewrite app_nil_r. auto.
  - discriminate.
  - discriminate.
  - destruct (scanN_field _ _ _ _ _ Es) as [[c [r [-> Hu]]] [pre [Hb Hpre]]].
    intros H. destruct (one_field_ok _ _ _ _ _ _ Hu H) as [-> [f [st [Hc _]]]].
    destruct (one_core_ok _ _ _ _ _ Hc) as [pre' [Hb' [Hne' _]]].
    exists (pre ++ pre'). split; [rewrite <- app_assoc, <- Hb'; exact Hb|]. split; [|discriminate].
    intros _. destruct pre'; [congruence|]. destruct pre; discriminate.
Qed.

Theorem next_field_progress hp hf bs fp b rest d : b <> [] ->
  nf_res (next_field hp hf bs fp b) = Ok (rest, d) ->
  (length rest < length b)%nat /\ exists consumed, b = consumed ++ rest.
Proof.
  intros Hb H. destruct (next_field_ok _ _ _ _ _ _ _ H) as [pre [Hp [Hne _]]].
  split; [|exists pre; exact Hp]. specialize (Hne Hb). rewrite Hp, app_length.
  destruct pre; [congruence | cbn [length]; lia].
Qed.

(* ---- the loop of handleHeaderFrame with its fuel normalised ---- *)

Lemma frame_loop_S f hp hf eh k c r :
  frame_loop (S f) hp hf eh k (c :: r) =
  let o := next_field hp hf true k (c :: r) in
  match nf_res o with
  | Panic w => Panic w
  | Ok (_, false) => Ok ([], nf_hp o, mkS [] k)
  | Err e =>
      if (e =? E_unexpected_size) && (0 <? len (c :: r)) && negb eh
      then Ok ([], nf_hp o, mkS (c :: r) k)
      else Err E_compression
  | Ok (rest, true) =>
      match frame_loop f (nf_hp o) (nf_hf o) eh (k + 1) rest with
      | Ok (fs, hp', st) => Ok (nf_hf o :: fs, hp', st)
      | Err e => Err e
      | Panic w => Panic w
      end
  end.
Proof. reflexivity. Qed.

Lemma frame_loop_nil f hp hf eh k : frame_loop f hp hf eh k [] = Ok ([], hp, mkS [] k).
Proof. destruct f; reflexivity. Qed.

Lemma frame_loop_fuel : forall f1 f2 hp hf eh k b, (length b <= f1)%nat -> (length b <= f2)%nat ->
  frame_loop f1 hp hf eh k b = frame_loop f2 hp hf eh k b.
Proof.
  induction f1 as [|f1 IH]; intros f2 hp hf eh k b H1 H2.
  - destruct b; [rewrite !frame_loop_nil; reflexivity | cbn [length] in H1; lia].
  - destruct b as [|c r]; [rewrite !frame_loop_nil; reflexivity|].
    destruct f2 as [|f2]; [cbn [length] in H2; lia|].
    rewrite !frame_loop_S. cbv zeta.
    destruct (nf_res (next_field hp hf true k (c :: r))) as [[rest [|]]|e|w] eqn:E; try reflexivity.
    apply next_field_progress in E; [|discriminate]. destruct E as [E _]. cbn [length] in *.
    rewrite (IH f2) by lia. reflexivity.
Qed.

Definition frameN (hp : hpack_state) (hf : field) (eh : bool) (k : N) (b : bytes)
  : result (list field * hpack_state * strm_state) :=
  frame_loop (length b) hp hf eh k b.

Lemma frameN_nil hp hf eh k : frameN hp hf eh k [] = Ok ([], hp, mkS [] k).
Proof. reflexivity. Qed.

Lemma frameN_cons hp hf eh k c r :
  frameN hp hf eh k (c :: r) =
  let o := next_field hp hf true k (c :: r) in
  match nf_res o with
  | Panic w => Panic w
  | Ok (_, false) => Ok ([], nf_hp o, mkS [] k)
  | Err e =>
      if (e =? E_unexpected_size) && (0 <? len (c :: r)) && negb eh
      then Ok ([], nf_hp o, mkS (c :: r) k)
      else Err E_compression
  | Ok (rest, true) =>
      match frameN (nf_hp o) (nf_hf o) eh (k + 1) rest with
      | Ok (fs, hp', st) => Ok (nf_hf o :: fs, hp', st)
      | Err e => Err e
      | Panic w => Panic w
      end
  end.
Proof.
  unfold frameN. cbn [length]. rewrite frame_loop_S. cbv zeta.
  destruct (nf_res (next_field hp hf true k (c :: r))) as [[rest [|]]|e|w] eqn:E; try reflexivity.
  apply next_field_progress in E; [|discriminate]. destruct E as [E _]. cbn [length] in E.
  rewrite (frame_loop_fuel (length r) (length rest)) by lia. reflexivity.
Qed.

Lemma frame_loop_frameN f hp hf eh k b : (length b <= f)%nat -> frame_loop f hp hf eh k b = frameN hp hf eh k b.
Proof. intros H. unfold frameN. apply frame_loop_fuel; lia. Qed.

(* a size update at the head of the input is applied and the call goes on with the rest *)
Lemma next_field_upd hp hf k c r b1 n : is_upd c = true -> read_int 5 (c :: r) = Ok (b1, n) ->
  allowed_of true k = true -> n <= h_max_settings hp ->
  next_field hp hf true k (c :: r) = next_field (upd hp (u32 n)) (set_sens hf false) true k b1.
Proof.
  intros Hu Hr Ha Hn. rewrite !next_field_scanN, scanN_cons, Hu, Hr, Ha. cbn [negb].
  replace (h_max_settings hp <? n) with false by (symmetry; apply N.ltb_ge; exact Hn).
  rewrite upd_settings.
  destruct (scanN (h_max_settings hp) true b1) as [ns e].
  unfold nf_of_scan. cbn [fst snd]. rewrite apply_upd_cons.
  destruct e; destruct b1; reflexivity.
Qed.

Lemma frameN_upd hp hf k c r b1 n : is_upd c = true -> read_int 5 (c :: r) = Ok (b1, n) ->
  allowed_of true k = true -> n <= h_max_settings hp ->
  frameN hp hf true k (c :: r) = frameN (upd hp (u32 n)) (set_sens hf false) true k b1.
Proof.
  intros Hu Hr Ha Hn. rewrite frameN_cons. cbv zeta. rewrite (next_field_upd hp hf k c r b1 n Hu Hr Ha Hn).
  destruct b1 as [|c1 r1].
  - unfold next_field. rewrite nfl_nil. reflexivity.
  - rewrite frameN_cons. cbv zeta.
    destruct (nf_res (next_field (upd hp (u32 n)) (set_sens hf false) true k (c1 :: r1))) as [[rest [|]]|e|w];
      try reflexivity.
    cbn [negb]. rewrite !andb_false_r. reflexivity.
Qed.

(* ---- the specification in one pass ---- *)

Lemma parse_reprs_fuel : forall f1 f2 b, (length b <= f1)%nat -> (length b <= f2)%nat ->
  parse_reprs f1 b = parse_reprs f2 b.
Proof.
  induction f1 as [|f1 IH]; intros f2 b H1 H2.
  - destruct b; [destruct f2; reflexivity | cbn [length] in H1; lia].
  - destruct b as [|c r]; [destruct f2; reflexivity|].
    destruct f2 as [|f2]; [cbn [length] in H2; lia|].
    cbn [parse_reprs]. destruct (spec_dec_repr (c :: r)) as [[rp rest]|] eqn:E; [|reflexivity].
    apply spec_dec_repr_length in E. cbn [length] in *. rewrite (IH f2) by lia. reflexivity.
Qed.

Definition GN (t : dtable) (at_start : bool) (b : bytes) : option (list hfield * dtable) :=
  match spec_parse_block b with
  | Some rs => sem_from t at_start rs
  | None => None
  end.

Lemma spec_decode_block_GN t b : spec_decode_block t b = GN t true b.
Proof. reflexivity. Qed.

Lemma GN_nil t s : GN t s [] = Some ([], t).
Proof. reflexivity. Qed.

Lemma GN_cons t s c r :
  GN t s (c :: r) =
  match spec_dec_repr (c :: r) with
  | None => None
  | Some (rp, rest) =>
      match spec_step t s rp with
      | None => None
      | Some (None, t') => GN t' s rest
      | Some (Some fld, t') =>
          match GN t' false rest with
          | Some (fs, t'') => Some (fld :: fs, t'')
          | None => None
          end
      end
  end.
Proof.
  unfold GN, spec_parse_block. cbn [length parse_reprs].
  destruct (spec_dec_repr (c :: r)) as [[rp rest]|] eqn:E; [|reflexivity].
  apply spec_dec_repr_length in E. cbn [length] in E.
  rewrite (parse_reprs_fuel (length r) (length rest)) by lia.
  destruct (parse_reprs (length rest) rest) as [rs|].
  - cbn [sem_from]. destruct (spec_step t s rp) as [[[fld|] t']|]; reflexivity.
  - destruct (spec_step t s rp) as [[[fld|] t']|]; reflexivity.
Qed.

(* ---- reachable states stay reachable ---- *)

Lemma table_ok_upd hp n : table_ok hp -> n <= h_max_settings hp ->
  table_ok (upd hp n) /\ abs (upd hp n) = set_max (abs hp) n.
Proof.
  intros Hok Hn. pose proof (table_ok_fsum hp Hok) as [F1 F2].
  destruct Hok as [H1 [H2 [H3 H4]]].
  assert (Hs : fsum (h_dynamic (with_max hp n)) < 2 ^ 32) by (cbn [with_max h_dynamic]; lia).
  split.
  - unfold table_ok. rewrite table_size_abs. rewrite upd_fit by lia.
    cbn [with_dynamic with_max h_dynamic h_max h_max_settings].
    split; [apply forallb_fit; exact H1|]. split; [apply fsum_fit_le|]. split; assumption.
  - unfold upd. rewrite abs_shrink by exact Hs. reflexivity.
Qed.

Lemma table_ok_add hp f : table_ok hp -> field_ok f = true -> fsum (h_dynamic hp) + fsize f < 2 ^ 32 ->
  table_ok (add_dynamic hp f) /\ abs (add_dynamic hp f) = add_entry (abs hp) (entry_of f).
Proof.
  intros Hok Hf Hs. destruct Hok as [H1 [H2 [H3 H4]]]. split; [|apply abs_add_dynamic; exact Hs].
  unfold table_ok. rewrite table_size_abs. rewrite add_dynamic_fit by exact Hs.
  cbn [with_dynamic h_dynamic h_max h_max_settings].
  split.
  - apply forallb_fit. rewrite forallb_app, H1. cbn [forallb]. rewrite Hf. reflexivity.
  - split; [apply fsum_fit_le|]. split; assumption.
Qed.

Lemma add_dynamic_settings hp f : h_max_settings (add_dynamic hp f) = h_max_settings hp.
Proof. reflexivity. Qed.

(* ---- the simulation ---- *)

Definition small (hp : hpack_state) (b : bytes) : Prop := 2 * len b + 2 * h_max_settings hp + 64 < 2 ^ 32.

Definition field_bound (hp : hpack_state) (b : bytes) (f : field) : Prop :=
  fsize f <= N.max (h_max_settings hp) 64 + 2 * len b.

Definition sim_result (hp : hpack_state) (hf : field) (k : N) (b : bytes) : Prop :=
  match GN (abs hp) (k =? 0) b with
  | None => exists e, frameN hp hf true k b = Err e
  | Some (fs, t') =>
      exists fl hp' st', frameN hp hf true k b = Ok (fl, hp', st') /\
        map triple_of fl = fs /\ abs hp' = t' /\ table_ok hp' /\ s_prev st' = [] /\
        h_max_settings hp' = h_max_settings hp /\ (length fl <= length b)%nat /\
        Forall (field_bound hp b) fl
  end.

Lemma field_bound_weaken hp hp' b b' fl : h_max_settings hp' = h_max_settings hp -> len b' <= len b ->
  Forall (field_bound hp' b') fl -> Forall (field_bound hp b) fl.
Proof.
  intros Hs Hl. apply Forall_impl. intros f. unfold field_bound. rewrite Hs. lia.
Qed.

Lemma next_field_scan_err hp hf k c r e :
  scanN (h_max_settings hp) (allowed_of true k) (c :: r) = ([], SErr e) ->
  frameN hp hf true k (c :: r) = Err E_compression.
Proof.
  intros Hs. rewrite frameN_cons. cbv zeta. rewrite next_field_scanN, Hs.
  unfold nf_of_scan. cbn [fst snd nf_res negb]. rewrite andb_false_r. reflexivity.
Qed.

Theorem sim : forall b hp hf k, bytes_ok b = true -> table_ok hp -> small hp b -> sim_result hp hf k b.
Proof.
  induction b as [b IH] using bytes_len_ind. intros hp hf k Hok Htab Hsm.
  unfold sim_result. destruct b as [|c r].
  - rewrite GN_nil, frameN_nil. exists [], hp, (mkS [] k).
    split; [reflexivity|]. split; [reflexivity|]. split; [reflexivity|]. split; [exact Htab|].
    split; [reflexivity|]. split; [reflexivity|]. split; [cbn; lia | constructor].
  - rewrite GN_cons. pose proof Hok as Hok'. apply bytes_ok_cons in Hok'. destruct Hok' as [Hc Hr].
    pose proof (table_ok_fsum hp Htab) as [F1 F2].
    destruct (is_upd c) eqn:Eu.
    + (* a dynamic table size update *)
      destruct (upd_byte c Hc Eu) as [U1 U2].
      cbn [spec_dec_repr].
      replace (128 <=? c) with false by (symmetry; apply N.leb_gt; lia).
      replace (64 <=? c) with false by (symmetry; apply N.leb_gt; lia).
      replace (32 <=? c) with true by (symmetry; apply N.leb_le; lia).
      pose proof (read_int_spec 5 (c :: r) ltac:(lia) Hok) as HI.
      destruct (spec_dec_int 5 (c :: r)) as [[n b1]|] eqn:ES.
      2:{ destruct HI as [e HI]. exists E_compression. apply next_field_scan_err with e.
          rewrite scanN_cons, Eu, HI. reflexivity. }
      destruct HI as [HI _]. cbn [spec_step]. change (dt_limit (abs hp)) with (h_max_settings hp).
      destruct (N.eqb_spec k 0) as [Hk|Hk]; cbn [andb].
      2:{ exists E_compression. apply next_field_scan_err with E_dynamic_update.
          rewrite scanN_cons, Eu, HI. unfold allowed_of.
          replace (k =? 0) with false by (symmetry; apply N.eqb_neq; exact Hk). reflexivity. }
      destruct (N.leb_spec n (h_max_settings hp)) as [Hn|Hn].
      2:{ exists E_compression. apply next_field_scan_err with E_dynamic_update_max.
          rewrite scanN_cons, Eu, HI. unfold allowed_of. subst k. cbn [N.eqb andb negb].
          replace (h_max_settings hp <? n) with true by (symmetry; apply N.ltb_lt; exact Hn). reflexivity. }
      assert (Ha : allowed_of true k = true) by (subst k; reflexivity).
      rewrite (frameN_upd hp hf k c r b1 n Eu HI Ha Hn).
      destruct Htab as [T1 [T2 [T3 T4]]].
      rewrite u32_small by lia.
      destruct (table_ok_upd hp n (conj T1 (conj T2 (conj T3 T4))) Hn) as [Htab' Habs'].
      pose proof (read_int_ok _ _ _ _ HI) as [p0 [Hb0 [Hne0 _]]].
      assert (Hb1 : bytes_ok b1 = true) by (rewrite Hb0 in Hok; apply bytes_ok_app in Hok; tauto).
      assert (Hl1 : len b1 <= len (c :: r)) by (rewrite Hb0, len_app; lia).
      pose proof (read_int_ok_length _ _ _ _ HI) as Hlen.
      assert (Hsm' : small (upd hp n) b1) by (unfold small in *; rewrite upd_settings; lia).
      pose proof (IH b1 Hlen (upd hp n) (set_sens hf false) k Hb1 Htab' Hsm') as R.
      unfold sim_result in R. rewrite Habs' in R.
      replace (k =? 0) with true in R by (symmetry; apply N.eqb_eq; exact Hk).
      destruct (GN (set_max (abs hp) n) true b1) as [[fs t']|]; [|exact R].
      destruct R as [fl [hp' [st' [R1 [R2 [R3 [R4 [R5 [R6 [R7 R8]]]]]]]]]].
      exists fl, hp', st'. split; [exact R1|]. split; [exact R2|]. split; [exact R3|]. split; [exact R4|].
      split; [exact R5|]. split; [rewrite R6; apply upd_settings|]. split; [lia|].
      eapply field_bound_weaken; [apply upd_settings | exact Hl1 | exact R8].
    + (* a header field representation *)
      pose proof (one_core_spec hp c r (k =? 0) Hok Eu Htab) as HS. cbv zeta in HS.
      assert (Hnf : next_field hp hf true k (c :: r) = one_field hp hf (c :: r)).
      { rewrite next_field_scanN, scanN_cons, Eu. reflexivity. }
      pose proof (one_field_core hp hf c r Eu) as HC. unfold nf_of_core in HC.
      assert (Herr : forall e, one_core hp (c :: r) = Err e -> frameN hp hf true k (c :: r) = Err E_compression).
      { intros e He. rewrite He in HC. destruct HC as [HC _].
        rewrite frameN_cons. cbv zeta. rewrite Hnf, HC. cbn [negb]. rewrite andb_false_r. reflexivity. }
      destruct (spec_dec_repr (c :: r)) as [[rp rest]|].
      2:{ destruct HS as [e He]. exists E_compression. eapply Herr; exact He. }
      destruct (spec_step (abs hp) (k =? 0) rp) as [[[fld|] t']|]; [| contradiction |].
      2:{ destruct HS as [e He]. exists E_compression. eapply Herr; exact He. }
      destruct HS as [f [st [Hcore [Q1 [Q2 [Q3 [Q4 [Q5 [Q6 Q7]]]]]]]]].
      rewrite Hcore in HC.
      destruct (one_core_ok _ _ _ _ _ Hcore) as [pre [Hpre [Hpne _]]].
      assert (Hlen : (length rest < length (c :: r))%nat).
      { rewrite Hpre, app_length. destruct pre; [congruence | cbn [length]; lia]. }
      assert (Hlr : len rest <= len (c :: r)) by (unfold len; lia).
      set (hp1 := if st then add_dynamic hp f else hp) in *.
      assert (H1 : table_ok hp1 /\ abs hp1 = t' /\ h_max_settings hp1 = h_max_settings hp).
      { unfold hp1. destruct st.
        - assert (Hfo : field_ok f = true) by (unfold field_ok; rewrite Q4, Q5, (Q3 eq_refl); reflexivity).
          assert (Hs : fsum (h_dynamic hp) + fsize f < 2 ^ 32).
          { destruct Htab as [_ [_ [T3 _]]]. unfold small in Hsm. lia. }
          destruct (table_ok_add hp f Htab Hfo Hs) as [A1 A2]. rewrite Q2. auto.
        - rewrite Q2. auto. }
      destruct H1 as [Htab1 [Habs1 Hset1]].
      assert (Hsm1 : small hp1 rest) by (unfold small in *; rewrite Hset1; lia).
      pose proof (IH rest Hlen hp1 f (k + 1) Q6 Htab1 Hsm1) as R.
      unfold sim_result in R. rewrite Habs1 in R.
      replace (k + 1 =? 0) with false in R by (symmetry; apply N.eqb_neq; lia).
      rewrite frameN_cons. cbv zeta. rewrite Hnf, HC. cbn [nf_res nf_hp nf_hf].
      destruct (GN t' false rest) as [[fs t'']|].
      * destruct R as [fl [hp' [st' [R1 [R2 [R3 [R4 [R5 [R6 [R7 R8]]]]]]]]]].
        rewrite R1. exists (f :: fl), hp', st'. split; [reflexivity|].
        split; [cbn [map]; rewrite Q1, R2; reflexivity|].
        split; [exact R3|]. split; [exact R4|]. split; [exact R5|]. split; [rewrite R6; exact Hset1|].
        split; [cbn [length] in *; lia|].
        constructor.
        -- unfold field_bound. lia.
        -- eapply field_bound_weaken; [exact Hset1 | exact Hlr | exact R8].
      * destruct R as [e R]. rewrite R. exists e. reflexivity.
Qed.

(* ---- one block ---- *)

Lemma block_decode_frameN hp b :
  block_decode hp b =
  match frameN hp empty_field true 0 b with
  | Ok (fs, hp', st') =>
      if negb (len (s_prev st') =? 0) then Err E_headers_incomplete else Ok (fs ++ [], hp')
  | Err e => Err e
  | Panic w => Panic w
  end.
Proof.
  unfold block_decode, block_decode_frames. cbn [frames_from handle_header_frame s_prev app].
  rewrite frame_loop_frameN by lia.
  destruct (frameN hp empty_field true 0 b) as [[[fs hp'] st']|e|w]; try reflexivity.
  cbn [andb]. destruct (negb (len (s_prev st') =? 0)); reflexivity.
Qed.

(* everything the block-level theorems need, in one statement *)
Theorem block_decode_sim hp b : bytes_ok b = true -> table_ok hp -> block_small hp b ->
  match spec_decode_block (abs hp) b with
  | None => exists e, block_decode hp b = Err e
  | Some (fs, t') =>
      exists fl hp', block_decode hp b = Ok (fl, hp') /\ map triple_of fl = fs /\ abs hp' = t' /\
        table_ok hp' /\ h_max_settings hp' = h_max_settings hp /\ (length fl <= length b)%nat /\
        Forall (field_bound hp b) fl
  end.
Proof.
  intros Hok Htab Hsm. pose proof (sim b hp empty_field 0 Hok Htab Hsm) as R. unfold sim_result in R.
  rewrite spec_decode_block_GN, block_decode_frameN. change (0 =? 0) with true in R.
  destruct (GN (abs hp) true b) as [[fs t']|].
  - destruct R as [fl [hp' [st' [R1 [R2 [R3 [R4 [R5 [R6 [R7 R8]]]]]]]]]].
    rewrite R1, R5, app_nil_r. exists fl, hp'. cbn [len length N.of_nat N.eqb negb]. auto 10.
  - destruct R as [e ->]. exists e. reflexivity.
Qed.

Theorem dec_refines_spec : forall st b, bytes_ok b = true -> table_ok st -> block_small st b ->
  proj (block_decode st b) = spec_decode_block (abs st) b.
Proof.
  intros st b Hok Htab Hsm. pose proof (block_decode_sim st b Hok Htab Hsm) as R.
  destruct (spec_decode_block (abs st) b) as [[fs t']|].
  - destruct R as [fl [hp' [-> [R2 [R3 _]]]]]. cbn [proj]. rewrite R2, R3. reflexivity.
  - destruct R as [e ->]. reflexivity.
Qed.

Theorem table_ok_preserved : forall st b fs st', bytes_ok b = true -> table_ok st -> block_small st b ->
  block_decode st b = Ok (fs, st') -> table_ok st'.
Proof.
  intros st b fs st' Hok Htab Hsm H. pose proof (block_decode_sim st b Hok Htab Hsm) as R.
  destruct (spec_decode_block (abs st) b) as [[fs0 t']|].
  - destruct R as [fl [hp' [R1 [_ [_ [R4 _]]]]]]. rewrite H in R1. injection R1 as <- <-. exact R4.
  - destruct R as [e R]. rewrite H in R. discriminate.
Qed.

Lemma settings_preserved st b fs st' : bytes_ok b = true -> table_ok st -> block_small st b ->
  block_decode st b = Ok (fs, st') -> h_max_settings st' = h_max_settings st.
Proof.
  intros Hok Htab Hsm H. pose proof (block_decode_sim st b Hok Htab Hsm) as R.
  destruct (spec_decode_block (abs st) b) as [[fs0 t']|].
  - destruct R as [fl [hp' [R1 [_ [_ [_ [R5 _]]]]]]]. rewrite H in R1. injection R1 as <- <-. exact R5.
  - destruct R as [e R]. rewrite H in R. discriminate.
Qed.

Theorem output_bounded : forall st b fs st', bytes_ok b = true -> table_ok st -> block_small st b ->
  block_decode st b = Ok (fs, st') ->
  (length fs <= length b)%nat /\
  Forall (fun f => len (f_key f) + len (f_value f) + 32 <= N.max (h_max_settings st) 64 + 2 * len b + 32) fs.
Proof.
  intros st b fs st' Hok Htab Hsm H. pose proof (block_decode_sim st b Hok Htab Hsm) as R.
  destruct (spec_decode_block (abs st) b) as [[fs0 t']|].
  - destruct R as [fl [hp' [R1 [_ [_ [_ [_ [R6 R7]]]]]]]]. rewrite H in R1. injection R1 as <- <-.
    split; [exact R6|]. eapply Forall_impl; [|exact R7]. intros f. unfold field_bound, fsize. lia.
  - destruct R as [e R]. rewrite H in R. discriminate.
Qed.

(* ---- a connection ---- *)

Theorem history_refines_spec : forall st bs, forallb bytes_ok bs = true -> table_ok st ->
  Forall (block_small st) bs ->
  proj_history (decode_history st bs) = spec_decode_blocks (abs st) bs.
Proof.
  intros st bs. revert st. induction bs as [|b bs IH]; intros st Hok Htab Hsm; [reflexivity|].
  cbn [forallb] in Hok. apply andb_prop in Hok. destruct Hok as [Hb Hbs].
  inversion Hsm as [|? ? Hsb Hsbs]; subst.
  cbn [decode_history spec_decode_blocks].
  pose proof (block_decode_sim st b Hb Htab Hsb) as R.
  destruct (spec_decode_block (abs st) b) as [[fs t']|].
  - destruct R as [fl [hp' [R1 [R2 [R3 [R4 [R5 _]]]]]]]. rewrite R1.
    assert (Hsm' : Forall (block_small hp') bs).
    { eapply Forall_impl; [|exact Hsbs]. intros x. unfold block_small. rewrite R5. auto. }
    specialize (IH hp' Hbs R4 Hsm'). rewrite R3 in IH. rewrite <- IH.
    destruct (decode_history hp' bs) as [[fss hp'']|e|w]; try reflexivity.
    cbn [proj_history map]. rewrite R2. reflexivity.
  - destruct R as [e ->]. reflexivity.
Qed.
