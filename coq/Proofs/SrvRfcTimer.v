(* Proofs/SrvRfcTimer.v - C08: the request timer (maxRequestTime): the streams at the head of the table that are
   overdue are reset with CANCEL and closed, one after the other. *)
From H2V Require Import Base.Bytes Base.MachineInt Base.Result Gen.GenConsts Impl.ServerConn.
From H2V Require Import Proofs.SrvBase Proofs.SrvRfcDefs Proofs.SrvRfcSpec Proofs.SrvRfcModel Proofs.SrvRfcSim Proofs.SrvRfcEff
  Proofs.SrvRfcSend Proofs.SrvRfcStep Proofs.SrvRfcKit.
From Coq Require Import ZArith Lia ZifyN ZifyNat ZifyBool.
Local Open Scope N_scope.

Lemma rel1_vdrift m m' x : rel1 m x -> vdrift m m' -> rel1 m' x.
Proof.
  intros R [->|[Hm Hm']]; [exact R|].
  assert (A : active x = false).
  { destruct m as [st|b| |]; try contradiction; cbn [rel1 rel] in R; try exact R.
    destruct b; [subst; reflexivity | destruct R; subst; reflexivity]. }
  destruct m' as [st|b| |]; try contradiction; exact A.
Qed.

Lemma after_outs_app s d1 d2 : after_outs (after_outs s d1) d2 = after_outs s (d2 ++ d1).
Proof. unfold after_outs. rewrite filter_app, rev_app_distr, flat_map_app, fold_left_app. reflexivity. Qed.

Section Timer.
Variable hstate : Type.
Notation sconn := (sconn hstate).
Notation tbl := (tbl hstate).
Notation view := (view hstate).
Notation AuxT := (AuxT hstate).
Notation AuxH := (AuxH hstate).
Notation Sim := (Sim hstate).
Notation live_tuple := (live_tuple hstate).
Implicit Types c : sconn.

Lemma Sim_live c s ph : Sim c s ph -> live_tuple c s ph.
Proof.
  intros HS. split; [exact (S_aux _ _ _ _ HS)|]. split; [intros id O; apply rel_rel1, (S_str _ _ _ _ HS id O)|].
  split; [exact (S_blk _ _ _ _ HS)|]. split; [exact (S_ga _ _ _ _ HS)|]. split; [exact (S_hi _ _ _ _ HS)|].
  split; [exact (S_cont _ _ _ _ HS)|]. split; [exact (S_ph _ _ _ _ HS) | exact (S_new _ _ _ _ HS)].
Qed.

(* what the timer does to one stream *)
Definition tclose c (st : stream) : sconn :=
  close_stream (write_reset c (st_id st) c_StreamCanceled) (set_state (set_weReset st) SClosed).

Lemma close_head_live c s ph st :
  In st (sc_strms c) -> sc_sl_done c = false -> wf s -> live_tuple c s ph ->
  exists d, sc_out (tclose c st) = d ++ sc_out c /\ sc_sl_done (tclose c st) = false /\
            (forall sid rq, ~ In (ODispatch sid rq) d) /\
            live_tuple (tclose c st) (after_outs s d) ph.
Proof.
  intros HIn Hsl W ((AT & AH) & Hrel & Hblk & Hga & Hhi & Hcont & Hph & Hnew).
  pose proof AT as [B1 B2 B3 B4 B5 B6 B7 B8 B9 B10]. pose proof AH as [F1 F2 F3 F4].
  set (id := st_id st) in *.
  assert (T0 : tbl c id = Some st) by (apply In_search; assumption).
  assert (Wr : wr hstate c) by (split; assumption).
  set (sX := set_state (set_weReset st) SClosed).
  assert (C1 : write_reset c id c_StreamCanceled = note c (ORst id c_StreamCanceled)) by (unfold write_reset; apply emit_wr, Wr).
  unfold tclose. fold id sX. rewrite C1. set (c1 := note c (ORst id c_StreamCanceled)). set (c' := close_stream c1 sX).
  assert (IdX : st_id sX = id) by reflexivity.
  assert (S' : sc_strms c' = strms_del (sc_strms c) id) by (unfold c'; rewrite sc_strms_close_stream; reflexivity).
  destruct (mark_closed_ring_ext hstate c1 c id true eq_refl eq_refl) as [MR MO].
  assert (R' : sc_ring c' = sc_ring (mark_closed c id true)) by (unfold c'; rewrite sc_ring_close_stream; exact MR).
  assert (Ol' : sc_oldest c' = sc_oldest (mark_closed c id true)) by (unfold c'; rewrite sc_oldest_close_stream; exact MO).
  assert (Rf : forall i, ring_find c' i = ring_find (mark_closed c id true) i) by (intro i; apply ring_find_ext, R').
  assert (Rn : ring_find c id = None).
  { pose proof (B8 st HIn) as X. rewrite in_ring_find in X. fold id in X. destruct (ring_find c id); [discriminate | reflexivity]. }
  assert (TbS : tbl c' id = None) by (unfold SrvRfcDefs.tbl; rewrite S'; apply search_del_same, B4).
  assert (TbO : forall i, i <> id -> tbl c' i = tbl c i) by (intros i Hn; unfold SrvRfcDefs.tbl; rewrite S'; apply search_del_other, Hn).
  assert (InO : forall st', In st' (sc_strms c') -> In st' (sc_strms c) /\ st_id st' <> id) by (intros st' H; rewrite S' in H; apply (del_In _ _ _ B4 H)).
  set (d := (if st_handlerRunning st then [] else [ORelease id true]) ++ [ORst id c_StreamCanceled]).
  assert (O' : sc_out c' = d ++ sc_out c).
  { unfold c', d. rewrite sc_out_close_stream. change (st_handlerRunning sX) with (st_handlerRunning st).
    destruct (st_handlerRunning st); reflexivity. }
  assert (AO : after_outs s d = RS.spec_sent s (RS.SentRst id)) by (unfold d; destruct (st_handlerRunning st); reflexivity).
  assert (D' : sc_discardID c' = if negb (st_headersFinished st) && negb (sc_discardID c =? id) then id else sc_discardID c).
  { unfold c'. rewrite sc_discardID_close_stream. reflexivity. }
  assert (Sc : sc_rl_done c' = sc_rl_done c /\ sc_wl_dead c' = sc_wl_dead c /\ sc_sl_done c' = sc_sl_done c /\ sc_readerQ c' = sc_readerQ c /\
               sc_lastID c' = sc_lastID c /\ sc_highestID c' = sc_highestID c /\ sc_closing c' = sc_closing c /\ sc_expectCont c' = sc_expectCont c)
    by (unfold c', c1; sc_rw; repeat split; reflexivity).
  destruct Sc as (E1 & E2 & E3 & E4 & E5 & E6 & E7 & E8).
  (* the state of the stream in the specification *)
  assert (Xid : RS.st_of s id = RS.Open \/ RS.st_of s id = RS.HalfClosedRemote).
  { pose proof (Hrel id (proj1 (B5 st HIn))) as X. unfold SrvRfcDefs.view in X. rewrite T0 in X. cbn [rel1 rel] in X.
    destruct (proj1 (B9 st HIn)) as [Y|Y]; rewrite Y in X; auto. }
  exists d. split; [exact O'|]. split; [rewrite E3; exact Hsl|]. split.
  { intros sid rq H. unfold d in H. apply in_app_or in H. destruct H as [H|[H|[]]]; [|discriminate].
    destruct (st_handlerRunning st); [destruct H | destruct H as [H|[]]; discriminate]. }
  rewrite AO.
  assert (RO' : ring_ok hstate c') by (eapply ring_ok_ext; [exact R' | exact Ol' | apply ring_ok_mark, B7]).
  split; [split|].
  - (* AuxT *)
    constructor.
    + rewrite E1; exact B1.
    + rewrite E2; exact B2.
    + rewrite E4; exact B3.
    + rewrite S'. apply del_nodup, B4.
    + intros st' H. rewrite E5. apply B5, (InO st' H).
    + rewrite E5, E6. exact B6.
    + exact RO'.
    + intros st' H. destruct (InO st' H) as [X Y]. rewrite in_ring_find, Rf. pose proof (B8 st' X) as Z. rewrite in_ring_find in Z.
      destruct (ring_find_mark_other hstate c id true (st_id st') B7 Y) as [E|E]; rewrite E; [exact Z | reflexivity].
    + intros st' H. apply B9, (InO st' H).
    + intros st' H. apply B10, (InO st' H).
  - (* AuxH *)
    constructor.
    + intros st' H Hf. rewrite E8. apply F1; [apply (InO st' H) | exact Hf].
    + rewrite E8. intros st' Hne T'. apply (F2 st' Hne).
      destruct (N.eq_dec (sc_expectCont c) id) as [X|X]; [rewrite X, TbS in T'; discriminate | rewrite (TbO _ X) in T'; exact T'].
    + rewrite E8. exact F3.
    + rewrite D', E6. destruct (negb (st_headersFinished st) && negb (sc_discardID c =? id))%bool.
      * intros _. split; [exact TbS|]. pose proof (B5 st HIn) as [_ X]. fold id in X. lia.
      * intro Hne. destruct (F4 Hne) as [X Y]. split; [|exact Y].
        destruct (N.eq_dec (sc_discardID c) id) as [Z|Z]; [rewrite Z; exact TbS | rewrite (TbO _ Z); exact X].
  - split; [|split; [|split; [|split; [|split; [|split]]]]].
    + (* the streams *)
      intros i O. rewrite (st_of_spec_sent s _ i W). cbn [sent_sid].
      destruct (id =? i) eqn:Ei.
      * apply N.eqb_eq in Ei. subst i. unfold SrvRfcDefs.view. rewrite TbS, Rf, ring_find_mark_same by exact B7. rewrite Rn. cbn [rel1 rel].
        destruct Xid as [X|X]; rewrite X; reflexivity.
      * assert (Hn : i <> id) by (apply N.eqb_neq in Ei; congruence).
        apply (rel1_vdrift (view c i)); [apply Hrel, O|].
        apply vdrift_intro; [rewrite (TbO i Hn); reflexivity | rewrite Rf; apply ring_find_mark_other; assumption].
    + unfold R_block. rewrite block_spec_sent, E8. exact Hblk.
    + rewrite goaway_spec_sent, E7. exact Hga.
    + rewrite highest_spec_sent by exact W. rewrite E6. exact Hhi.
    + rewrite E8, D', dead_spec_sent. intros Hne T'.
      assert (Tc : (exists st0, tbl c (sc_expectCont c) = Some st0) \/ tbl c (sc_expectCont c) = None) by (destruct (tbl c (sc_expectCont c)); eauto).
      destruct Tc as [[st0 Tc]|Tc].
      * (* the block's stream is the one being closed *)
        assert (X : sc_expectCont c = id).
        { destruct (N.eq_dec (sc_expectCont c) id) as [X|X]; [exact X | rewrite (TbO _ X), Tc in T'; discriminate]. }
        rewrite X in Tc. assert (st0 = st) by congruence. subst st0.
        pose proof (F2 st Hne) as Fin. rewrite X in Fin. specialize (Fin Tc). rewrite Fin. cbn [negb andb].
        left. destruct (sc_discardID c =? id) eqn:Q; cbn [negb]; [apply N.eqb_eq in Q; congruence | congruence].
      * destruct (negb (st_headersFinished st) && negb (sc_discardID c =? id))%bool eqn:Arm.
        -- exfalso. apply andb_true_iff in Arm. destruct Arm as [Arm _]. apply negb_true_iff in Arm.
           pose proof (F1 st HIn Arm) as X. fold id in X. rewrite <- X, T0 in Tc. discriminate.
        -- exact (Hcont Hne Tc).
    + intros st' H. apply Hph, (InO st' H).
    + rewrite E7, E6. exact Hnew.
Qed.

(* ... and to the overdue streams at the head of the table *)
Lemma close_heads_live n : forall c s ph, sc_sl_done c = false -> wf s -> live_tuple c s ph ->
  exists d, sc_out (close_heads n c) = d ++ sc_out c /\ sc_sl_done (close_heads n c) = false /\
            (forall sid rq, ~ In (ODispatch sid rq) d) /\
            live_tuple (close_heads n c) (after_outs s d) ph.
Proof.
  induction n as [|n IH]; intros c s ph Hsl W L; cbn [close_heads].
  - exists []. split; [reflexivity|]. split; [exact Hsl|]. split; [intros sid rq []|]. exact L.
  - destruct (sc_strms c) as [|st t] eqn:ES.
    + exists []. split; [reflexivity|]. split; [exact Hsl|]. split; [intros sid rq []|]. exact L.
    + assert (HIn : In st (sc_strms c)) by (rewrite ES; left; reflexivity).
      destruct (close_head_live c s ph st HIn Hsl W L) as (d1 & O1 & Sl1 & Nd1 & L1).
      fold (tclose c st).
      destruct (IH (tclose c st) (after_outs s d1) ph Sl1 (wf_after_outs s d1 W) L1) as (d2 & O2 & Sl2 & Nd2 & L2).
      exists (d2 ++ d1). split; [rewrite O2, O1, app_assoc; reflexivity|]. split; [exact Sl2|]. split.
      * intros sid rq H. apply in_app_or in H. destruct H as [H|H]; [exact (Nd2 sid rq H) | exact (Nd1 sid rq H)].
      * rewrite <- after_outs_app. exact L2.
Qed.

End Timer.
