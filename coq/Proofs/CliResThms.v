(* Proofs/CliResThms.v - C12/C11, part 4: the theorems over all event lists, generic in the HPACK coder. *)
From H2V Require Import Base.Bytes Base.MachineInt Base.Result Gen.GenConsts Impl.ServerConn Impl.ClientConn Proofs.CliBase
     Proofs.CliResInv Proofs.CliResStep Proofs.CliResMoves.
From Coq Require Import ZArith Lia ZifyN ZifyNat ZifyBool List Bool.
Import ListNotations.
Local Open Scope N_scope.

Definition dl_item (o : coutev) : bool := match o with COSelfDeadlock _ _ | COBlocked _ _ => true | _ => false end.
Definition pn_item (o : coutev) : bool := match o with COPanic _ => true | _ => false end.
Definition is_res_of (t : N) (o : coutev) : bool := match o with COResult t' _ _ _ => t' =? t | _ => false end.

Lemma filter_none {A} (f : A -> bool) l : (forall a, In a l -> f a = false) -> filter f l = [].
Proof.
  induction l as [|a l IH]; intro H; [reflexivity|]. cbn [filter]. rewrite (H a (or_introl eq_refl)). apply IH. intros b Hb. apply H. right. exact Hb.
Qed.

Lemma filter_sub_length {A} (f g : A -> bool) l : (forall a, f a = true -> g a = true) ->
  (length (filter f l) <= length (filter g l))%nat.
Proof.
  intro H. induction l as [|a l IH]; [auto|]. cbn [filter]. destruct (f a) eqn:F.
  - rewrite (H a F). cbn [length]. apply le_n_S, IH.
  - destruct (g a); cbn [length]; auto.
Qed.

Section Thms.
Context {hstate : Type}.
Variable dec_field : hstate -> N -> bytes -> dec_res hstate.
Variable enc_field : hstate -> bytes -> bytes -> bool -> bytes * hstate.
Variable enc_set_max : hstate -> N -> hstate.
Variable cfg : cl_config.
Variable h0 : hstate.
Variable first : bytes.
Implicit Types c : cconn hstate.

Notation step := (cl_step dec_field enc_field enc_set_max cfg).
Notation run := (cl_run dec_field enc_field enc_set_max cfg h0 first).
Notation reach := (cl_reachable dec_field enc_field enc_set_max cfg h0 first).
Notation sum := (step_sum (CP:=cp_any) dec_field).
Notation cmv := (cmove (CP:=cp_any)).

Lemma sum_any c e : inv c -> sum c e (step c e).
Proof.
  intro Hi. apply step_moves; [exact Hi|]. intros i _. repeat split; intros; exact I.
Qed.

Lemma inv_reach c : reach c -> inv c.
Proof. apply inv_reachable. Qed.

(* ---------- what a move keeps ---------- *)
Lemma cmv_returned c e t x x' : cmv c e t x x' -> ct_returned x = true -> ct_returned x' = true.
Proof.
  intros M R. destruct M as [V|_ _ [->|(_ & _ & ->)]|_ _ _ ->|_ _ _ V|_ R' _ _|_ _ _ _ _ _ V|_ _ _ _ _ ->].
  - rewrite (cev_returned _ _ V). exact R.
  - exact R.
  - rewrite returned_resolve. exact R.
  - rewrite returned_resolve. exact R.
  - rewrite (cev_returned _ _ V). exact R.
  - congruence.
  - rewrite (cev_returned _ _ V). exact R.
  - rewrite returned_resolve. exact R.
Qed.

Lemma cmv_not_recv c e t x x' : cmv c e t x x' -> x' <> recv_ctx x -> ct_returned x' = ct_returned x.
Proof.
  intros M NE. destruct M as [V|_ _ [->|(_ & _ & ->)]|_ _ _ ->|_ _ _ V|_ R' _ E|_ _ _ _ _ _ V|_ _ _ _ _ ->].
  - apply (cev_returned _ _ V).
  - reflexivity.
  - rewrite returned_resolve. reflexivity.
  - rewrite returned_resolve. reflexivity.
  - apply (cev_returned _ _ V).
  - contradiction.
  - apply (cev_returned _ _ V).
  - apply returned_resolve.
Qed.

(* ---------- C12 (a): each request gets at most one result ---------- *)
Definition res_count c (t : N) : nat := length (filter (is_res_of t) (cc_out c)).
Definition ret_flag c (t : N) : nat :=
  match cl_ctx_get c t with Some x => if ct_returned x then 1%nat else 0%nat | None => 0%nat end.

Lemma cctx_eq_dec (x y : cctx) : {x = y} + {x <> y}.
Proof.
  repeat decide equality; try apply N.eq_dec; try apply Z.eq_dec; try apply bool_dec.
Qed.

Lemma res_count_step c e : inv c -> (forall t, res_count c t = ret_flag c t) -> forall t, res_count (step c e) t = ret_flag (step c e) t.
Proof.
  intros Hi IH t. pose proof (sum_any c e Hi) as S. destruct (ss_out _ _ _ _ S) as (l & Hl & Fl & L1 & _).
  unfold res_count. rewrite Hl, filter_app, app_length. fold (res_count c t). rewrite IH.
  rewrite Forall_forall in Fl.
  (* results for t in what this step added *)
  assert (RI : forall o, In o l -> is_res_of t o = true ->
               exists x, cl_ctx_get c t = Some x /\ ct_returned x = false /\ cl_ctx_get (step c e) t = Some (recv_ctx x)).
  { intros o Ho Hr. destruct o; try discriminate. cbn in Hr. apply N.eqb_eq in Hr. subst tag.
    destruct (Fl _ Ho) as [B|(_ & x & G & R & _)]; [discriminate|].
    destruct (ss_res _ _ _ _ S t retry e0 resp) as (x0 & G0 & G0').
    - rewrite Hl. apply in_app_iff. left. exact Ho.
    - intro J. assert (Z : res_count c t = 0%nat) by (rewrite IH; unfold ret_flag; rewrite G, R; reflexivity).
      unfold res_count in Z. apply length_zero_iff_nil in Z.
      assert (In (COResult t retry e0 resp) (filter (is_res_of t) (cc_out c))) by (apply filter_In; split; [exact J | cbn; apply N.eqb_refl]).
      rewrite Z in H. destruct H.
    - rewrite G in G0. inversion G0; subst x0. exists x. auto. }
  destruct (existsb (is_res_of t) l) eqn:EX.
  - apply existsb_exists in EX. destruct EX as (o & Ho & Hr). destruct (RI o Ho Hr) as (x & G & R & G').
    unfold ret_flag. rewrite G, R, G', recv_returned.
    assert (length (filter (is_res_of t) l) = 1%nat); [|lia].
    assert (1 <= length (filter (is_res_of t) l))%nat.
    { assert (In o (filter (is_res_of t) l)) by (apply filter_In; auto). destruct (filter (is_res_of t) l); [destruct H | cbn; lia]. }
    pose proof (filter_sub_length (is_res_of t) is_result l) as Hs.
    assert (length (filter (is_res_of t) l) <= length (filter is_result l))%nat by (apply Hs; intros a; destruct a; cbn; auto; discriminate).
    clear - H H0 L1. lia.
  - assert (Z : filter (is_res_of t) l = []).
    { apply filter_none. intros a Ha. destruct (is_res_of t a) eqn:F; [|reflexivity].
      assert (existsb (is_res_of t) l = true) by (apply existsb_exists; exists a; auto). congruence. }
    rewrite Z. cbn [length plus]. unfold ret_flag. destruct (cl_ctx_get c t) as [x|] eqn:G.
    + destruct (ss_old _ _ _ _ S _ _ G) as (x' & G' & M). rewrite G'. destruct (ct_returned x) eqn:R.
      * rewrite (cmv_returned _ _ _ _ _ M R). reflexivity.
      * destruct (cctx_eq_dec x' (recv_ctx x)) as [E|NE].
        -- exfalso. subst x'. destruct (ss_recv _ _ _ _ S _ _ G G' R) as (er & _ & J). rewrite Hl in J. apply in_app_iff in J.
           destruct J as [J|J].
           ++ assert (existsb (is_res_of t) l = true) by (apply existsb_exists; eexists; split; [exact J | cbn; apply N.eqb_refl]). congruence.
           ++ assert (Z0 : res_count c t = 0%nat) by (rewrite IH; unfold ret_flag; rewrite G, R; reflexivity).
              unfold res_count in Z0. apply length_zero_iff_nil in Z0.
              assert (In (COResult t (cl_retryable er) er (ct_resp x)) (filter (is_res_of t) (cc_out c))) by (apply filter_In; split; [exact J | cbn; apply N.eqb_refl]).
              rewrite Z0 in H. destruct H.
        -- rewrite (cmv_not_recv _ _ _ _ _ M NE), R. reflexivity.
    + destruct (cl_ctx_get (step c e) t) as [x'|] eqn:G'; [|reflexivity].
      destruct (ss_new _ _ _ _ S _ _ G G') as (rq & q & _ & _ & _ & _ & R & _). rewrite R. reflexivity.
Qed.

Theorem results_exact evs t : res_count (run evs) t = ret_flag (run evs) t.
Proof.
  revert t. apply (cl_run_ind_reach _ dec_field enc_field enc_set_max cfg h0 first (fun c => forall t, res_count c t = ret_flag c t)).
  - intro t. unfold res_count, ret_flag, cl_init. destruct (cl_settings_deserialize false first); reflexivity.
  - intros c e R IH. apply res_count_step; [apply inv_reach, R | exact IH].
Qed.

Theorem results_at_most_once evs t : (res_count (run evs) t <= 1)%nat.
Proof. rewrite results_exact. unfold ret_flag. destruct (cl_ctx_get (run evs) t) as [x|]; [destruct (ct_returned x)|]; auto. Qed.


(* ---------- C12 (c): no goroutine parks on a Ctx.lck, the read loop's recover never runs ---------- *)
Theorem trace_safe evs o : In o (cc_out (run evs)) -> dl_item o = false /\ (pn_item o = true -> ~ no_panic_dec dec_field).
Proof.
  revert o. apply (cl_run_ind_reach _ dec_field enc_field enc_set_max cfg h0 first
                     (fun c => forall o, In o (cc_out c) -> dl_item o = false /\ (pn_item o = true -> ~ no_panic_dec dec_field))).
  - intros o. unfold cl_init. destruct (cl_settings_deserialize false first); intros [].
  - intros c e R IH o Ho. destruct (ss_out _ _ _ _ (sum_any c e (inv_reach c R))) as (l & Hl & Fl & _).
    rewrite Hl in Ho. apply in_app_iff in Ho. destruct Ho as [Ho|Ho]; [|apply IH, Ho].
    rewrite Forall_forall in Fl. destruct (Fl _ Ho) as [B|B].
    + destruct o; try discriminate; split; try reflexivity; discriminate.
    + destruct o; try contradiction; split; try reflexivity; try discriminate. intros _. exact B.
Qed.

Theorem never_stuck evs : let c := run evs in
  cc_rl_stuck c = false /\ cc_wl_stuck c = false /\ forall x, In x (cc_ctxs c) -> ct_lckStuck x = false.
Proof.
  cbv zeta. destruct (inv_run dec_field enc_field enc_set_max cfg h0 first evs) as [St _]. destruct (s_nostuck _ St) as (A & B & C).
  repeat split; auto. intros x Hx. apply (A (ct_tag x)). apply cl_ctxs_get_NoDup; [apply St | exact Hx].
Qed.

(* ---------- C12 (a): nothing is stranded ---------- *)
(* where a request the caller has not got back yet is: queued, on the request table, or answered *)
Theorem request_position evs : let c := run evs in
  NoDup (map ct_tag (cc_ctxs c)) /\ NoDup (cc_inQ c) /\ NoDup (map snd (cc_reqQueued c)) /\ NoDup (map fst (cc_reqQueued c)) /\
  (forall t, In t (cc_inQ c) -> ~ In t (map snd (cc_reqQueued c))) /\
  (forall t, In t (cc_inQ c) \/ In t (map snd (cc_reqQueued c)) -> cl_ctx_get c t <> None) /\
  (forall x, In x (cc_ctxs c) -> ~ In (ct_tag x) (cc_inQ c) -> ~ In (ct_tag x) (map snd (cc_reqQueued c)) -> answered x = true).
Proof.
  cbv zeta. destruct (inv_run dec_field enc_field enc_set_max cfg h0 first evs) as [St A]. set (c := run evs) in *.
  repeat split; try apply St.
  - intros t I J. destruct (s_inQ _ St _ I) as (x & G & Z & _). apply in_map_iff in J. destruct J as ([i u] & Hu & J). cbn in Hu. subst u.
    destruct (s_rq _ St _ _ J) as (y & Gy & Hy & _ & NZ & _). rewrite G in Gy. inversion Gy; subst y. congruence.
  - intros t [I|J].
    + destruct (s_inQ _ St _ I) as (x & G & _). congruence.
    + apply in_map_iff in J. destruct J as ([i u] & Hu & J). cbn in Hu. subst u. destruct (s_rq _ St _ _ J) as (y & Gy & _). congruence.
  - intros x Hx N1 N2. apply (a_dropped _ A (ct_tag x)); [apply cl_ctxs_get_NoDup; [apply St | exact Hx]|]. intros [H|H]; contradiction.
Qed.

(* once the write loop has returned, every request handed to the connection has its answer (delivered, or waiting in Err),
   except those whose caller is still inside Conn.Write: his second select answers (check_answers below) *)
Theorem no_stranding evs : let c := run evs in cc_wl_done c = true ->
  cc_closed c = true /\ cc_reqQueued c = [] /\
  forall x, In x (cc_ctxs c) -> answered x = true \/ (ct_writing x = true /\ In (ct_tag x) (cc_inQ c)).
Proof.
  cbv zeta. destruct (inv_run dec_field enc_field enc_set_max cfg h0 first evs) as [St A]. set (c := run evs) in *. intro W.
  destruct (s_wl_done _ St W) as [CL RQ]. repeat split; auto. intros x Hx.
  assert (G : cl_ctx_get c (ct_tag x) = Some x) by (apply cl_ctxs_get_NoDup; [apply St | exact Hx]).
  destruct (in_dec N.eq_dec (ct_tag x) (cc_inQ c)) as [I|NI].
  - destruct (a_wl _ A W _ _ I G); auto.
  - left. apply (a_dropped _ A _ _ G). intros [H|H]; [contradiction|]. rewrite RQ in H. destruct H.
Qed.

(* the loops go: the read loop's exit closes the connection, and on a closed connection the write loop's `done` case
   is enabled and ends it (that it is eventually taken is a scheduling matter: Teardown LTS) *)
Theorem rl_exit_closes evs : cc_rl_done (run evs) = true -> cc_closed (run evs) = true.
Proof. destruct (inv_run dec_field enc_field enc_set_max cfg h0 first evs) as [St _]. apply St. Qed.

Theorem wl_done_enabled c : cc_closed c = true -> cl_wl_live c = true -> cc_wl_done (step c CEvWLDone) = true.
Proof. intros CL WL. cbn [cl_step]. rewrite WL. unfold cl_wl_done. rewrite CL. reflexivity. Qed.

(* Write's second select: on a closed connection it answers a Ctx that has no stream yet *)
Theorem check_answers c t x : reach c -> cl_ctx_get c t = Some x -> ct_writing x = true -> cc_closed c = true ->
  exists x', cl_ctx_get (step c (CEvSubmitCheck t)) t = Some x' /\ ct_writing x' = false /\
             (ct_sid x = 0 -> answered x' = true) /\ (ct_sid x <> 0 -> x' = ctu_writing x false).
Proof.
  intros R G Wr CL. destruct (inv_reach c R) as [St A]. cbn [cl_step]. unfold cl_submit_check. rewrite G, Wr, CL. cbn [negb].
  destruct (cl_ctxs_get_In _ _ _ G) as [_ T]. cbn [ct_lckStuck ctu_writing]. rewrite (proj1 (s_nostuck _ St) _ _ G). cbn [ct_sid ctu_writing].
  destruct (ct_sid x =? 0) eqn:Z.
  - eexists. split; [rewrite cl_ctx_get_put, ct_tag_cl_ctx_resolve; cbn [ct_tag ctu_done ctu_writing]; rewrite T, N.eqb_refl, G; reflexivity|].
    split; [rewrite cl_ctx_resolve_eq; destruct (_ && _); reflexivity|]. split; [|intro NZ; apply N.eqb_eq in Z; contradiction].
    intros _. apply answered_resolve'. cbn. apply (s_ret _ St _ _ G).
  - eexists. split; [rewrite cl_ctx_get_put; cbn [ct_tag ctu_writing]; rewrite T, N.eqb_refl, G; reflexivity|].
    split; [reflexivity|]. split; [intro Z0; apply N.eqb_neq in Z; contradiction | reflexivity].
Qed.

(* the functional half of "within its configured timeout": when the timer runs out the request is answered *)
Theorem timeout_answers c t x : reach c -> cl_ctx_get c t = Some x -> ct_armed x = true -> ct_fired x = false ->
  exists x', cl_ctx_get (step c (CEvTimeout t)) t = Some x' /\ answered x' = true /\
             (ct_returned x = false -> ct_err x = None -> ct_err x' = Some CETimeout).
Proof.
  intros R G Ar Fi. destruct (inv_reach c R) as [St A]. cbn [cl_step]. unfold cl_timeout_fire. rewrite G, Ar, Fi. cbn [negb andb].
  destruct (cl_ctxs_get_In _ _ _ G) as [_ T].
  eexists. split; [rewrite cl_ctx_get_put, ct_tag_cl_ctx_resolve; cbn [ct_tag ctu_fired]; rewrite T, N.eqb_refl, G; reflexivity|].
  split; [apply answered_resolve'; cbn; apply (s_ret _ St _ _ G)|].
  intros Rt Er. rewrite cl_ctx_resolve_eq. cbn. rewrite (proj1 (s_ret _ St _ _ G)), Rt, Er. reflexivity.
Qed.

(* after Close, or after a loop has died, a request handed to Conn.Write is answered by Write itself *)
Theorem write_after_close c t rq q : reach c -> cc_closed c = true -> cl_ctx_get c t = None ->
  exists x, cl_ctx_get (step (step c (CEvSubmit t rq q)) (CEvSubmitCheck t)) t = Some x /\ answered x = true /\ ct_sid x = 0 /\
            ct_returned x = false.
Proof.
  intros R CL GN. pose proof (sum_any c (CEvSubmit t rq q) (inv_reach c R)) as S1.
  set (c1 := step c (CEvSubmit t rq q)) in *.
  assert (R1 : reach c1) by (constructor; exact R).
  assert (CL1 : cc_closed c1 = true).
  { unfold c1. cbn [cl_step]. unfold cl_submit. rewrite GN. destruct (_ && _); [rewrite cc_closed_cl_resolve | rewrite cc_closed_cl_ctx_upd]; exact CL. }
  assert (G1 : exists x1, cl_ctx_get c1 t = Some x1).
  { unfold c1. cbn [cl_step]. unfold cl_submit. rewrite GN.
    assert (H : cl_ctx_get (ccu_ctxs c (cc_ctxs c ++ [cl_new_ctx t rq (ccf_armTimers cfg)])) t = Some (cl_new_ctx t rq (ccf_armTimers cfg))).
    { unfold cl_ctx_get in *. cbn [cc_ctxs ccu_ctxs]. rewrite cl_ctxs_get_app, GN. cbn. rewrite N.eqb_refl. reflexivity. }
    destruct (_ && _).
    - rewrite cl_ctx_get_resolve, N.eqb_refl, H. eauto.
    - rewrite cl_ctx_get_upd by reflexivity. rewrite N.eqb_refl. unfold cl_ctx_get at 1. cbn [cc_ctxs ccu_inQ].
      unfold cl_ctx_get in H. rewrite H. eauto. }
  destruct G1 as [x1 G1]. destruct (ss_new _ _ _ _ S1 _ _ GN G1) as (rq' & q' & _ & _ & Z1 & _ & Rt1 & _ & _ & _ & _ & _ & [(E1 & W1 & _)|(E1 & _ & _ & W1)]).
  - destruct (check_answers c1 t x1 R1 G1 W1 CL1) as (x' & G' & _ & A' & _). exists x'. split; [exact G'|]. split; [apply A', Z1|].
    pose proof (sum_any c1 (CEvSubmitCheck t) (inv_reach c1 R1)) as S2. destruct (ss_old _ _ _ _ S2 _ _ G1) as (x'' & G'' & M).
    rewrite G' in G''. inversion G''; subst x''.
    split; [|rewrite (cmv_not_recv _ _ _ _ _ M); [exact Rt1|]; intro Hx; destruct M as [V|_ _ [->|(_ & _ & ->)]|E0 _ _ _|E0 _ _ _|E0 _ _ _|E0 _ _ _ _ _ _|E0 _ _ _ _ _]; try discriminate;
      [pose proof (cev_returned _ _ V) as Q; rewrite Hx, recv_returned, Rt1 in Q; discriminate
      |pose proof (recv_returned x1) as Q; rewrite <- Hx in Q; cbn in Q; congruence
      |pose proof (recv_returned x1) as Q; rewrite <- Hx, returned_resolve in Q; cbn in Q; congruence]].
    destruct M as [V|_ _ [->|(_ & _ & ->)]|E0 _ _ _|E0 _ _ _|E0 _ _ _|E0 _ _ _ _ _ _|E0 _ _ _ _ _]; try discriminate.
    + rewrite (cev_sid _ _ V). exact Z1.
    + exact Z1.
    + rewrite cl_ctx_resolve_eq. destruct (_ && _); exact Z1.
  - exists x1. cbn [cl_step]. unfold cl_submit_check. fold c1. rewrite G1, W1. cbn [negb]. split; [exact G1|].
    split; [unfold answered; rewrite E1; apply orb_true_r | split; [exact Z1 | exact Rt1]].
Qed.

End Thms.

(* ---------- C12 (d): a Ctx goes back to the pool only when the connection has let go of it ---------- *)
Section Pool.
Context {hstate : Type}.
Variable dec_field : hstate -> N -> bytes -> dec_res hstate.
Variable enc_field : hstate -> bytes -> bytes -> bool -> bytes * hstate.
Variable enc_set_max : hstate -> N -> hstate.
Variable cfg : cl_config.
Variable h0 : hstate.
Variable first : bytes.
Implicit Types c : cconn hstate.
Notation step := (cl_step dec_field enc_field enc_set_max cfg).
Notation run := (cl_run dec_field enc_field enc_set_max cfg h0 first).
Notation reach := (cl_reachable dec_field enc_field enc_set_max cfg h0 first).

(* markFinished comes after the connection has dropped the request: a finished Ctx is neither queued nor on the table *)
Theorem finished_not_held evs t x : cl_ctx_get (run evs) t = Some x -> ct_finished x = true ->
  ~ In t (cc_inQ (run evs)) /\ ~ In t (map snd (cc_reqQueued (run evs))) /\ ~ In t (map pb_tag (cc_pending (run evs))).
Proof.
  intros G F. destruct (inv_run dec_field enc_field enc_set_max cfg h0 first evs) as [_ A].
  destruct (a_fin _ A _ _ G F) as [H HP]. split; [intro J; apply H; left; exact J|]. split; [intro J; apply H; right; exact J|].
  intro J. apply in_map_iff in J. destruct J as (pb & E & J). apply (HP pb J E).
Qed.

(* releaseCtx (the pool item) only in the caller's receive, for a Ctx the connection has marked finished - hence
   (finished_not_held) dropped from `in` and from the request table, before and after the step - and whose cancel timer
   is stopped: not armed, or armed and not yet run out (Stop succeeded). Afterwards the Ctx is taken back (done, resolved:
   every later resolve is a no-op) and its timer disarmed (a CEvTimeout for it is a no-op) *)
Theorem pool_put_safe c e l t : reach c -> cc_out (step c e) = l ++ cc_out c -> In (COPoolPut t) l ->
  e = CEvReceive t /\
  exists x, cl_ctx_get c t = Some x /\ ct_finished x = true /\ (ct_armed x = true -> ct_fired x = false) /\
            ~ In t (cc_inQ c) /\ ~ In t (map snd (cc_reqQueued c)) /\ ~ In t (map pb_tag (cc_pending c)) /\
            cc_inQ (step c e) = cc_inQ c /\ cc_reqQueued (step c e) = cc_reqQueued c /\ cc_pending (step c e) = cc_pending c /\
            cl_ctx_get (step c e) t = Some (recv_ctx x) /\ ct_pooled (recv_ctx x) = true /\
            ct_armed (recv_ctx x) = false /\ ct_done (recv_ctx x) = true /\ ct_resolved (recv_ctx x) = true.
Proof.
  intros R Hl Hin. pose proof (inv_reach dec_field enc_field enc_set_max cfg h0 first c R) as Hi.
  destruct (ss_out _ _ _ _ (sum_any dec_field enc_field enc_set_max cfg c e Hi)) as (l' & Hl' & Fl & _).
  rewrite Hl' in Hl. apply app_inv_tail in Hl. subst l'. rewrite Forall_forall in Fl.
  destruct (Fl _ Hin) as [B|(-> & x & G & Rt & Er & Fi & Tm)]; [discriminate|]. split; [reflexivity|].
  exists x. destruct (cl_reachable_run _ _ _ _ _ _ _ _ R) as [evs ->].
  destruct (finished_not_held evs t x G Fi) as (N1 & N2 & N3).
  assert (ST : step (run evs) (CEvReceive t) = (if (if ct_armed x then negb (ct_fired x) else true) && ct_finished x
                then cl_note (cl_note (cl_ctx_put (run evs) (recv_ctx x)) (COResult t (cl_retryable match ct_err x with Some e => e | None => CENil end)
                                                                     match ct_err x with Some e => e | None => CENil end (ct_resp x))) (COPoolPut t)
                else cl_note (cl_ctx_put (run evs) (recv_ctx x)) (COResult t (cl_retryable match ct_err x with Some e => e | None => CENil end)
                                                                     match ct_err x with Some e => e | None => CENil end (ct_resp x)))).
  { cbn [cl_step]. unfold cl_receive. rewrite G, Rt. destruct (ct_err x) as [er|] eqn:E; [|congruence].
    destruct (inv_run dec_field enc_field enc_set_max cfg h0 first evs) as [St _].
    cbn [ct_lckStuck ctu_armed ctu_err]. rewrite (proj1 (s_nostuck _ St) _ _ G). reflexivity. }
  destruct (cl_ctxs_get_In _ _ _ G) as [_ T].
  assert (GP : cl_ctx_get (cl_ctx_put (run evs) (recv_ctx x)) t = Some (recv_ctx x)).
  { rewrite cl_ctx_get_put. cbn [ct_tag recv_ctx ctu_pooled ctu_returned ctu_resolved ctu_done ctu_armed ctu_err]. rewrite T, N.eqb_refl, G. reflexivity. }
  assert (PL : ct_pooled (recv_ctx x) = true).
  { cbn. destruct (ct_armed x) eqn:Ar; [rewrite (Tm eq_refl)|]; cbn; exact Fi. }
  repeat split; auto; rewrite ST; destruct (_ && _); try reflexivity; exact GP.
Qed.

End Pool.
