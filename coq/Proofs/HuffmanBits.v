(* Bit-string lemmas shared by the Huffman proofs (C15): bits_of / testbit algebra,
   pack / bytes_bits inverses, boolean prefix test. No heavy computation here. *)
From Coq Require Import List NArith Bool Lia.
From H2V Require Import Base.Bytes Base.MachineInt Spec.XNetTables Spec.Rfc7541Huffman.
Import ListNotations.
Local Open Scope N_scope.

Definition bits8 (i : N) : list bool := bits_of 8 i.
Definition bytes_bits (b : bytes) : list bool := flat_map bits8 b.
Definition ones (n : nat) : list bool := repeat true n.

(* ---------- generic list helpers ---------- *)

Lemma firstn_app_len {A} (a b : list A) k : length a = k -> firstn k (a ++ b) = a.
Proof.
  intros <-. rewrite firstn_app, Nat.sub_diag, firstn_all. simpl. apply app_nil_r.
Qed.

Lemma skipn_app_len {A} (a b : list A) k : length a = k -> skipn k (a ++ b) = b.
Proof.
  intros <-. rewrite skipn_app, Nat.sub_diag, skipn_all. reflexivity.
Qed.

Lemma nth_error_seq : forall len s n, (n < len)%nat -> nth_error (seq s len) n = Some (s + n)%nat.
Proof.
  induction len as [|len IH]; intros s n Hn; [lia|].
  destruct n as [|n]; simpl.
  - f_equal; lia.
  - rewrite IH by lia. f_equal; lia.
Qed.

(* ---------- bits_of ---------- *)

Lemma bits_of_S n c : bits_of (S n) c = N.testbit c (N.of_nat n) :: bits_of n c.
Proof.
  unfold bits_of. rewrite seq_S, rev_app_distr. reflexivity.
Qed.

Lemma bits_of_0 c : bits_of 0 c = [].
Proof. reflexivity. Qed.

Lemma bits_of_length n c : length (bits_of n c) = n.
Proof. unfold bits_of. now rewrite map_length, rev_length, seq_length. Qed.

Lemma bits_of_ext n c c' :
  (forall i, (i < n)%nat -> N.testbit c (N.of_nat i) = N.testbit c' (N.of_nat i)) ->
  bits_of n c = bits_of n c'.
Proof.
  induction n as [|n IH]; intros H; [reflexivity|].
  rewrite !bits_of_S. f_equal; [apply H; lia | apply IH; intros; apply H; lia].
Qed.

Lemma bits_of_app n m c :
  bits_of (n + m) c = bits_of n (N.shiftr c (N.of_nat m)) ++ bits_of m c.
Proof.
  induction n as [|n IH]; [reflexivity|].
  change (S n + m)%nat with (S (n + m)). rewrite !bits_of_S, IH. simpl. f_equal.
  rewrite N.shiftr_spec'. f_equal. lia.
Qed.

Lemma firstn_bits_of k n c : (k <= n)%nat ->
  firstn k (bits_of n c) = bits_of k (N.shiftr c (N.of_nat (n - k))).
Proof.
  intros H. replace n with (k + (n - k))%nat at 1 by lia.
  rewrite bits_of_app. apply firstn_app_len, bits_of_length.
Qed.

Lemma skipn_bits_of k n c : (k <= n)%nat ->
  skipn k (bits_of n c) = bits_of (n - k) c.
Proof.
  intros H. replace n with (k + (n - k))%nat at 1 by lia.
  rewrite bits_of_app. apply skipn_app_len, bits_of_length.
Qed.

Lemma bits_of_mod n w c : (N.of_nat n <= w) -> bits_of n (c mod 2 ^ w) = bits_of n c.
Proof.
  intros H. apply bits_of_ext. intros i Hi. apply N.mod_pow2_bits_low. lia.
Qed.

Lemma testbit_small c n m : c < 2 ^ n -> n <= m -> N.testbit c m = false.
Proof.
  intros Hc Hm. rewrite <- (N.mod_small c (2 ^ n)) by assumption.
  now apply N.mod_pow2_bits_high.
Qed.

(* code = code << n | c, in a w-bit register: the low k+n bits are (low k bits of code) ++ c *)
Lemma bits_of_lor_shift k n w a c :
  N.of_nat (k + n) <= w -> c < 2 ^ N.of_nat n ->
  bits_of (k + n) (N.lor (wrap w (N.shiftl a (N.of_nat n))) c) = bits_of k a ++ bits_of n c.
Proof.
  intros Hw Hc. rewrite bits_of_app. f_equal.
  - apply bits_of_ext. intros i Hi.
    rewrite N.shiftr_spec', N.lor_spec.
    rewrite (testbit_small c (N.of_nat n)) by (assumption || lia).
    rewrite orb_false_r. unfold wrap. rewrite N.mod_pow2_bits_low by lia.
    rewrite N.shiftl_spec_high' by lia. f_equal. lia.
  - apply bits_of_ext. intros i Hi.
    rewrite N.lor_spec. unfold wrap. rewrite N.mod_pow2_bits_low by lia.
    rewrite N.shiftl_spec_low by lia. reflexivity.
Qed.

Lemma bits_of_ones n n' : (n <= n')%nat -> bits_of n (2 ^ N.of_nat n' - 1) = ones n.
Proof.
  intros H. replace (2 ^ N.of_nat n' - 1) with (N.ones (N.of_nat n'))
    by (rewrite N.ones_equiv; lia).
  induction n as [|n IH]; [reflexivity|].
  rewrite bits_of_S, IH by lia. unfold ones. simpl. f_equal.
  apply N.ones_spec_low. lia.
Qed.

Lemma bits_of_shiftl_low m m' a : (m <= m')%nat ->
  bits_of m (N.shiftl a (N.of_nat m')) = repeat false m.
Proof.
  intros H. induction m as [|m IH]; [reflexivity|].
  rewrite bits_of_S, IH by lia. simpl. f_equal. apply N.shiftl_spec_low. lia.
Qed.

(* acc & (2^n - 1) == 2^n - 1  iff the n low bits are all ones *)
Lemma low_bits_all_ones n acc :
  (N.land acc (2 ^ N.of_nat n - 1) =? 2 ^ N.of_nat n - 1) = forallb (fun b : bool => b) (bits_of n acc).
Proof.
  replace (2 ^ N.of_nat n - 1) with (N.ones (N.of_nat n)) by (rewrite N.ones_equiv; lia).
  rewrite N.land_ones.
  destruct (forallb (fun b : bool => b) (bits_of n acc)) eqn:E.
  - apply N.eqb_eq. apply N.bits_inj. intros i.
    destruct (N.lt_ge_cases i (N.of_nat n)) as [Hi|Hi].
    + rewrite N.mod_pow2_bits_low, N.ones_spec_low by lia.
      rewrite forallb_forall in E. apply E.
      unfold bits_of. apply in_map_iff. exists (N.to_nat i). split.
      * f_equal. lia.
      * rewrite <- in_rev. apply in_seq. lia.
    + rewrite N.mod_pow2_bits_high, N.ones_spec_high by lia. reflexivity.
  - apply N.eqb_neq. intros Heq.
    assert (forallb (fun b : bool => b) (bits_of n acc) = true) as Habs; [|congruence].
    apply forallb_forall. intros b Hb. unfold bits_of in Hb.
    apply in_map_iff in Hb. destruct Hb as [i [<- Hi]].
    rewrite <- in_rev in Hi. apply in_seq in Hi.
    rewrite <- (N.mod_pow2_bits_low acc (N.of_nat n)) by lia.
    rewrite Heq. apply N.ones_spec_low. lia.
Qed.

(* ---------- bytes <-> bits ---------- *)

Lemma bits8_unfold x :
  bits8 x = [N.testbit x 7; N.testbit x 6; N.testbit x 5; N.testbit x 4;
             N.testbit x 3; N.testbit x 2; N.testbit x 1; N.testbit x 0].
Proof. reflexivity. Qed.

Lemma bits8_length x : length (bits8 x) = 8%nat.
Proof. apply bits_of_length. Qed.

Lemma bytes_bits_length b : length (bytes_bits b) = (8 * length b)%nat.
Proof.
  induction b as [|x b IH]; [reflexivity|].
  change (bytes_bits (x :: b)) with (bits8 x ++ bytes_bits b).
  rewrite app_length, IH, bits8_length. simpl length. lia.
Qed.

Lemma bytes_bits_app a b : bytes_bits (a ++ b) = bytes_bits a ++ bytes_bits b.
Proof. unfold bytes_bits. apply flat_map_app. Qed.

Lemma byte_of_bits8_check :
  forallb (fun i => byte_of_bits (bits8 (N.of_nat i)) =? N.of_nat i) (seq 0 256) = true.
Proof. vm_compute. reflexivity. Qed.

Lemma byte_of_bits8 x : x < 256 -> byte_of_bits (bits8 x) = x.
Proof.
  intros H. pose proof byte_of_bits8_check as C. rewrite forallb_forall in C.
  specialize (C (N.to_nat x)). rewrite N2Nat.id in C. apply N.eqb_eq, C, in_seq. lia.
Qed.

Lemma bits8_byte_of_bits b0 b1 b2 b3 b4 b5 b6 b7 :
  bits8 (byte_of_bits [b0; b1; b2; b3; b4; b5; b6; b7]) = [b0; b1; b2; b3; b4; b5; b6; b7].
Proof. destruct b0, b1, b2, b3, b4, b5, b6, b7; reflexivity. Qed.

Lemma bits8_u8 x : bits8 (u8 x) = bits8 x.
Proof. unfold bits8, u8, wrap. apply bits_of_mod. simpl. lia. Qed.

Lemma u8_lt x : u8 x < 256.
Proof. unfold u8, wrap. change (2 ^ 8) with 256. apply N.mod_lt. lia. Qed.

(* ---------- pack ---------- *)

Lemma pack_fuel : forall f1 f2 X, (length X <= f1)%nat -> (length X <= f2)%nat -> pack f1 X = pack f2 X.
Proof.
  induction f1 as [|f1 IH]; intros f2 X H1 H2.
  - destruct X; [|simpl in H1; lia]. destruct f2; reflexivity.
  - destruct f2 as [|f2].
    + destruct X; [reflexivity | simpl in H2; lia].
    + destruct X as [|b0 [|b1 [|b2 [|b3 [|b4 [|b5 [|b6 [|b7 X]]]]]]]]; try reflexivity.
      simpl. f_equal. simpl in H1, H2. apply IH; lia.
Qed.

Definition packl (X : list bool) : bytes := pack (length X) X.

Lemma pack_S f b0 b1 b2 b3 b4 b5 b6 b7 Y :
  pack (S f) (b0 :: b1 :: b2 :: b3 :: b4 :: b5 :: b6 :: b7 :: Y) =
  byte_of_bits [b0; b1; b2; b3; b4; b5; b6; b7] :: pack f Y.
Proof. reflexivity. Qed.

Lemma packl_cons8 b0 b1 b2 b3 b4 b5 b6 b7 Y :
  packl (b0 :: b1 :: b2 :: b3 :: b4 :: b5 :: b6 :: b7 :: Y) =
  byte_of_bits [b0; b1; b2; b3; b4; b5; b6; b7] :: packl Y.
Proof.
  unfold packl. simpl length. rewrite pack_S. f_equal. apply pack_fuel; lia.
Qed.

Lemma packl_bits8 x Y : x < 256 -> packl (bits8 x ++ Y) = x :: packl Y.
Proof.
  intros H. rewrite <- (byte_of_bits8 x H) at 2. rewrite bits8_unfold.
  cbn [app]. apply packl_cons8.
Qed.

Lemma packl_short X : (length X < 8)%nat -> packl X = [].
Proof.
  intros H. unfold packl.
  destruct X as [|b0 [|b1 [|b2 [|b3 [|b4 [|b5 [|b6 [|b7 X]]]]]]]]; try reflexivity.
  simpl in H. lia.
Qed.

Lemma packl_bytes_bits b : bytes_ok b = true -> packl (bytes_bits b) = b.
Proof.
  induction b as [|x b IH]; intros H; [reflexivity|].
  simpl in H. apply andb_prop in H. destruct H as [Hx Hb].
  change (bytes_bits (x :: b)) with (bits8 x ++ bytes_bits b). rewrite packl_bits8.
  - f_equal. now apply IH.
  - apply N.ltb_lt, Hx.
Qed.

Lemma bytes_bits_packl : forall k X, length X = (8 * k)%nat -> bytes_bits (packl X) = X.
Proof.
  induction k as [|k IH]; intros X H.
  - destruct X; [reflexivity | simpl in H; lia].
  - destruct X as [|b0 [|b1 [|b2 [|b3 [|b4 [|b5 [|b6 [|b7 X]]]]]]]]; simpl in H; try lia.
    rewrite packl_cons8.
    match goal with |- bytes_bits (?h :: ?t) = _ => change (bytes_bits (h :: t)) with (bits8 h ++ bytes_bits t) end.
    rewrite bits8_byte_of_bits. cbn [app]. do 8 f_equal. apply IH. lia.
Qed.

Lemma packl_bytes_ok : forall k X, length X = (8 * k)%nat -> bytes_ok (packl X) = true.
Proof.
  induction k as [|k IH]; intros X H.
  - destruct X; [reflexivity | simpl in H; lia].
  - destruct X as [|b0 [|b1 [|b2 [|b3 [|b4 [|b5 [|b6 [|b7 X]]]]]]]]; simpl in H; try lia.
    rewrite packl_cons8. simpl. rewrite IH by lia. rewrite andb_true_r.
    destruct b0, b1, b2, b3, b4, b5, b6, b7; reflexivity.
Qed.

(* ---------- prefixes ---------- *)

Fixpoint prefixb (a b : list bool) : bool :=
  match a, b with
  | [], _ => true
  | x :: a', y :: b' => Bool.eqb x y && prefixb a' b'
  | _ :: _, [] => false
  end.

Lemma prefixb_spec : forall a b, prefixb a b = true <-> is_prefix a b.
Proof.
  induction a as [|x a IH]; intros b; simpl.
  - split; [intros _; exists b; reflexivity | reflexivity].
  - destruct b as [|y b].
    + split; [discriminate | intros [r Hr]; discriminate].
    + rewrite andb_true_iff, IH, eqb_true_iff. split.
      * intros [-> [r ->]]. exists r. reflexivity.
      * intros [r Hr]. simpl in Hr. injection Hr as -> ->. split; [reflexivity | exists r; reflexivity].
Qed.

Lemma is_prefix_refl a : is_prefix a a.
Proof. exists []. now rewrite app_nil_r. Qed.

Lemma is_prefix_app a r : is_prefix a (a ++ r).
Proof. exists r. reflexivity. Qed.

Lemma is_prefix_trans a b c : is_prefix a b -> is_prefix b c -> is_prefix a c.
Proof. intros [r ->] [r' ->]. exists (r ++ r'). now rewrite app_assoc. Qed.

Lemma is_prefix_length a b : is_prefix a b -> (length a <= length b)%nat.
Proof. intros [r ->]. rewrite app_length. lia. Qed.

(* two prefixes of the same string are comparable *)
Lemma is_prefix_comparable : forall a b c, is_prefix a c -> is_prefix b c -> (length a <= length b)%nat -> is_prefix a b.
Proof.
  induction a as [|x a IH]; intros b c Ha Hb Hl.
  - exists b. reflexivity.
  - destruct b as [|y b]; [simpl in Hl; lia|].
    destruct Ha as [ra Ha], Hb as [rb Hb]. subst c. simpl in Hb. injection Hb as Hxy Hrest.
    subst y. destruct (IH b (a ++ ra)) as [r Hr].
    + apply is_prefix_app.
    + exists rb. exact Hrest.
    + simpl in Hl. lia.
    + exists r. simpl. now rewrite Hr.
Qed.

Lemma is_prefix_app_inv a b r : is_prefix (a ++ b) (a ++ r) -> is_prefix b r.
Proof.
  intros [q Hq]. rewrite <- app_assoc in Hq. apply app_inv_head in Hq. exists q. exact Hq.
Qed.

Lemma is_prefix_ones_inv a n : is_prefix a (ones n) -> a = ones (length a).
Proof.
  intros [r Hr]. revert a r Hr. unfold ones. induction n as [|n IH]; intros a r Hr.
  - destruct a; [reflexivity | discriminate].
  - destruct a as [|x a]; [reflexivity|]. simpl in Hr. injection Hr as <- Hr.
    simpl. f_equal. eapply IH. exact Hr.
Qed.

Lemma ones_app n m : ones (n + m) = ones n ++ ones m.
Proof. unfold ones. apply repeat_app. Qed.

Lemma ones_length n : length (ones n) = n.
Proof. apply repeat_length. Qed.

Lemma forallb_ones n : forallb (fun b : bool => b) (ones n) = true.
Proof. induction n; simpl; auto. Qed.

Lemma forallb_id_ones l : forallb (fun b : bool => b) l = true -> l = ones (length l).
Proof.
  induction l as [|x l IH]; intros H; [reflexivity|].
  simpl in H. apply andb_prop in H. destruct H as [-> H]. unfold ones. simpl. f_equal. now apply IH.
Qed.
