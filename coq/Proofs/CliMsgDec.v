(* Proofs/CliMsgDec.v - C02 (c), the key lemma, with NO hypothesis on the server: while the read loop runs, its HPACK
   decoder state is the reference decoder folded over ALL the header-block fragments it has taken in, in arrival order,
   whether or not a request was (still) waiting on their stream; and the carry of a field cut by a frame boundary is where
   the next CONTINUATION looks for it. The client analogue of C09 (a). *)
From H2V Require Import Base.Bytes Base.MachineInt Base.Result Gen.GenConsts Impl.ServerConn Impl.ClientConn
  Spec.Http2Messages Spec.Http2Responses Proofs.CliBase Proofs.SrvIsoRef Proofs.CliMsgRef Proofs.CliMsgAuto Proofs.CliMsgMoves
  Proofs.CliMsgDisp Proofs.CliMsgStep Proofs.CliMsgInv Proofs.CliMsgFeed Proofs.CliMsgRun Proofs.CliMsgIds.
From Coq Require Import ZArith Lia ZifyN ZifyNat ZifyBool List.
Import ListNotations.
Local Open Scope N_scope.

Section Dec.
Context {hstate : Type}.
Variable dec_field : hstate -> N -> bytes -> dec_res hstate.
Variable enc_field : hstate -> bytes -> bytes -> bool -> bytes * hstate.
Variable enc_set_max : hstate -> N -> hstate.
Variable cfg : cl_config.
Implicit Types c : cconn hstate.
Implicit Types g : @gst hstate.

Notation step := (cl_step dec_field enc_field enc_set_max cfg).
Notation mvs := (mvs dec_field enc_field enc_set_max).
Notation mv1 := (mv1 enc_field enc_set_max).
Notation feedmove := (feedmove dec_field).
Notation gstep := (gstep dec_field).

Definition DInv g c : Prop := (cl_rl_live c = true -> dec_clause g c) /\ herr_ok c.

Lemma DInv_regs g c c' : regs c' = regs c -> (cl_rl_live c' = true -> cl_rl_live c = true) -> DInv g c -> DInv g c'.
Proof.
  intros R L [A B]. split.
  - intro L'. exact (dec_clause_regs g c c' R (A (L L'))).
  - intros e H. apply B. unfold regs in R. inversion R. congruence.
Qed.

Lemma regs_reg c tag x :
  regs (open_pending (fst (reg_state enc_field c tag x)) (cc_nextID c) tag (ct_req x)) = regs c /\
  cl_rl_live (open_pending (fst (reg_state enc_field c tag x)) (cc_nextID c) tag (ct_req x)) = cl_rl_live c.
Proof.
  unfold reg_state. destruct (cl_request_block enc_field (cc_enc (ccu_nextID c (u32 (cc_nextID c + 2)))) (ct_req x)) as [blk e']. cbn [fst].
  unfold open_pending. destruct (rq_has_body (ct_req x)); [destruct (cq_body (ct_req x))|]; split; reflexivity.
Qed.

Lemma DInv_mv1 g c c' : DInv g c -> mv1 c c' -> DInv g c'.
Proof.
  intros D M. destruct M as [c c' Q|c tag rq armed G|c tag x G S0 NI|c|c tag x G S0 NI LE L|c tag x c' G S0 NI LE Q L F|c tag x e G E].
  - exact (DInv_regs g c c' (regs_qm _ _ _ Q) (qm_rl _ _ _ Q) D).
  - apply (DInv_regs g c); [reflexivity | auto | exact D].
  - apply (DInv_regs g c); [reflexivity | auto | exact D].
  - apply (DInv_regs g c); [reflexivity | auto | exact D].
  - destruct (regs_reg c tag x) as [R1 R2]. unfold reg_state in *.
    destruct (cl_request_block enc_field (cc_enc (ccu_nextID c (u32 (cc_nextID c + 2)))) (ct_req x)) as [blk e']. cbn [fst] in *.
    apply (DInv_regs g c); [exact R1 | intro H; rewrite <- R2; exact H | exact D].
  - destruct (regs_reg c tag x) as [R1 R2].
    apply (DInv_regs g _ c' (regs_qm _ _ _ Q) (qm_rl _ _ _ Q)). apply (DInv_regs g c); [exact R1 | intro H; rewrite <- R2; exact H | exact D].
  - apply (DInv_regs g c); [reflexivity | auto | exact D].
Qed.

(* readStream keeps the decoder in step with the reference, or fails the connection *)
Lemma read_stream_dec g c fr res :
  dec_clause g c -> herr_ok c -> frame_in_seq c fr = true -> sf_sid fr <> 0 ->
  match cl_read_stream dec_field c fr res with
  | (c1, res', ended, err) => fatal err \/ dec_clause (gstep g fr) c1
  end.
Proof.
  intros [GD GO] HE FS S0. unfold frame_in_seq in FS. unfold CliMsgInv.gstep.
  destruct (sf_kind fr) eqn:K; cbn [fkind_eqb negb andb] in FS.
  - (* DATA *)
    destruct (read_stream_data dec_field c fr res K) as (dw & RS & QW & _). rewrite RS. cbv beta iota. right.
    apply (dec_clause_regs _ c dw (regs_qm _ _ _ QW)). split; [exact GD | exact GO].
  - (* HEADERS *)
    assert (HS0 : cc_hdrStream c = 0) by (destruct (cc_hdrStream c =? 0) eqn:E; [lia | discriminate]).
    unfold cl_read_stream. rewrite K.
    set (cb := ccu_hdrEndStream (ccu_hdrErr (ccu_hdrStatus (ccu_hdrRegularSeen (ccu_hdrFields (ccu_hdrPrev c []) 0) false) 0%Z) None) (flag_has (sf_flags fr) FL_ES)).
    assert (HB : forall e, cc_hdrErr cb = Some e -> e = CEMalformed) by discriminate.
    pose proof (rhf_result dec_field cb (sf_sid fr) (sf_payload fr) (flag_has (sf_flags fr) FL_EH) res HB) as RR.
    unfold gfrag. rewrite GD.
    change (cc_hdrPrev cb ++ sf_payload fr) with (sf_payload fr) in RR. change (cc_dec cb) with (cc_dec c) in RR. change (cc_hdrFields cb) with 0 in RR.
    destruct (ref_loop dec_field (S (length (sf_payload fr))) (flag_has (sf_flags fr) FL_EH) (cc_dec c) 0 (sf_payload fr)) as [fs d' n' carry| | |].
    + destruct (hf_fold (cc_hdrRegularSeen cb, cc_hdrStatus cb, cc_hdrErr cb, res) fs) as [[[rs' st'] he'] res'] eqn:HF.
      specialize (RR rs' st' he' res' eq_refl). cbv zeta in RR. rewrite RR.
      destruct (flag_has (sf_flags fr) FL_EH); cbn [negb].
      * destruct he'; cbv beta iota; right; split; reflexivity.
      * destruct (cl_maxHeaderPrev <? len carry); cbv beta iota; [left; exact Logic.I|]. right. split; [reflexivity|]. cbn. repeat split; assumption.
    + destruct RR as (c1 & res' & e & RS & FT & _). rewrite RS. cbv beta iota. left. exact FT.
    + destruct RR as (c1 & res' & e & RS & FT & _). rewrite RS. cbv beta iota. left. exact FT.
    + destruct RR as (c1 & res' & e & RS & FT & _). rewrite RS. cbv beta iota. left. exact FT.
  - unfold cl_read_stream. rewrite K. cbv beta iota. right. split; assumption.
  - unfold cl_read_stream. rewrite K. cbv beta iota. right. split; assumption.
  - unfold cl_read_stream. rewrite K. cbv beta iota. right. split; assumption.
  - unfold cl_read_stream. rewrite K. cbv beta iota. right. split; assumption.
  - unfold cl_read_stream. rewrite K. cbv beta iota. right. split; assumption.
  - unfold cl_read_stream. rewrite K. cbv beta iota. right. split; assumption.
  - unfold cl_read_stream. rewrite K. cbv beta iota. right. split; assumption.
  - (* CONTINUATION *)
    assert (HS1 : cc_hdrStream c <> 0 /\ sf_sid fr = cc_hdrStream c) by (destruct (cc_hdrStream c =? 0) eqn:E; [discriminate | lia]).
    destruct HS1 as [HS1 HS2].
    destruct (g_open g) as [[[s es] fs0]|] eqn:GOE; [|congruence]. destruct GO as (A & B & C & D & E).
    unfold cl_read_stream. rewrite K.
    pose proof (rhf_result dec_field c (sf_sid fr) (sf_payload fr) (flag_has (sf_flags fr) FL_EH) res HE) as RR.
    unfold gfrag. rewrite GD, D, E.
    destruct (ref_loop dec_field (S (length (cc_hdrPrev c ++ sf_payload fr))) (flag_has (sf_flags fr) FL_EH) (cc_dec c) (cc_hdrFields c) (cc_hdrPrev c ++ sf_payload fr)) as [fs d' n' carry| | |].
    + destruct (hf_fold (cc_hdrRegularSeen c, cc_hdrStatus c, cc_hdrErr c, res) fs) as [[[rs' st'] he'] res'] eqn:HF.
      specialize (RR rs' st' he' res' eq_refl). cbv zeta in RR. rewrite RR.
      destruct (flag_has (sf_flags fr) FL_EH); cbn [negb].
      * destruct he'; cbv beta iota; right; split; reflexivity.
      * destruct (cl_maxHeaderPrev <? len carry); cbv beta iota; [left; exact Logic.I|]. right. split; [reflexivity|]. cbn. repeat split; congruence.
    + destruct RR as (c1 & res' & e & RS & FT & _). rewrite RS. cbv beta iota. left. exact FT.
    + destruct RR as (c1 & res' & e & RS & FT & _). rewrite RS. cbv beta iota. left. exact FT.
    + destruct RR as (c1 & res' & e & RS & FT & _). rewrite RS. cbv beta iota. left. exact FT.
Qed.


Lemma DInv_feed g c fr c3 : DInv g c -> feedmove fr c c3 -> DInv (gstep g fr) c3.
Proof.
  intros [DC HE] F. split; [|destruct (feedmove_fm dec_field c fr c3 HE F) as (tg & _ & HE3 & _); exact HE3].
  destruct F as (L & S0 & FS & ok & OK & ->). specialize (DC L).
  pose proof (disp_feed_shape dec_field c fr ok) as DS.
  pose proof (read_stream_shape dec_field c fr (match ok with Some x => Some (ct_resp x) | None => None end) HE) as RS.
  pose proof (read_stream_dec g c fr (match ok with Some x => Some (ct_resp x) | None => None end) DC HE FS S0) as RD.
  destruct (disp_feed dec_field c fr ok) as [[[c2 ok2] ended] err2].
  destruct (cl_read_stream dec_field c fr (match ok with Some x => Some (ct_resp x) | None => None end)) as [[[c1 res'] ended'] err].
  destruct DS as (-> & -> & LK & ER). destruct RS as (F1 & H1 & EC & ES).
  assert (HC : forall e, err2 = CRSConn e -> err_special e = false).
  { intros e H. destruct ER as [->|[_ ->]]; [rewrite (EC e H); reflexivity | discriminate]. }
  assert (HS : forall e, err2 = CRSStream e -> err_special e = false).
  { intros e H. destruct ER as [->|[_ ->]]; [exact (ES e H) | inversion H; reflexivity]. }
  assert (FT : fatal err -> fatal err2) by (intro H; destruct ER as [->|[-> _]]; [exact H | destruct H]).
  intro L3. destruct ok as [x|], ok2 as [x2|]; try contradiction.
  - destruct OK as (Fq & G & SX).
    pose proof (fm_ctx _ _ _ (F1 None) (ct_tag x) ltac:(discriminate)) as CX. rewrite G in CX.
    destruct (cl_ctx_get c1 (ct_tag x)) as [x1|] eqn:G1; [|contradiction].
    assert (G2 : cl_ctx_get (cl_ctx_put c1 x2) (ct_tag x2) = Some x2) by (rewrite cl_ctx_get_put, N.eqb_refl, LK, G1; reflexivity).
    destruct (tail_some dec_field (cl_ctx_put c1 x2) (sf_sid fr) x2 ended' err2 G2 HC HS) as (_ & RG & CASES).
    destruct RD as [FE|DC1].
    + exfalso. destruct CASES as [(E & _)|(_ & x3 & _ & _ & _ & _ & DEAD & _)].
      * specialize (FT FE). rewrite E in FT. destruct FT.
      * rewrite (DEAD (FT FE)) in L3. discriminate.
    + apply (dec_clause_regs _ c1); [rewrite RG; apply regs_put | exact DC1].
  - destruct (tail_none c1 (sf_sid fr) ended' err2 HC) as [QT DEAD].
    destruct RD as [FE|DC1].
    + exfalso. rewrite (DEAD (FT FE)) in L3. discriminate.
    + apply (dec_clause_regs _ c1); [exact (regs_qm _ _ _ QT) | exact DC1].
Qed.

Lemma DInv_mvs g c c' tk : mvs tk c c' -> DInv g c -> DInv (gopt dec_field g tk) c'.
Proof.
  intro M. revert g. induction M as [c|tk c c1 c2 M1 M IH|fr c c1 c2 F M IH]; intros g D.
  - exact D.
  - apply IH. exact (DInv_mv1 g c c1 D M1).
  - exact (IH _ (DInv_feed g c fr c1 D F)).
Qed.

Lemma DInv_init h0 first : DInv (ginit h0) (cl_init enc_set_max h0 first).
Proof.
  unfold cl_init. destruct (cl_settings_deserialize false first); (split; [intros _; split; reflexivity | unfold herr_ok; cbn; discriminate]).
Qed.

Variable h0 : hstate.
Variable first : bytes.
Notation run := (cl_run dec_field enc_field enc_set_max cfg h0 first).
Notation ghost := (cl_ghost dec_field enc_field enc_set_max cfg h0 first).

Lemma PreD_run_from evs : forall g c, Pre c -> IdInv c -> DInv g c ->
  DInv (fold_left gstep (takens_from dec_field enc_field enc_set_max cfg c evs) g) (fold_left step evs c).
Proof.
  induction evs as [|e t IH]; intros g c P I D; [exact D|].
  cbn [takens_from fold_left]. rewrite fold_gopt.
  pose proof (step_mvs dec_field enc_field enc_set_max cfg c e P) as M.
  assert (PI : Pre (step c e) /\ IdInv (step c e)) by (eapply (PreId_mvs dec_field enc_field enc_set_max); [exact M | exact P | exact I]).
  destruct PI as [P1 I1]. apply IH; [exact P1 | exact I1 | exact (DInv_mvs g c _ _ M D)].
Qed.

(* the read loop's HPACK decoder is the reference decoder over ALL fragments - for EVERY event list *)
Theorem decoder_is_reference evs :
  cl_rl_live (run evs) = true ->
  cc_dec (run evs) = g_d (ghost evs) /\
  match g_open (ghost evs) with
  | None => cc_hdrStream (run evs) = 0
  | Some (s, es, fs) => cc_hdrStream (run evs) = s /\ cc_hdrFields (run evs) = g_n (ghost evs) /\ cc_hdrPrev (run evs) = g_carry (ghost evs)
  end.
Proof.
  intro L.
  assert (D : DInv (ghost evs) (run evs)).
  { unfold cl_ghost, cl_takens, cl_run. apply PreD_run_from; [eapply (Pre_init dec_field enc_field) | eapply (Pre_init dec_field enc_field) | apply DInv_init]. }
  destruct D as [D _]. destruct (D L) as [A B]. split; [symmetry; exact A|].
  destruct (g_open (ghost evs)) as [[[s es] fs]|]; [|exact B]. destruct B as (B1 & _ & _ & B4 & B5). repeat split; congruence.
Qed.

End Dec.
