(* Proofs/SrvReqTraceI.v - two structural facts about the states of clean runs that `ready` (Proofs/SrvMsgStream.v)
   asks for and no earlier invariant provides:
     - the cursor of the ring of closed streams stays below its capacity (every run);
     - while the stream loop runs, no stream of the table is idle: a stream enters the table with the frame that
       opens it and leaves `idle` in the same step (clean runs: the HEADERS prelude never finds an unfinished block).
   Same plan as Proofs/SrvIsoTwoRunOdd.v: one lemma per model function. *)
From H2V Require Import Base.Bytes Base.MachineInt Base.Result Gen.GenConsts Impl.ServerConn Proofs.SrvBase
  Proofs.SrvIsoMoves Proofs.SrvIsoSteps Proofs.SrvInvFrame Proofs.SrvIsoTwoRunOdd Proofs.SrvIsoHdr Proofs.SrvIsoHdrStep Proofs.SrvIsoRun
  Proofs.SrvRfcModel Proofs.SrvInvSlots.
From Coq Require Import ZArith Lia ZifyN ZifyNat ZifyBool List.
Import ListNotations.
Local Open Scope N_scope.

Definition nidle (s : stream) : Prop := st_state s <> SIdle.

Section Inv.
Variable hstate : Type.
Variable dec_field : hstate -> N -> bytes -> dec_res hstate.
Variable enc_field : hstate -> bytes -> bytes -> bool -> bytes * hstate.
Variable enc_set_max : hstate -> N -> hstate.
Variable cfg : config.
Notation sconn := (sconn hstate).
Implicit Types c : sconn.

Definition TT c : Prop := sc_oldest c < closedStrmsCap /\ Forall nidle (sc_strms c).
(* what a whole step guarantees: a panic of the decoder may leave the new stream behind, the loop is over then *)
Definition RES c : Prop := sc_oldest c < closedStrmsCap /\ (sc_sl_done c = false -> Forall nidle (sc_strms c)).
Definition tv3 c := (sc_strms c, sc_oldest c).
Definition sv (s : stream) := (st_id s, st_state s).

Lemma TT_RES c : TT c -> RES c.
Proof. intros [A B]. split; auto. Qed.
Lemma TT_tv c c' : sc_strms c' = sc_strms c -> sc_oldest c' = sc_oldest c -> TT c -> TT c'.
Proof. intros E1 E2 [A B]. split; [rewrite E2 | rewrite E1]; assumption. Qed.
Lemma TT_tveq c c' : tv3 c' = tv3 c -> TT c -> TT c'.
Proof. unfold tv3. intro E. inversion E. apply TT_tv; assumption. Qed.

Lemma old_mark_closed c id w : sc_oldest c < closedStrmsCap -> sc_oldest (mark_closed c id w) < closedStrmsCap.
Proof.
  intro H. unfold mark_closed. destruct (in_ring c id); [exact H|]. destruct (_ <? _); sc_cbn; [exact H|].
  apply N.mod_lt. unfold closedStrmsCap. lia.
Qed.
Lemma TT_mark_closed c id w : TT c -> TT (mark_closed c id w).
Proof. intros [A B]. split; [apply old_mark_closed, A | rewrite sc_strms_mark_closed; exact B]. Qed.
Lemma TT_put c x : TT c -> nidle x -> TT (put c x).
Proof. intros [A B] X. split; [rewrite sc_oldest_put; exact A|]. unfold put. sc_cbn. apply strms_put_Forall; assumption. Qed.
Lemma TT_close_stream c s : TT c -> TT (close_stream c s).
Proof.
  intros [A B]. split.
  - rewrite sc_oldest_close_stream. apply old_mark_closed, A.
  - rewrite sc_strms_close_stream. apply strms_del_Forall, B.
Qed.
Lemma TT_brk c : TT c -> TT (fst (brk c)).
Proof. apply TT_tv; sc_rw; reflexivity. Qed.
Lemma TT_brk_if (b : bool) c : TT c -> TT (fst (if b then brk c else cont c)).
Proof. destruct b; [apply TT_brk | auto]. Qed.
Lemma TT_write_reset c sid code : TT c -> TT (write_reset c sid code).
Proof. apply TT_tv; sc_rw; reflexivity. Qed.
Lemma TT_write_goaway c sid code : TT c -> TT (write_goaway c sid code).
Proof. apply TT_tv; sc_rw; reflexivity. Qed.
Lemma TT_note c o : TT c -> TT (note c o).
Proof. apply TT_tv; sc_rw; reflexivity. Qed.
Lemma TT_emit c o : TT c -> TT (emit c o).
Proof. apply TT_tv; sc_rw; reflexivity. Qed.
Lemma TT_write_error c s e : TT c -> TT (fst (write_error c s e)).
Proof. apply TT_tv; sc_rw; reflexivity. Qed.

(* ---------- sending ---------- *)
Lemma old_send_data_loop fuel : forall c sid n, sc_oldest (fst (fst (fst (send_data_loop fuel c sid n)))) = sc_oldest c.
Proof.
  induction fuel as [|fuel IH]; intros c sid n; cbn [send_data_loop]; [reflexivity|].
  assert (GO : forall c0 n0, sc_oldest (fst (fst (fst
     (let avail := zmin (sn_window n0) (sc_clientWindow c0) in
      if (avail <=? 0)%Z then (c0, n0, false, false)
      else
        let step := zmin (zmin (Z.of_N maxDataFrameSize) avail) (Z.of_N (len (sn_pending n0))) in
        let chunk := takeN (Z.to_N step) (sn_pending n0) in
        let rest := dropN (Z.to_N step) (sn_pending n0) in
        let e := sn_pendingEnd n0 && match rest with [] => true | _ => false end in
        let c1 := emit c0 (OData sid e chunk) in
        let c2 := upd_clientWindow c1 (sc_clientWindow c1 - step) in
        let n' := mkSnd (sn_window n0 - step) rest (sn_pendingEnd n0) (sn_bodyStream n0) (sn_bodySize n0) (sn_bodyRead n0) in
        if e then (c2, n', true, false) else send_data_loop fuel c2 sid n')))) = sc_oldest c0).
  { intros c0 n0. cbv zeta. destruct (_ <=? 0)%Z; [reflexivity|].
    destruct (_ && _)%bool; cbn [fst]; [|rewrite IH]; sc_rw; reflexivity. }
  destruct (sn_pending n) eqn:EP.
  - destruct (sn_bodyStream n); [|reflexivity].
    destruct (refill_pending n) as [n1|].
    + destruct (sn_pending n1) eqn:EP1.
      * cbn [fst]. destruct (sn_pendingEnd n1); sc_rw; reflexivity.
      * rewrite <- EP1. apply GO.
    + cbn [fst]. sc_rw. reflexivity.
  - rewrite <- EP. apply GO.
Qed.
Lemma tv3_send_data c s : tv3 (fst (fst (send_data c s))) = tv3 c.
Proof.
  unfold tv3. f_equal; [apply (hsame_send_data _ c s)|].
  unfold send_data.
  pose proof (old_send_data_loop (send_data_fuel (get_snd s)) c (st_id s) (get_snd s)) as L.
  destruct (send_data_loop _ c (st_id s) (get_snd s)) as [[[c1 n1] dn] wr]. exact L.
Qed.
Lemma sv_send_data c s : sv (snd (fst (send_data c s))) = sv s.
Proof.
  unfold send_data.
  destruct (send_data_loop (send_data_fuel (get_snd s)) c (st_id s) (get_snd s)) as [[[c1 n1] done] wr].
  cbn [fst snd]. destruct wr; reflexivity.
Qed.
Lemma tv3_finish_request c s r : tv3 (fst (fst (finish_request enc_field c s r))) = tv3 c.
Proof.
  unfold finish_request. destruct (response_block enc_field (sc_enc c) r) as [blk e'].
  match goal with |- context [if ?b then _ else _] => destruct b end; cbn [fst snd].
  - unfold tv3. sc_rw. reflexivity.
  - rewrite tv3_send_data. unfold tv3. sc_rw. reflexivity.
Qed.
Lemma sv_finish_request c s r : sv (snd (fst (finish_request enc_field c s r))) = sv s.
Proof.
  unfold finish_request. destruct (response_block enc_field (sc_enc c) r) as [blk e'].
  match goal with |- context [if ?b then _ else _] => destruct b end; cbn [fst snd]; [reflexivity|].
  rewrite sv_send_data. destruct (rs_body r); reflexivity.
Qed.

Lemma sv_nidle s x : sv x = sv s -> nidle s -> nidle x.
Proof. unfold sv, nidle. intro E. inversion E. congruence. Qed.

Lemma handle_state_nidle fr s : nidle s \/ fkind_eqb (sf_kind fr) KHeaders = true -> nidle (handle_state fr s).
Proof.
  unfold nidle, handle_state. intros [H|H].
  - destruct (fkind_eqb (sf_kind fr) KRst); cbn [st_state set_state].
    + discriminate.
    + destruct (st_state s) eqn:E; [congruence| | | |];
        repeat match goal with |- context [if ?b then _ else _] => destruct b end; cbn [st_state set_state]; rewrite ?E; congruence.
  - rewrite H. assert (NR : fkind_eqb (sf_kind fr) KRst = false) by (destruct (sf_kind fr); try discriminate H; reflexivity).
    rewrite NR. destruct (st_state s) eqn:E;
      repeat match goal with |- context [if ?b then _ else _] => destruct b end; cbn [st_state set_state]; rewrite ?E; congruence.
Qed.

(* ---------- header blocks: only the decoder and the discard registers ---------- *)
Lemma tv3_discard_fragment c id fragment eh : tv3 (fst (discard_fragment dec_field cfg c id fragment eh)) = tv3 c.
Proof.
  unfold discard_fragment. destruct (discard_loop _ _ _ _ _ _) as [[[d' fields] carry] e].
  destruct e; [reflexivity|]. destruct eh; [reflexivity|]. destruct (_ && _)%bool; reflexivity.
Qed.
Lemma tv3_discard_header_block c fr : tv3 (fst (discard_header_block dec_field cfg c fr)) = tv3 c.
Proof. unfold discard_header_block. rewrite tv3_discard_fragment. destruct (fkind_eqb _ _); reflexivity. Qed.

Lemma handle_header_frame_tv3 c s fr :
  tv3 (fst (fst (handle_header_frame dec_field cfg c s fr))) = tv3 c /\
  sv (snd (fst (handle_header_frame dec_field cfg c s fr))) = sv s.
Proof.
  unfold handle_header_frame.
  destruct (_ && _)%bool; [split; reflexivity|]. destruct (_ && _)%bool; [split; reflexivity|].
  cbv zeta. destruct (header_loop _ _ _ _ _ _ _) as [[[d' h2] e] rest].
  destruct e as [[code|code|]|]; try (split; reflexivity).
  - match goal with |- context [discard_fragment ?a ?b ?c0 ?d ?e ?f] =>
      pose proof (tv3_discard_fragment c0 d e f) as T; destruct (discard_fragment a b c0 d e f) as [c3 [de|]] end;
      cbn [fst snd] in *; (split; [exact T | reflexivity]).
  - destruct (_ && _)%bool; split; reflexivity.
Qed.

Lemma handle_frame_tv3 c s fr :
  tv3 (fst (fst (handle_frame dec_field cfg c s fr))) = tv3 c /\
  sv (snd (fst (handle_frame dec_field cfg c s fr))) = sv s.
Proof.
  assert (HH : is_hdr_kind (sf_kind fr) = true ->
    tv3 (fst (fst (match sf_kind fr with KHeaders | KCont =>
          if (3 <=? sstate_rank (st_state s)) && negb (continuing_headers s fr) then (c, s, Some (EGoAway c_ProtocolError))
          else let '(c1, s1, e) := handle_header_frame dec_field cfg c s fr in
            match e with
            | Some e => (c1, s1, Some e)
            | None =>
              if flag_has (sf_flags fr) FL_EH then
                let fin := match st_prev s1 with [] => true | _ => false end in
                let s2 := set_headers_finished s1 fin in
                if negb fin then (c1, s2, Some (EGoAway c_ProtocolError))
                else match validate_request_pseudo_headers s2 with Some e => (c1, s2, Some e) | None => (c1, s2, None) end
              else (c1, s1, None)
            end | _ => (c, s, None) end))) = tv3 c /\
    sv (snd (fst (match sf_kind fr with KHeaders | KCont =>
          if (3 <=? sstate_rank (st_state s)) && negb (continuing_headers s fr) then (c, s, Some (EGoAway c_ProtocolError))
          else let '(c1, s1, e) := handle_header_frame dec_field cfg c s fr in
            match e with
            | Some e => (c1, s1, Some e)
            | None =>
              if flag_has (sf_flags fr) FL_EH then
                let fin := match st_prev s1 with [] => true | _ => false end in
                let s2 := set_headers_finished s1 fin in
                if negb fin then (c1, s2, Some (EGoAway c_ProtocolError))
                else match validate_request_pseudo_headers s2 with Some e => (c1, s2, Some e) | None => (c1, s2, None) end
              else (c1, s1, None)
            end | _ => (c, s, None) end))) = sv s).
  { intros _. destruct (sf_kind fr); try (split; reflexivity);
      (destruct (_ && _)%bool; [split; reflexivity|]);
      pose proof (handle_header_frame_tv3 c s fr) as [T I];
      destruct (handle_header_frame dec_field cfg c s fr) as [[c1 s1] e]; cbn [fst snd] in T, I;
      cbv zeta; cbn [negb];
      repeat (match goal with |- context [if ?b then _ else _] => destruct b; cbn [negb]
                         | |- context [match ?b with Some _ => _ | None => _ end] => destruct b end);
      cbn [fst snd]; split; try exact T; try exact I. }
  unfold handle_frame. destruct (verify_state s fr); [split; reflexivity|].
  destruct (sf_kind fr) eqn:K; try (repeat (match goal with |- context [if ?b then _ else _] => destruct b end); split; reflexivity).
  - (* DATA *)
    destruct (negb _); [split; reflexivity|]. destruct (_ <=? _); [split; reflexivity|]. cbv zeta.
    destruct (_ && _)%bool; cbn [fst snd]; (split; [|reflexivity]); unfold tv3; sc_rw; reflexivity.
  - apply HH. reflexivity.
  - apply HH. reflexivity.
Qed.

(* ---------- the stream loop ---------- *)
(* the working copy s may be written back over its table entry: the table, with any stream that is not idle in its place,
   has no idle stream (the table has none, or s is the new stream at its end) *)
Definition PUT c (sid : N) : Prop := forall x, st_id x = sid -> nidle x -> Forall nidle (strms_put (sc_strms c) x).
Definition TP c sid : Prop := sc_oldest c < closedStrmsCap /\ PUT c sid.

Lemma TT_TP c sid : TT c -> TP c sid.
Proof. intros [A B]. split; [exact A|]. intros x _ X. apply strms_put_Forall; assumption. Qed.
Lemma TP_tv c c' sid : sc_strms c' = sc_strms c -> sc_oldest c' = sc_oldest c -> TP c sid -> TP c' sid.
Proof. intros E1 E2 [A B]. split; [rewrite E2; exact A|]. unfold PUT. rewrite E1. exact B. Qed.
Lemma TP_tveq c c' sid : tv3 c' = tv3 c -> TP c sid -> TP c' sid.
Proof. unfold tv3. intro E. inversion E. apply TP_tv; assumption. Qed.
Lemma TP_put c sid x : TP c sid -> st_id x = sid -> nidle x -> TT (put c x).
Proof. intros [A B] I X. split; [rewrite sc_oldest_put; exact A|]. unfold put. sc_cbn. apply B; assumption. Qed.

Lemma TT_after_frame c s fr wc : TP c (st_id s) -> nidle s \/ fkind_eqb (sf_kind fr) KHeaders = true ->
  TT (fst (after_frame cfg c s fr wc)).
Proof.
  intros H O. unfold after_frame. cbv zeta.
  pose proof (handle_state_nidle fr s O) as N1. pose proof (handle_state_id fr s) as I1.
  match goal with |- context [let '(c2, s2) := ?X in _] =>
    assert (M : TP (fst X) (st_id s) /\ st_id (snd X) = st_id s /\ nidle (snd X)) end.
  { destruct (_ && _ && _)%bool.
    - destruct (_ && _)%bool; cbn [fst snd].
      + split; [revert H; apply TP_tv; sc_rw; reflexivity|]. split; [exact I1 | unfold nidle; cbn; discriminate].
      + split; [revert H; apply TP_tv; sc_rw; reflexivity|]. split; [exact I1 | exact N1].
    - destruct (_ && _ && _)%bool.
      + pose proof (tv3_send_data c (handle_state fr s)) as T. pose proof (sv_send_data c (handle_state fr s)) as I.
        destruct (send_data c (handle_state fr s)) as [[c1 s2] fin]. cbn [fst snd] in *.
        split; [revert H; apply TP_tveq, T|]. unfold sv in I. inversion I as [[Ii Is]].
        destruct fin; cbn [st_id set_state]; (split; [congruence|]); unfold nidle in *; cbn [st_state set_state]; [discriminate | congruence].
      + cbn [fst snd]. split; [exact H|]. split; [exact I1 | exact N1]. }
  match goal with |- context [let '(c2, s2) := ?X in _] => destruct X as [c2 s2] end. cbn [fst snd] in M.
  destruct M as (H2 & I2 & N2). apply TT_brk_if.
  destruct (sstate_eqb _ _); [apply TT_close_stream|]; apply (TP_put _ (st_id s)); assumption.
Qed.

Lemma TT_flush_loop ids : forall c done, TT c -> TT (fst (flush_loop c ids done)).
Proof.
  induction ids as [|id t IH]; intros c done H; cbn [flush_loop]; [exact H|].
  destruct (strms_search (sc_strms c) id) as [s|] eqn:F; [|apply IH, H].
  destruct (_ && _ && _)%bool; [|apply IH, H].
  pose proof (tv3_send_data c s) as T. pose proof (sv_send_data c s) as I.
  destruct (send_data c s) as [[c1 s1] fin]. cbn [fst snd] in T, I.
  apply IH. apply TT_put; [revert H; apply TT_tveq, T|].
  apply (sv_nidle s); [exact I|]. destruct H as [_ B]. rewrite Forall_forall in B. apply B.
  apply strms_search_In in F. tauto.
Qed.
Lemma TT_close_all ids : forall c, TT c -> TT (close_all c ids).
Proof.
  induction ids as [|id t IH]; intros c H; cbn [close_all]; [exact H|].
  destruct (strms_search (sc_strms c) id) as [s|] eqn:F; [|apply IH, H].
  apply IH. apply TT_close_stream, H.
Qed.
Lemma TT_flush_streams c : TT c -> TT (flush_streams c).
Proof.
  intro H. unfold flush_streams. pose proof (TT_flush_loop (map st_id (sc_strms c)) c [] H) as T.
  destruct (flush_loop c (map st_id (sc_strms c)) []) as [c1 done]. cbn [fst] in T. apply TT_close_all, T.
Qed.
Lemma TT_close_heads n : forall c, TT c -> TT (close_heads n c).
Proof.
  induction n as [|n IH]; intros c H; cbn [close_heads]; [exact H|].
  destruct (sc_strms c) as [|s t] eqn:E; [exact H|]. apply IH. apply TT_close_stream. apply TT_write_reset, H.
Qed.
Lemma TT_sl_timer c : TT c -> TT (fst (sl_timer cfg c)).
Proof. intro H. unfold sl_timer. destruct (_ <=? _)%Z; cbn [cont fst]; [exact H | apply TT_close_heads, H]. Qed.

Lemma TT_sl_done c sid r : TT c -> TT (fst (sl_done enc_field cfg c sid r)).
Proof.
  intro H. unfold sl_done. destruct (take_stream _ _) as [[s rest]|].
  - cbn [cont fst]. revert H. apply TT_tv; unfold release_stream; destruct (fkind_eqb _ _); sc_rw; reflexivity.
  - destruct (strms_search (sc_strms c) sid) as [s|] eqn:F; [|exact H]. destruct (negb _); [exact H|].
    assert (Ns : nidle s).
    { destruct H as [_ B]. rewrite Forall_forall in B. apply B. apply strms_search_In in F. tauto. }
    set (s1 := set_flags s (st_responded s) false (st_abandoned s)).
    pose proof (tv3_finish_request c s1 r) as T. pose proof (sv_finish_request c s1 r) as I.
    destruct (finish_request enc_field c s1 r) as [[c1 s2] fin]. cbn [fst snd] in T, I. cbv zeta.
    match goal with |- context [if ?b then brk ?x else cont ?x] => apply (TT_brk_if b x) end.
    assert (H1 : TT c1) by (revert H; apply TT_tveq, T).
    destruct fin; [apply TT_close_stream|]; apply TT_put; try exact H1.
    + unfold nidle. cbn. discriminate.
    + apply (sv_nidle s1); [exact I | exact Ns].
Qed.

Lemma TT_discard_or_break (r : sconn * option h2err) : TT (fst r) -> TT (fst (discard_or_break r)).
Proof.
  destruct r as [c1 [e|]]; cbn [fst discard_or_break]; intro H; [|exact H].
  destruct e; apply TT_brk; try apply TT_write_error; try apply TT_note; exact H.
Qed.
Lemma TT_discard_header_block c fr : TT c -> TT (fst (discard_or_break (discard_header_block dec_field cfg c fr))).
Proof. intro H. apply TT_discard_or_break. revert H. apply TT_tveq, tv3_discard_header_block. Qed.

Lemma RES_ftail_rest c s e fr wc : TP c (st_id s) -> (e = None -> nidle s \/ fkind_eqb (sf_kind fr) KHeaders = true) ->
  RES (fst (ftail_rest cfg c s e fr wc)).
Proof.
  intros H O. unfold ftail_rest. destruct e as [e|]; [|apply TT_RES, TT_after_frame; auto].
  assert (T : TP (fst (write_error c (Some s) e)) (st_id s)) by (revert H; apply TP_tv; sc_rw; reflexivity).
  pose proof (write_error_id _ c s e) as I.
  destruct (write_error c (Some s) e) as [c4 s4]. cbn [fst snd] in T, I.
  set (s5 := match s4 with Some x => set_state x SClosed | None => set_state s SClosed end).
  assert (I5 : st_id s5 = st_id s) by (unfold s5; destruct s4 as [x|]; cbn [st_id set_state]; [apply I|]; reflexivity).
  assert (N5 : nidle s5) by (unfold s5, nidle; destruct s4; cbn [st_state set_state]; discriminate).
  assert (T5 : TP c4 (st_id s5)) by (rewrite I5; exact T).
  destruct e as [code|code|].
  - destruct (negb _); apply TT_RES; [apply TT_brk, (TP_put _ (st_id s)); assumption | apply TT_after_frame; [exact T5 | left; exact N5]].
  - apply TT_RES, TT_after_frame; [exact T5 | left; exact N5].
  - split; [rewrite sc_oldest_brk; unfold note; sc_cbn; apply H | rewrite sc_sl_done_brk; discriminate].
Qed.
Definition okfr (s : stream) (fr : sframe) : Prop :=
  nidle s \/ fkind_eqb (sf_kind fr) KHeaders = true \/ fkind_eqb (sf_kind fr) KPriority = false.

Lemma RES_ftail c s fr wc : TP c (st_id s) -> okfr s fr ->
  RES (fst (ftail dec_field cfg c s fr wc)).
Proof.
  intros H O. unfold ftail. pose proof (handle_frame_tv3 c s fr) as [T I].
  destruct (handle_frame dec_field cfg c s fr) as [[c3 s3] e] eqn:HFe. cbn [fst snd] in T, I.
  unfold sv in I. inversion I as [[Ii Is]].
  apply RES_ftail_rest; [rewrite Ii; revert H; apply TP_tveq, T|].
  intros ->. unfold nidle. rewrite Is.
  destruct (st_state s) eqn:ES; try (left; discriminate).
  destruct (fkind_eqb (sf_kind fr) KHeaders) eqn:KH; [right; reflexivity|]. exfalso.
  destruct O as [O|[O|O]]; [apply O; exact ES | congruence|].
  unfold handle_frame, verify_state in HFe. rewrite ES, KH, O in HFe. cbn [orb] in HFe. inversion HFe.
Qed.

(* the RFC 5.1.1 loop closes idle streams at the head of the table: there is none *)
Definition HD c (sid : N) : Prop := match sc_strms c with n :: _ => nidle n \/ st_id n = sid | [] => True end.
Lemma implicit_close_id fuel c sid : HD c sid -> implicit_close fuel c sid = c.
Proof.
  intro H. destruct fuel as [|fuel]; [reflexivity|]. cbn [implicit_close]. unfold HD in H.
  destruct (sc_strms c) as [|n t]; [reflexivity|].
  destruct H as [H|H].
  - unfold nidle in H. replace (sstate_eqb (st_state n) SIdle) with false; [rewrite andb_false_r; reflexivity|].
    destruct (st_state n); try reflexivity. congruence.
  - replace (st_id n <? sid) with false by lia. reflexivity.
Qed.

Lemma RES_fwork c s fr wc : TP c (st_id s) -> HD c (st_id s) -> okfr s fr ->
  (fkind_eqb (sf_kind fr) KHeaders = true -> forall p, get_previous_headers (sc_strms c) = Some p -> st_headersFinished p = true) ->
  RES (fst (fwork dec_field cfg c s fr wc)).
Proof.
  intros H D O GP. unfold fwork. cbv zeta. destruct (fkind_eqb (sf_kind fr) KHeaders) eqn:KH; [|apply RES_ftail; assumption].
  rewrite (implicit_close_id _ c (st_id s) D).
  destruct (get_previous_headers _) as [p|]; [|apply RES_ftail; assumption].
  rewrite (GP eq_refl p eq_refl). cbn [negb]. apply RES_ftail; assumption.
Qed.

Lemma strms_put_last l s x : (forall y, In y l -> st_id y <> st_id x) -> st_id s = st_id x -> strms_put (l ++ [s]) x = l ++ [x].
Proof.
  intros NM E. induction l as [|y t IH]; cbn [app strms_put].
  - rewrite E, N.eqb_refl. reflexivity.
  - replace (st_id y =? st_id x) with false by (symmetry; apply N.eqb_neq, NM; left; reflexivity).
    rewrite IH; [reflexivity|]. intros z Iz. apply NM. right. exact Iz.
Qed.

Lemma TT_HD c sid : TT c -> HD c sid.
Proof. intros [_ B]. unfold HD. destruct (sc_strms c) as [|n t]; [exact I|]. left. exact (Forall_inv B). Qed.

Lemma Forall2_tr_nidle own k l l' : Forall2 (tr own k) l l' -> Forall nidle l -> Forall nidle l'.
Proof.
  induction 1 as [|a b l l' T _ IH]; intro F; [constructor|]. inversion F as [|? ? Na Fl]; subst. constructor; [|auto].
  destruct T as (_ & _ & R & _). unfold nidle in *. destruct (st_state a); try congruence; destruct (st_state b); cbn in R; try lia; discriminate.
Qed.

Lemma RES_sl_frame c fr : TT c -> (forall s, In s (sc_strms c) -> st_id s <= sc_lastID c) ->
  (sf_sid fr <> 0 -> fkind_eqb (sf_kind fr) KHeaders = true -> forall s, In s (sc_strms c) -> st_headersFinished s = true) ->
  RES (fst (sl_frame dec_field enc_set_max cfg c fr)).
Proof.
  intros H IDS AH. unfold sl_frame.
  destruct (sf_sid fr =? 0) eqn:Z0.
  { apply TT_RES. destruct (sf_kind fr); try exact H.
    - (* SETTINGS *)
      set (c0 := if sf_set_hastable fr then upd_enc c (enc_set_max (sc_enc c) (sf_set_table fr)) else c).
      assert (H0 : TT c0) by (subst c0; destruct (sf_set_hastable fr); [revert H; apply TT_tv; reflexivity | exact H]).
      destruct (sf_set_haswin fr); [|apply TT_emit, H0].
      cbv zeta.
      match goal with |- context [let '(aa, bb) := ?B in _] =>
        assert (BS : exists l', fst B = [] ++ l' /\ Forall2 (tr 0 false) (sc_strms (upd_initWin c0 (signed 32 (sf_set_win fr)))) l')
          by (apply (bumpall_tr 0 false (signed 32 (sf_set_win fr) - sc_initWin c0)));
        destruct B as [lB over] end.
      destruct BS as (lq & E & F2). cbn [fst app] in E. subst lB.
      assert (H1 : TT (upd_strms (upd_initWin c0 (signed 32 (sf_set_win fr))) lq)).
      { split; [apply H0|]. sc_cbn. eapply Forall2_tr_nidle; [exact F2|]. sc_cbn. apply H0. }
      destruct over; [apply TT_brk, TT_write_goaway, H1 | apply TT_flush_streams, TT_emit, H1].
    - (* WINDOW_UPDATE *)
      cbv zeta. assert (H1 : TT (upd_clientWindow c (sc_clientWindow c + Z.of_N (sf_inc fr)))) by (revert H; apply TT_tv; reflexivity).
      destruct (_ <? _)%Z; [apply TT_brk, TT_write_goaway, H1 | apply TT_flush_streams, H1]. }
  assert (NZ : sf_sid fr <> 0) by lia.
  destruct (_ && _ && _)%bool; [apply TT_RES, TT_discard_header_block, H|].
  cbv zeta.
  change (match ?pre with inl r => r | inr (c1, s) => _ end) with
    (match pre with inl r => r | inr (c1, s) => fwork dec_field cfg c1 s fr (sc_closing c) end).
  destruct (if sf_sid fr <=? sc_lastID c then strms_search (sc_strms c) (sf_sid fr) else None) as [s|] eqn:Found.
  { assert (SS : strms_search (sc_strms c) (sf_sid fr) = Some s) by (destruct (_ <=? _); [exact Found | discriminate]).
    destruct (strms_search_In _ _ _ SS) as [Is Es].
    assert (Ns : nidle s) by (destruct H as [_ B]; rewrite Forall_forall in B; apply B; exact Is).
    apply RES_fwork; [apply TT_TP, H | apply TT_HD, H | left; exact Ns |].
    intros KH p GP. apply (AH NZ KH). eapply get_previous_headers_In. exact GP. }
  destruct (fkind_eqb (sf_kind fr) KRst).
  { apply TT_RES. destruct (_ && _)%bool; [apply TT_write_goaway, H | exact H]. }
  destruct (in_ring c (sf_sid fr)).
  { apply TT_RES. destruct (sf_kind fr); cbn [cont fst]; try exact H; try (apply TT_write_goaway, H);
      destruct (match ring_find c (sf_sid fr) with Some b => b | None => false end);
      try (apply TT_write_goaway, H); try apply TT_discard_header_block, H.
    revert H. apply TT_tv; cbn [cont fst]; sc_rw; reflexivity. }
  destruct (fkind_eqb (sf_kind fr) KPriority) eqn:KP.
  { apply TT_RES. destruct (sf_dep fr =? sf_sid fr); cbn [cont fst]; [apply TT_write_reset, H | exact H]. }
  destruct (_ && _)%bool; [apply TT_RES, TT_write_goaway, H|].
  set (c0 := if fkind_eqb (sf_kind fr) KHeaders then upd_highestID c (sf_sid fr) else c).
  assert (H0 : TT c0) by (subst c0; destruct (fkind_eqb _ _); [revert H; apply TT_tv; reflexivity | exact H]).
  destruct (_ && _)%bool.
  { apply TT_RES, TT_discard_header_block. apply TT_mark_closed. apply TT_write_reset, H0. }
  destruct (_ <? _); [apply TT_RES, TT_write_goaway, H0|].
  destruct (_ && _)%bool.
  { apply TT_RES, TT_discard_header_block. apply TT_mark_closed. apply TT_write_reset, H0. }
  set (c1 := if fkind_eqb (sf_kind fr) KHeaders then upd_lastID c0 (sf_sid fr) else c0).
  assert (E1 : sc_strms c1 = sc_strms c /\ sc_oldest c1 = sc_oldest c).
  { subst c1 c0. destruct (fkind_eqb _ _); split; reflexivity. }
  destruct E1 as [E1 E2].
  (* the new stream: nobody in the table has its id *)
  assert (NM : forall y, In y (sc_strms c) -> st_id y <> sf_sid fr).
  { intros y Iy E. destruct (sf_sid fr <=? sc_lastID c) eqn:LE.
    - eapply strms_search_None; [exact Found | exact Iy | exact E].
    - specialize (IDS y Iy). lia. }
  set (s := set_orig_started _ _ _).
  assert (Is : st_id s = sf_sid fr) by reflexivity.
  assert (T3 : TP (upd_strms c1 (sc_strms c1 ++ [s])) (st_id s) /\ HD (upd_strms c1 (sc_strms c1 ++ [s])) (st_id s)).
  { split; [split|].
    - sc_cbn. rewrite E2. apply H.
    - intros x Ix Nx. sc_cbn. rewrite E1, strms_put_last; [|intros y Iy; rewrite Ix, Is; apply NM; exact Iy | congruence].
      apply Forall_app. split; [apply H | constructor; [exact Nx | constructor]].
    - unfold HD. sc_cbn. rewrite E1. destruct H as [_ B]. destruct (sc_strms c) as [|n t]; cbn [app]; [right; reflexivity | left; exact (Forall_inv B)]. }
  destruct T3 as [T3 D3].
  apply RES_fwork.
  - destruct (fkind_eqb _ _); [revert T3; apply TP_tv; reflexivity | exact T3].
  - destruct (fkind_eqb _ _); [exact D3 | exact D3].
  - right. right. exact KP.
  - intros KH p GP. apply (AH NZ KH).
    assert (G2 : get_previous_headers (sc_strms c ++ [s]) = Some p).
    { rewrite <- E1. destruct (fkind_eqb (sf_kind fr) KHeaders); exact GP. }
    eapply get_previous_headers_new; [|exact G2].
    unfold s. cbn. destruct (sf_kind fr); try discriminate KH; reflexivity.
Qed.

(* ---------- every step of a clean run ---------- *)
Variable h0 : hstate.
Notation step := (step dec_field enc_field enc_set_max cfg).
Notation run := (run dec_field enc_field enc_set_max cfg h0).
Notation clean := (clean dec_field enc_field enc_set_max cfg h0).

Lemma RES_same c c' : sc_strms c' = sc_strms c -> sc_oldest c' = sc_oldest c -> sc_sl_done c' = sc_sl_done c -> RES c -> RES c'.
Proof. intros E1 E2 E3 [A B]. split; [rewrite E2; exact A | rewrite E1, E3; exact B]. Qed.
Lemma RES_over c c' : sc_oldest c' = sc_oldest c -> sc_sl_done c' = true -> RES c -> RES c'.
Proof. intros E2 E3 [A B]. split; [rewrite E2; exact A | rewrite E3; discriminate]. Qed.

Theorem RES_run evs : clean evs -> RES (run evs).
Proof.
  induction evs as [|e evs IH] using rev_ind.
  - intros _. split; [unfold closedStrmsCap; cbn; lia | intros _; constructor].
  - intro CL. apply clean_snoc in CL. destruct CL as [CL CS]. specialize (IH CL). rewrite run_snoc.
    set (c := run evs) in *.
    destruct e as [i| |sid r|t| | | |].
    + pose proof (read_loop_event_frame _ dec_field enc_field enc_set_max cfg c i) as E.
      unfold slview in E. inversion E as [[E1 E2 E3 E4 E5 E6 E7 E8 E9 E10 E11 E12 E13]].
      revert IH. apply RES_same; assumption.
    + rewrite step_EvSL. destruct (sc_sl_done c) eqn:Hd; [exact IH|].
      destruct (sc_readerQ c) as [|fr q] eqn:RQ.
      * destruct (sc_rl_done c); [|exact IH]. revert IH. apply RES_over; reflexivity.
      * destruct IH as [A B]. specialize (B Hd).
        apply RES_sl_frame.
        -- split; sc_cbn; assumption.
        -- sc_cbn. intros s Is.
           destruct (SI_run_T _ dec_field enc_field enc_set_max cfg h0 evs) as [_ _ _ _ _ _ _ _ IDS _].
           destruct (IDS Hd) as [_ LE]. apply LE. apply in_or_app. left. exact Is.
        -- sc_cbn. intros NZ KH.
           destruct (run_inv _ dec_field enc_field enc_set_max cfg h0 evs CL) as (n & carry & _ & IHd).
           destruct (IHd Hd) as [G (fin & Wk & _)]. fold c in Wk, G. rewrite RQ in Wk. cbn [qwalk] in Wk.
           assert (IHF : is_hdr_frame fr = true).
           { unfold is_hdr_frame, is_hdr_kind. rewrite KH. replace (sf_sid fr =? 0) with false by lia. reflexivity. }
           assert (IC : is_cont fr = false) by (unfold is_cont; destruct (sf_kind fr); try discriminate KH; reflexivity).
           rewrite IHF, IC in Wk.
           destruct (cur_of (hframes dec_field enc_field enc_set_max cfg h0 evs) =? 0) eqn:C0; [|discriminate Wk].
           apply N.eqb_eq in C0. pose proof (hg_inv _ _ _ _ _ G) as HV. rewrite C0 in HV. destruct HV as [_ FP IDS _ _ _].
           apply all_hf_of_P0; [intros s Is; apply IDS; exact Is | exact FP].
    + rewrite step_EvDone. destruct (sc_sl_done c) eqn:Hd; [exact IH|]. destruct IH as [A B].
      apply TT_RES, TT_sl_done. split; auto.
    + rewrite step_EvClock. destruct (_ <? _)%Z; [|exact IH]. revert IH. apply RES_same; reflexivity.
    + rewrite step_EvTimer. destruct (sc_sl_done c) eqn:Hd; [exact IH|]. destruct IH as [A B].
      apply TT_RES, TT_sl_timer. split; auto.
    + rewrite step_EvIdle. revert IH. apply RES_same; sc_cbn; sc_rw; reflexivity.
    + rewrite step_EvCloser. destruct (_ && _)%bool; [|exact IH]. revert IH. apply RES_over; sc_rw; reflexivity.
    + rewrite step_EvWriteFail. revert IH. apply RES_same; reflexivity.
Qed.

End Inv.
