(* C15: HuffmanEncode computes the RFC 7541 encoding. *)
From Coq Require Import List NArith Bool Lia.
From H2V Require Import Base.Bytes Base.MachineInt Base.Result Gen.GenHuffman
  Spec.XNetTables Spec.Rfc7541Huffman Impl.Huffman Proofs.HuffmanBits Proofs.HuffmanTable.
Import ListNotations.
Local Open Scope N_scope.

Lemma bits_of_top8 l code : 8 <= l ->
  bits_of (N.to_nat l) code = bits8 (u8 (N.shiftr code (l - 8))) ++ bits_of (N.to_nat (l - 8)) code.
Proof.
  intros H. replace (N.to_nat l) with (8 + N.to_nat (l - 8))%nat by lia.
  rewrite bits_of_app, bits8_u8, N2Nat.id. reflexivity.
Qed.

(* the drain loop emits whole bytes from the top of the pending bits *)
Lemma enc_drain_spec : forall f code l out l2,
  enc_drain f code l = (out, l2) -> l < 8 * N.of_nat f + 8 ->
  l2 < 8 /\ (exists q, l = 8 * q + l2) /\
  forall Y, packl (bits_of (N.to_nat l) code ++ Y) = out ++ packl (bits_of (N.to_nat l2) code ++ Y).
Proof.
  induction f as [|f IH]; intros code l out l2 E Hl.
  - simpl in E. injection E as <- <-. split; [lia|]. split; [exists 0; lia|]. reflexivity.
  - cbn [enc_drain] in E. destruct (8 <=? l) eqn:C.
    + apply N.leb_le in C.
      destruct (enc_drain f code (l - 8)) as [out' l'] eqn:E'.
      injection E as <- <-.
      destruct (IH code (l - 8) out' l' E') as [H1 [[q Hq] H3]]; [lia|].
      split; [assumption|]. split; [exists (q + 1); lia|].
      intros Y. rewrite (bits_of_top8 l code C), <- app_assoc, packl_bits8 by apply u8_lt.
      rewrite H3. reflexivity.
    + apply N.leb_gt in C. injection E as <- <-.
      split; [lia|]. split; [exists 0; lia|]. reflexivity.
Qed.

Lemma code_string_cons b s : code_string (b :: s) = code_bits b ++ code_string s.
Proof. reflexivity. Qed.

Lemma enc_loop_spec : forall src code l k,
  bytes_ok src = true -> l < 8 -> (k < 8)%nat ->
  ((N.to_nat l + length (code_string src) + k) mod 8 = 0)%nat ->
  enc_loop src code l = packl (bits_of (N.to_nat l) code ++ code_string src ++ ones k).
Proof.
  induction src as [|b rest IH]; intros code l k Hok Hl Hk Hmod.
  - cbn [enc_loop]. change (code_string []) with (@nil bool) in *. cbn [app length] in *.
    destruct (0 <? l) eqn:C.
    + apply N.ltb_lt in C.
      assert (k = N.to_nat (8 - l)) as Ek.
      { assert (N.to_nat l + 0 + k = 8)%nat; [|lia].
        assert (0 < N.to_nat l + 0 + k < 16)%nat as R by lia.
        remember (N.to_nat l + 0 + k)%nat as t.
        destruct (Nat.eq_dec t 8); [assumption|].
        exfalso. clear - Hmod R n.
        do 16 (destruct t as [|t]; [simpl in Hmod; lia|]). lia. }
      assert (8 - l = N.of_nat k) as En by lia.
      rewrite En.
      rewrite <- (bits_of_ones k k) by lia.
      rewrite <- (bits_of_lor_shift (N.to_nat l) k 64 code (2 ^ N.of_nat k - 1)).
      * replace (N.to_nat l + k)%nat with 8%nat by lia.
        change (bits_of 8 ?x) with (bits8 x).
        rewrite <- bits8_u8. rewrite <- (app_nil_r (bits8 _)).
        rewrite packl_bits8 by apply u8_lt. reflexivity.
      * lia.
      * assert (0 < 2 ^ N.of_nat k) by (apply N.neq_0_lt_0, N.pow_nonzero; lia). lia.
    + apply N.ltb_ge in C. assert (l = 0) by lia. subst l.
      assert (k = 0%nat) as ->.
      { simpl in Hmod. do 8 (destruct k as [|k]; [simpl in Hmod; try lia|]); try lia. }
      reflexivity.
  - cbn [bytes_ok forallb] in Hok. apply andb_prop in Hok. destruct Hok as [Hb Hrest].
    apply N.ltb_lt in Hb. fold (bytes_ok rest) in Hrest.
    destruct (sym_ok b Hb) as [[Hn5 Hn30] Hc].
    cbn [enc_loop]. cbv zeta. rewrite len_of_rfc, code_of_rfc.
    assert (u8 (l + rfc_len b) = l + rfc_len b) as Eu.
    { unfold u8, wrap. apply N.mod_small. change (2 ^ 8) with 256. lia. }
    rewrite Eu.
    set (code1 := N.lor (u64 (N.shiftl code (rfc_len b))) (rfc_code b)).
    destruct (enc_drain 32 code1 (l + rfc_len b)) as [out l2] eqn:E.
    destruct (enc_drain_spec _ _ _ _ _ E) as [H1 [[q Hq] H3]]; [simpl; lia|].
    rewrite code_string_cons in *. rewrite app_length, code_bits_length in Hmod.
    rewrite (IH code1 l2 k Hrest H1 Hk).
    + rewrite <- H3. f_equal. rewrite <- (app_assoc (code_bits b)).
      rewrite (app_assoc (bits_of (N.to_nat l) code)). f_equal.
      replace (N.to_nat (l + rfc_len b)) with (N.to_nat l + N.to_nat (rfc_len b))%nat by lia.
      unfold code1, u64. rewrite <- (N2Nat.id (rfc_len b)) at 2.
      rewrite bits_of_lor_shift.
      * reflexivity.
      * lia.
      * rewrite N2Nat.id. exact Hc.
    + replace (N.to_nat l2 + length (code_string rest) + k)%nat
        with ((N.to_nat l + (N.to_nat (rfc_len b) + length (code_string rest)) + k) - 8 * N.to_nat q)%nat by lia.
      assert (8 * N.to_nat q <= N.to_nat l + (N.to_nat (rfc_len b) + length (code_string rest)) + k)%nat by lia.
      remember (N.to_nat l + (N.to_nat (rfc_len b) + length (code_string rest)) + k)%nat as T.
      clear - Hmod H.
      apply Nat.mod_divides in Hmod; [|lia]. destruct Hmod as [c Hc]. subst T.
      replace (8 * c - 8 * N.to_nat q)%nat with ((c - N.to_nat q) * 8)%nat by lia.
      apply Nat.mod_mul. lia.
Qed.

Lemma pad_len_props n : (pad_len n < 8)%nat /\ ((n + pad_len n) mod 8 = 0)%nat.
Proof.
  unfold pad_len. split; [apply Nat.mod_upper_bound; lia|].
  pose proof (Nat.mod_upper_bound n 8 ltac:(lia)) as Hr.
  pose proof (Nat.div_mod n 8 ltac:(lia)) as Hd.
  remember (n mod 8)%nat as r. remember (n / 8)%nat as d.
  destruct (Nat.eq_dec r 0) as [->|Hnz].
  - change ((8 - 0) mod 8)%nat with 0%nat.
    replace (n + 0)%nat with (d * 8)%nat by lia. apply Nat.mod_mul. lia.
  - rewrite (Nat.mod_small (8 - r) 8) by lia.
    replace (n + (8 - r))%nat with ((d + 1) * 8)%nat by lia. apply Nat.mod_mul. lia.
Qed.

Theorem encode_is_spec : forall s, bytes_ok s = true -> huffman_encode s = spec_encode s.
Proof.
  intros s Hs. unfold huffman_encode, spec_encode. cbv zeta.
  destruct (pad_len_props (length (code_string s))) as [P1 P2].
  rewrite (enc_loop_spec s 0 0 (pad_len (length (code_string s))) Hs); [reflexivity|lia|exact P1|exact P2].
Qed.
