(* Proofs/CliMsgDisp.v - C02 (c) / C20 (client): dispatch in three parts, and the micro-moves a step is made of.

   cl_dispatch = disp_ok (loadReq + acquireFor) ; disp_feed (readStream, the checks on the header block, the Ctx
   written back) ; disp_tail (finish / setLastErr / goneAway).
   mv1 / feedmove / mvs: every step of the model is a sequence of quiet moves (Proofs/CliMsgMoves.v) and of the few
   moves that are not: a new Ctx, a Ctx queued, writeRequest's registration + HEADERS, one frame fed to the request
   on its stream, a result taken by its caller. *)
From H2V Require Import Base.Bytes Base.MachineInt Base.Result Gen.GenConsts Impl.ServerConn Impl.ClientConn
  Proofs.CliBase Proofs.CliMsgMoves.
From Coq Require Import ZArith Lia ZifyN ZifyNat ZifyBool List.
Import ListNotations.
Local Open Scope N_scope.
Set Default Proof Using "Type".

Section Disp.
Context {hstate : Type}.
Variable dec_field : hstate -> N -> bytes -> dec_res hstate.
Implicit Types c : cconn hstate.

(* loadReq + acquireFor: inl (connection, the Ctx that takes the frame) or inr (the read loop is parked) *)
Definition disp_ok c (id : N) : (cconn hstate * option cctx) + cconn hstate :=
  match cl_req_find (cc_reqQueued c) id with
  | None => inl (c, None)
  | Some tag =>
    match cl_acquire_for [] c tag id with
    | CLOk => inl (c, cl_ctx_get c tag)
    | CLRefused => inl (cl_take_req_count c id, None)
    | CLBlocked | CLSelf => inr (cl_go_stuck 0 [] c false tag)
    end
  end.

(* readStream and what dispatch makes of its answer, up to writing the Ctx back *)
Definition disp_feed c0 (fr : sframe) (ok : option cctx) : cconn hstate * option cctx * bool * cl_rserr :=
  let '(c1, res', ended, err) := cl_read_stream dec_field c0 fr (match ok with Some x => Some (ct_resp x) | None => None end) in
  let ok1 := match ok, res' with Some x, Some r => Some (ctu_resp x r) | _, _ => ok end in
  let '(ok2, err2) :=
    match ok1, err with
    | Some x, CRSNone =>
      if (cc_hdrStream c1 =? 0) && (fkind_eqb (sf_kind fr) KHeaders || fkind_eqb (sf_kind fr) KCont) then
        if (cc_hdrStatus c1 =? 0)%Z then
          if negb (ct_gotStatus x) || negb (cc_hdrEndStream c1) then (ok1, CRSStream CEMalformed) else (ok1, CRSNone)
        else if ct_gotStatus x then (ok1, CRSStream CEMalformed)
        else
          let final := (200 <=? cc_hdrStatus c1)%Z in
          (Some (ctu_gotStatus x final), if negb final && cc_hdrEndStream c1 then CRSStream CEMalformed else CRSNone)
      else (ok1, err)
    | _, _ => (ok1, err)
    end in
  let err2 :=
    match ok2, err2 with
    | Some x, CRSNone => if fkind_eqb (sf_kind fr) KData && negb (ct_gotStatus x) then CRSStream CEMalformed else err2
    | _, _ => err2
    end in
  let c2 := match ok2 with Some x => cl_ctx_put c1 x | None => c1 end in
  (c2, ok2, ended, err2).

Definition disp_tail c2 (id : N) (ok2 : option cctx) (ended : bool) (err2 : cl_rserr) : cconn hstate * cl_dres :=
  match err2 with
  | CRSPanic => (c2, CDPanic)
  | CRSConn e =>
    let c3 := cl_set_last_err c2 e in
    (match ok2 with Some x => cl_finish c3 (ct_tag x) id e | None => c3 end, CDStop)
  | CRSStream e =>
    let c3 := match ok2 with Some x => cl_finish c2 (ct_tag x) id e | None => c2 end in
    (c3, if cl_gone_away c3 then CDStop else CDCont)
  | CRSNone =>
    let c3 := match ok2 with
              | Some x => if ended then cl_finish c2 (ct_tag x) id CENil else c2
              | None => c2
              end in
    (c3, if cl_gone_away c3 then CDStop else CDCont)
  end.

Lemma cl_dispatch_eq c fr :
  cl_dispatch dec_field c fr =
  match disp_ok c (sf_sid fr) with
  | inr c' => (c', CDStuck)
  | inl (c0, ok) =>
    let '(c2, ok2, ended, err2) := disp_feed c0 fr ok in disp_tail c2 (sf_sid fr) ok2 ended err2
  end.
Proof.
  unfold cl_dispatch, disp_ok, disp_feed, disp_tail.
  destruct (cl_req_find (cc_reqQueued c) (sf_sid fr)) as [tag|]; [destruct (cl_acquire_for [] c tag (sf_sid fr))|];
    try reflexivity;
    match goal with |- context [cl_read_stream dec_field ?a ?b ?r] => destruct (cl_read_stream dec_field a b r) as [[[c1 res'] ended] err] end;
    repeat match goal with |- context [let '(_, _) := ?p in _] => destruct p eqn:? end; reflexivity.
Qed.


(* ---------- which frames the read loop takes in ---------- *)
Definition frame_in_seq c (fr : sframe) : bool :=
  negb (fkind_eqb (sf_kind fr) KPush) &&
  (if cc_hdrStream c =? 0 then negb (fkind_eqb (sf_kind fr) KCont)
   else fkind_eqb (sf_kind fr) KCont && (sf_sid fr =? cc_hdrStream c)).

(* the read loop would park on the Ctx.lck of the request waiting on the frame's stream *)
Definition dispatch_stuck c (fr : sframe) : bool :=
  match cl_req_find (cc_reqQueued c) (sf_sid fr) with
  | Some tag => match cl_acquire_for [] c tag (sf_sid fr) with CLBlocked | CLSelf => true | _ => false end
  | None => false
  end.

(* the stream frame (sid <> 0) the read loop takes in and goes through in step e, if any *)
Definition cl_taken c (e : cevent) : option sframe :=
  match e with
  | CEvRL (RFrame fr) =>
    if cl_rl_live c && negb (cc_netClosed c) && negb (sf_sid fr =? 0) && frame_in_seq c fr && negb (dispatch_stuck c fr)
    then Some fr else None
  | _ => None
  end.

(* ---------- micro-moves ---------- *)
Variable enc_field : hstate -> bytes -> bytes -> bool -> bytes * hstate.
Variable enc_set_max : hstate -> N -> hstate.

Definition rq_has_body (rq : crequest) : bool :=
  match cq_body rq with CStream _ _ => true | CBuf b => negb (cl_is_nil b) end.

(* writeRequest from nextID to openStreams++ *)
Definition reg_state c1 (tag : N) (x : cctx) : cconn hstate * bytes :=
  let id := cc_nextID c1 in
  let c2 := ccu_nextID c1 (u32 (id + 2)) in
  let '(blk, e') := cl_request_block enc_field (cc_enc c2) (ct_req x) in
  let c3 := ccu_enc c2 e' in
  let c4 := cl_ctx_put c3 (ctu_sid (ctu_conn x true) id) in
  let c5 := ccu_open (ccu_reqQueued c4 (cc_reqQueued c4 ++ [(id, tag)])) (cc_open c4 + 1)%Z in
  (c5, blk).

Definition open_pending c5 (id tag : N) (rq : crequest) : cconn hstate :=
  if rq_has_body rq then
    let pb :=
      match cq_body rq with
      | CStream reads size => mkCPB id tag [] (cc_streamWindow c5) (Some reads) size 0 (size =? 0)%Z
      | CBuf b => mkCPB id tag b (cc_streamWindow c5) None (-1) 0 false
      end in
    ccu_pending c5 (cc_pending c5 ++ [pb])
  else c5.

Inductive mv1 : cconn hstate -> cconn hstate -> Prop :=
| m_q c c' : qm q1 c c' -> mv1 c c'
| m_addctx c tag rq armed : cl_ctx_get c tag = None -> mv1 c (ccu_ctxs c (cc_ctxs c ++ [cl_new_ctx tag rq armed]))
| m_inq c tag x : cl_ctx_get c tag = Some x -> ct_sid x = 0 -> ~ In tag (cc_inQ c) -> mv1 c (ccu_inQ c (cc_inQ c ++ [tag]))
| m_encsize c : mv1 c (ccu_enc (ccu_encTableSeen c (cc_encTableSize c)) (enc_set_max (cc_enc c) (cc_encTableSize c)))
| m_open c tag x :
    cl_ctx_get c tag = Some x -> ct_sid x = 0 -> ~ In tag (cc_inQ c) -> cc_nextID c <= cl_maxStreamID -> cl_wl_live c = true ->
    mv1 c (let '(c5, blk) := reg_state c tag x in
           cl_note (open_pending c5 (cc_nextID c) tag (ct_req x)) (COHeaders (cc_nextID c) (negb (rq_has_body (ct_req x))) blk))
| m_open_fail c tag x c' :
    cl_ctx_get c tag = Some x -> ct_sid x = 0 -> ~ In tag (cc_inQ c) -> cc_nextID c <= cl_maxStreamID ->
    qm q1 (open_pending (fst (reg_state c tag x)) (cc_nextID c) tag (ct_req x)) c' -> cl_wl_live c' = false ->
    cl_req_find (cc_reqQueued c') (cc_nextID c) = None ->
    mv1 c c'
| m_result c tag x e :
    cl_ctx_get c tag = Some x -> ct_err x = Some e ->
    mv1 c (let x2 := ctu_pooled (ctu_returned (ctu_resolved (ctu_done (ctu_armed (ctu_err x None) false) true) true) true)
                                ((if ct_armed x then negb (ct_fired x) else true) && ct_finished x) in
           cl_note (cl_ctx_put c x2) (COResult tag (cl_retryable e) e (ct_resp x2))).

(* what readLoop does with dispatch's answer *)
Definition rl_after (p : cconn hstate * cl_dres) : cconn hstate :=
  match p with
  | (c2, CDCont) => c2
  | (c2, CDStop) => cl_rl_exit c2 2
  | (c2, CDStuck) => c2
  | (c2, CDPanic) => cl_rl_panic c2
  end.

(* one frame through dispatch, the lookup done: ok = the Ctx that takes it *)
Definition feedmove (fr : sframe) c c3 : Prop :=
  cl_rl_live c = true /\ sf_sid fr <> 0 /\ frame_in_seq c fr = true /\
  exists ok,
    match ok with
    | Some x => cl_req_find (cc_reqQueued c) (sf_sid fr) = Some (ct_tag x) /\ cl_ctx_get c (ct_tag x) = Some x /\ ct_sid x = sf_sid fr
    | None => cl_req_find (cc_reqQueued c) (sf_sid fr) = None
    end /\
    c3 = rl_after (let '(c2, ok2, ended, err2) := disp_feed c fr ok in disp_tail c2 (sf_sid fr) ok2 ended err2).

(* a step: micro-moves, among them at most one feed - of the frame the step takes in *)
Inductive mvs : option sframe -> cconn hstate -> cconn hstate -> Prop :=
| ms_refl c : mvs None c c
| ms_step tk c c1 c2 : mv1 c c1 -> mvs tk c1 c2 -> mvs tk c c2
| ms_feed fr c c1 c2 : feedmove fr c c1 -> mvs None c1 c2 -> mvs (Some fr) c c2.

Lemma mvs_trans tk a b c : mvs None a b -> mvs tk b c -> mvs tk a c.
Proof.
  intro H. remember None as n eqn:E. revert E. induction H as [| tk0 a a1 b M H IH | fr a a1 b F H IH]; intros E Q; [exact Q | | discriminate].
  eapply ms_step; [exact M | apply IH; assumption].
Qed.

Lemma mvs_q c c' : qm q1 c c' -> mvs None c c'.
Proof. intro Q. eapply ms_step; [apply m_q, Q | apply ms_refl]. Qed.
Lemma mvs_q2 c c' : qm q2 c c' -> mvs None c c'.
Proof. intro Q. apply mvs_q, qm_weaken, Q. Qed.
Lemma mvs_one c c' : mv1 c c' -> mvs None c c'.
Proof. intro M. eapply ms_step; [exact M | apply ms_refl]. Qed.
Lemma mvs_snoc_q tk a b c : mvs tk a b -> qm q1 b c -> mvs tk a c.
Proof.
  intros H Q. induction H as [c0 | tk0 a a1 b M H IH | fr a a1 b F H IH].
  - apply mvs_q, Q.
  - eapply ms_step; [exact M | apply IH, Q].
  - eapply ms_feed; [exact F | apply IH, Q].
Qed.

End Disp.
