(* C03: readInt against RFC 7541 5.1 (spec_dec_int), and its structural properties
   (no panic, progress, behaviour when more input is appended). *)
From Coq Require Import List NArith ZArith Bool Lia.
From H2V Require Import Base.Bytes Base.MachineInt Base.Result Gen.GenConsts Impl.Huffman Impl.Hpack
     Spec.Rfc7541 Proofs.HpackBytes.
Import ListNotations.
Local Open Scope N_scope.

Arguments N.shiftl : simpl never.
Arguments N.land : simpl never.
Arguments N.lor : simpl never.
Arguments N.pow : simpl never.
Arguments N.mul : simpl never.

(* ---- structure: valid for any list of N ---- *)

Lemma read_int_loop_cons x rest i nn b0 :
  read_int_loop (x :: rest) i nn b0 =
  if 56 <? (i - 1) * 7 then Err E_int_overflow
  else if negb (N.land x 128 =? 128)
       then Ok (rest, u64 (N.lor nn (shlw 64 (N.land x 127) ((i - 1) * 7)) + b0))
       else read_int_loop rest (i + 1) (N.lor nn (shlw 64 (N.land x 127) ((i - 1) * 7))) b0.
Proof. reflexivity. Qed.

Lemma read_int_cons n c rest :
  read_int n (c :: rest) =
  if negb (N.land (u8 (2 ^ n - 1)) c =? u8 (2 ^ n - 1)) then Ok (rest, N.land c (u8 (2 ^ n - 1)))
  else read_int_loop rest 1 0 (u8 (2 ^ n - 1)).
Proof. reflexivity. Qed.

Lemma read_int_loop_no_panic : forall bs i nn b0, is_panic (read_int_loop bs i nn b0) = false.
Proof.
  induction bs as [|x rest IH]; intros i nn b0; [reflexivity|].
  rewrite read_int_loop_cons.
  destruct (56 <? (i - 1) * 7); [reflexivity|].
  destruct (negb (N.land x 128 =? 128)); [reflexivity | apply IH].
Qed.

Lemma read_int_no_panic n b : is_panic (read_int n b) = false.
Proof.
  destruct b as [|c rest]; [reflexivity|]. rewrite read_int_cons.
  destruct (negb _); [reflexivity | apply read_int_loop_no_panic].
Qed.

(* the result is a proper suffix; appending input does not change a result, nor an overflow *)
Lemma read_int_loop_ok : forall bs i nn b0 rest v,
  read_int_loop bs i nn b0 = Ok (rest, v) ->
  exists pre, bs = pre ++ rest /\ pre <> [] /\
    forall y, read_int_loop (bs ++ y) i nn b0 = Ok (rest ++ y, v).
Proof.
  induction bs as [|x bs IH]; intros i nn b0 rest v H; [discriminate|].
  rewrite read_int_loop_cons in H.
  destruct (56 <? (i - 1) * 7) eqn:E1; [discriminate|].
  destruct (negb (N.land x 128 =? 128)) eqn:E2.
  - injection H as <- <-. exists [x]. split; [reflexivity|]. split; [discriminate|].
    intros y. cbn [app]. rewrite read_int_loop_cons, E1, E2. reflexivity.
  - destruct (IH _ _ _ _ _ H) as [pre [Hb [Hne Hy]]]. exists (x :: pre).
    split; [rewrite Hb; reflexivity|]. split; [discriminate|].
    intros y. cbn [app]. rewrite read_int_loop_cons, E1, E2. apply Hy.
Qed.

Lemma read_int_loop_err : forall bs i nn b0 e,
  read_int_loop bs i nn b0 = Err e ->
  e = E_unexpected_size \/ (e = E_int_overflow /\ forall y, read_int_loop (bs ++ y) i nn b0 = Err e).
Proof.
  induction bs as [|x bs IH]; intros i nn b0 e H.
  - injection H as <-. left. reflexivity.
  - rewrite read_int_loop_cons in H.
    destruct (56 <? (i - 1) * 7) eqn:E1.
    + injection H as <-. right. split; [reflexivity|]. intros y. cbn [app].
      rewrite read_int_loop_cons, E1. reflexivity.
    + destruct (negb (N.land x 128 =? 128)) eqn:E2; [discriminate|].
      destruct (IH _ _ _ _ H) as [Hl | [He Hy]]; [left; exact Hl|]. right. split; [exact He|].
      intros y. cbn [app]. rewrite read_int_loop_cons, E1, E2. apply Hy.
Qed.

Lemma read_int_ok n b rest v : read_int n b = Ok (rest, v) ->
  exists pre, b = pre ++ rest /\ pre <> [] /\ forall y, read_int n (b ++ y) = Ok (rest ++ y, v).
Proof.
  destruct b as [|c b]; [discriminate|]. rewrite read_int_cons.
  destruct (negb _) eqn:E; intros H.
  - injection H as <- <-. exists [c]. split; [reflexivity|]. split; [discriminate|].
    intros y. cbn [app]. rewrite read_int_cons, E. reflexivity.
  - destruct (read_int_loop_ok _ _ _ _ _ _ H) as [pre [Hb [Hne Hy]]]. exists (c :: pre).
    split; [rewrite Hb; reflexivity|]. split; [discriminate|].
    intros y. cbn [app]. rewrite read_int_cons, E. apply Hy.
Qed.

Lemma read_int_err n b e : read_int n b = Err e ->
  e = E_unexpected_size \/ (e = E_int_overflow /\ forall y, read_int n (b ++ y) = Err e).
Proof.
  destruct b as [|c b]; [intros H; injection H as <-; left; reflexivity|].
  rewrite read_int_cons. destruct (negb _) eqn:E; intros H; [discriminate|].
  destruct (read_int_loop_err _ _ _ _ _ H) as [Hl | [He Hy]]; [left; exact Hl|]. right.
  split; [exact He|]. intros y. cbn [app]. rewrite read_int_cons, E. apply Hy.
Qed.

Lemma read_int_ok_length n b rest v : read_int n b = Ok (rest, v) -> (length rest < length b)%nat.
Proof.
  intros H. destruct (read_int_ok _ _ _ _ H) as [pre [-> [Hne _]]]. rewrite app_length.
  destruct pre; [congruence | simpl; lia].
Qed.

(* ---- value: RFC 7541 5.1 ---- *)

Lemma land_127 x : N.land x 127 = x mod 128.
Proof. change 127 with (N.ones 7). rewrite N.land_ones. reflexivity. Qed.

Lemma pow2_pos m : 0 < 2 ^ m.
Proof. apply N.neq_0_lt_0. apply N.pow_nonzero. discriminate. Qed.

(* i is the 1-based number of the continuation octet, a the octets still allowed *)
Lemma read_int_loop_spec : forall bs a i nn b0,
  bytes_ok bs = true -> N.of_nat a + i = 10 -> 1 <= i -> nn < 2 ^ ((i - 1) * 7) -> b0 < 256 ->
  match dec_cont a bs ((i - 1) * 7) with
  | Some (w, r) => read_int_loop bs i nn b0 = Ok (r, nn + w + b0) /\ nn + w < 2 ^ 63
  | None => exists e, read_int_loop bs i nn b0 = Err e
  end.
Proof.
  induction bs as [|x bs IH]; intros a i nn b0 Hok Hai Hi Hnn Hb0.
  - destruct a; cbn [dec_cont]; exists E_unexpected_size; reflexivity.
  - apply bytes_ok_cons in Hok. destruct Hok as [Hx Hbs].
    rewrite read_int_loop_cons.
    destruct a as [|a].
    + cbn [dec_cont]. assert (i = 10) as -> by lia. exists E_int_overflow. reflexivity.
    + cbn [dec_cont].
      set (m := (i - 1) * 7) in *.
      assert (Hm : m <= 56) by (unfold m; lia).
      replace (56 <? m) with false by (symmetry; apply N.ltb_ge; exact Hm).
      assert (HP : 2 ^ (m + 7) = 2 ^ m * 128) by (rewrite N.pow_add_r; reflexivity).
      assert (HP63 : 2 ^ (m + 7) <= 2 ^ 63) by (apply N.pow_le_mono_r; lia).
      pose proof (pow2_pos m) as Hpos.
      rewrite land_127, dispatch_128 by exact Hx.
      assert (Hsh : shlw 64 (x mod 128) m = (x mod 128) * 2 ^ m).
      { unfold shlw, wrap. rewrite N.shiftl_mul_pow2. apply N.mod_small.
        assert (x mod 128 < 128) by (apply N.mod_lt; discriminate).
        change (2 ^ 64) with (2 * 2 ^ 63). nia. }
      rewrite Hsh, lor_low_shift by exact Hnn.
      destruct (N.ltb_spec x 128) as [Hlt|Hge].
      * replace (128 <=? x) with false by (symmetry; apply N.leb_gt; exact Hlt). cbn [negb].
        rewrite N.mod_small by exact Hlt.
        assert (nn + x * 2 ^ m < 2 ^ 63) by nia.
        split; [|assumption]. rewrite u64_small; [reflexivity|]. change (2 ^ 64) with (2 * 2 ^ 63). lia.
      * replace (128 <=? x) with true by (symmetry; apply N.leb_le; exact Hge). cbn [negb].
        assert (Hxm : x mod 128 = x - 128).
        { replace x with ((x - 128) + 1 * 128) at 1 by lia. rewrite N.mod_add by discriminate.
          apply N.mod_small. lia. }
        rewrite Hxm.
        assert (Hm' : (i + 1 - 1) * 7 = m + 7) by (unfold m; lia).
        assert (Hnn' : nn + (x - 128) * 2 ^ m < 2 ^ ((i + 1 - 1) * 7)) by (rewrite Hm', HP; nia).
        specialize (IH a (i + 1) (nn + (x - 128) * 2 ^ m) b0 Hbs ltac:(lia) ltac:(lia) Hnn' Hb0).
        rewrite Hm' in IH.
        destruct (dec_cont a bs (m + 7)) as [[v r]|].
        -- destruct IH as [IH1 IH2]. split; [|lia]. rewrite IH1. do 2 f_equal. lia.
        -- exact IH.
Qed.

Lemma ones_byte n : 1 <= n <= 8 -> u8 (2 ^ n - 1) = N.ones n /\ N.ones n = 2 ^ n - 1 /\ 2 ^ n <= 256.
Proof.
  intros Hn. assert (H : 2 ^ n <= 2 ^ 8) by (apply N.pow_le_mono_r; lia).
  change (2 ^ 8) with 256 in H. pose proof (pow2_pos n).
  rewrite N.ones_equiv, <- N.sub_1_r. split; [apply u8_small; lia|]. split; [reflexivity | exact H].
Qed.

Theorem read_int_spec n b : 1 <= n <= 8 -> bytes_ok b = true ->
  match spec_dec_int n b with
  | Some (v, rest) => read_int n b = Ok (rest, v) /\ v < 2 ^ 63 + 256
  | None => exists e, read_int n b = Err e
  end.
Proof.
  intros Hn Hok. destruct b as [|c b]; [exists E_unexpected_size; reflexivity|].
  apply bytes_ok_cons in Hok. destruct Hok as [Hc Hb].
  cbn [spec_dec_int]. rewrite read_int_cons.
  destruct (ones_byte n Hn) as [H1 [H2 H3]]. rewrite H1.
  rewrite (N.land_comm (N.ones n) c), N.land_ones, H2.
  assert (Hv : c mod 2 ^ n < 2 ^ n) by (apply N.mod_lt; apply N.pow_nonzero; discriminate).
  destruct (N.ltb_spec (c mod 2 ^ n) (2 ^ n - 1)) as [Hlt|Hge].
  - replace (c mod 2 ^ n =? 2 ^ n - 1) with false by (symmetry; apply N.eqb_neq; lia). cbn [negb].
    split; [reflexivity | lia].
  - replace (c mod 2 ^ n =? 2 ^ n - 1) with true by (symmetry; apply N.eqb_eq; lia). cbn [negb].
    pose proof (read_int_loop_spec b 9 1 0 (2 ^ n - 1) Hb eq_refl ltac:(lia) ltac:(cbn; lia) ltac:(lia)) as L.
    change ((1 - 1) * 7) with 0 in L. unfold max_cont_octets.
    destruct (dec_cont 9 b 0) as [[w r]|].
    + destruct L as [L1 L2]. rewrite L1. split; [do 2 f_equal; lia | lia].
    + exact L.
Qed.

(* a decoded integer is smaller than the first octet's prefix allows, or has continuation octets *)
Lemma spec_dec_int_prefix n c b v rest : 1 <= n -> spec_dec_int n (c :: b) = Some (v, rest) ->
  (v = 0 <-> c mod 2 ^ n = 0) .
Proof.
  intros Hn. cbn [spec_dec_int].
  assert (Hpos : 2 ^ 1 <= 2 ^ n) by (apply N.pow_le_mono_r; [discriminate | exact Hn]).
  change (2 ^ 1) with 2 in Hpos.
  destruct (N.ltb_spec (c mod 2 ^ n) (2 ^ n - 1)) as [Hlt|Hge].
  - intros H. injection H as <- <-. tauto.
  - destruct (dec_cont max_cont_octets b 0) as [[w r]|]; [|discriminate].
    intros H. injection H as <- <-. split; intros; lia.
Qed.
