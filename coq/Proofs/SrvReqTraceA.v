(* Proofs/SrvReqTraceA.v - C01, the trace-level statement for one request, part 1: vocabulary bridges.
   The statement of Props/C01.v speaks the language of Proofs/SrvIso*.v (ref_frames_fs, hfold, request_of); the
   lock-step run of a request from a `ready` state is proved in Proofs/SrvMsg*.v (block_dec, vrun, req_fold).
   Here: the two frame lists are the same, the two decoding relations agree when the decoder makes progress,
   and what hfold accepts is what the automaton vrun accepts. *)
From H2V Require Import Base.Bytes Base.MachineInt Base.Result Gen.GenConsts Impl.ServerConn
  Proofs.SrvBase Proofs.SrvMsgDefs Proofs.SrvMsgPure Proofs.SrvMsgStream
  Proofs.SrvIsoRef Proofs.SrvIsoSteps Proofs.SrvIsoHdr Proofs.SrvIsoRun.
From Coq Require Import ZArith Lia ZifyN ZifyNat ZifyBool List.
Import ListNotations.
Local Open Scope N_scope.

(* ---------- the frames of the statement (verbatim from Props/C01.v) ---------- *)
Definition conts1 (sid : N) : list bytes -> list sframe :=
  fix conts (l : list bytes) : list sframe :=
    match l with
    | [] => []
    | [f] => [mkSFrame KCont FL_EH sid (len f) f 0 0 0 false 0 false 0]
    | f :: t => mkSFrame KCont 0 sid (len f) f 0 0 0 false 0 false 0 :: conts t
    end.
Definition datas1 (sid : N) : list bytes -> list sframe :=
  fix datas (l : list bytes) : list sframe :=
    match l with
    | [] => []
    | [d] => [mkSFrame KData FL_ES sid (len d) d 0 0 0 false 0 false 0]
    | d :: t => mkSFrame KData 0 sid (len d) d 0 0 0 false 0 false 0 :: datas t
    end.
Definition req_frames1 (sid : N) (hfrags : list bytes) (chunks : list bytes) : list sframe :=
  match hfrags with
  | [] => []
  | f0 :: rest =>
    mkSFrame KHeaders ((if match rest with [] => true | _ => false end then FL_EH else 0) +
                       (if match chunks with [] => true | _ => false end then FL_ES else 0)) sid (len f0) f0 0 0 0 false 0 false 0 ::
    conts1 sid rest ++ datas1 sid chunks
  end.

Lemma conts1_eq sid l : conts1 sid l = cont_frames sid l.
Proof.
  induction l as [|f t IH]; [reflexivity|].
  destruct t as [|g t]; [reflexivity|].
  change (conts1 sid (f :: g :: t)) with (mkSFrame KCont 0 sid (len f) f 0 0 0 false 0 false 0 :: conts1 sid (g :: t)).
  rewrite IH. reflexivity.
Qed.

Lemma datas1_eq sid l : datas1 sid l = data_frames sid true l.
Proof.
  induction l as [|f t IH]; [reflexivity|].
  destruct t as [|g t]; [reflexivity|].
  change (datas1 sid (f :: g :: t)) with (mkSFrame KData 0 sid (len f) f 0 0 0 false 0 false 0 :: datas1 sid (g :: t)).
  rewrite IH. reflexivity.
Qed.

Lemma req_frames1_eq sid hfrags chunks : hfrags <> [] ->
  req_frames1 sid hfrags chunks = req_frames sid hfrags chunks None.
Proof.
  intro NE. destruct hfrags as [|f0 rest]; [congruence|].
  unfold req_frames1, req_frames, block_frames. rewrite conts1_eq, datas1_eq. cbn [app]. f_equal.
  destruct rest, chunks; reflexivity.
Qed.

(* the header-block fragments of the request are its HEADERS and CONTINUATION frames *)
Lemma filter_cont_frames sid l : sid <> 0 -> filter is_hdr_frame (cont_frames sid l) = cont_frames sid l.
Proof.
  intro NZ. induction l as [|f t IH]; [reflexivity|]. cbn [cont_frames filter].
  assert (E : is_hdr_frame (cont_frame sid (is_nil t) f) = true).
  { unfold is_hdr_frame, cont_frame. cbn [sf_sid sf_kind]. replace (sid =? 0) with false by lia. reflexivity. }
  rewrite E, IH. reflexivity.
Qed.
Lemma filter_data_frames sid es l : filter is_hdr_frame (data_frames sid es l) = [].
Proof.
  induction l as [|f t IH]; [reflexivity|]. cbn [data_frames filter].
  assert (E : is_hdr_frame (data_frame sid (es && is_nil t) f) = false).
  { unfold is_hdr_frame, data_frame. cbn [sf_sid sf_kind]. apply andb_false_r. }
  rewrite E, IH. reflexivity.
Qed.
Lemma filter_req_frames sid hfrags chunks : sid <> 0 ->
  filter is_hdr_frame (req_frames sid hfrags chunks None) = block_frames sid (is_nil chunks) hfrags.
Proof.
  intro NZ. unfold req_frames. rewrite filter_app, filter_data_frames, app_nil_r.
  destruct hfrags as [|f0 rest]; [reflexivity|]. cbn [block_frames filter].
  assert (E : is_hdr_frame (headers_frame sid (is_nil chunks) (is_nil rest) f0) = true).
  { unfold is_hdr_frame, headers_frame. cbn [sf_sid sf_kind]. replace (sid =? 0) with false by lia. reflexivity. }
  rewrite E, filter_cont_frames by exact NZ. reflexivity.
Qed.

(* ---------- the two decoding relations ---------- *)
Section Dec.
Variable hstate : Type.
Variable dec_field : hstate -> N -> bytes -> dec_res hstate.
(* every decoded field consumes input (for the real HPACK decoder: C03_next_field_progress) *)
Hypothesis progress : forall d n b k v rest d1, dec_field d n b = DField hstate k v rest d1 -> (length rest < length b)%nat.

Lemma ref_run_frag_dec eh d n b fs d' n' carry :
  ref_run dec_field eh d n b fs d' n' carry -> frag_dec dec_field eh d n b fs d' n' carry.
Proof.
  induction 1 as [d n|d n b d' Hb E|d n b d' Hb He E|d n b k v rest dm fs d' n' carry Hb E H IH].
  - constructor.
  - apply fd_none; assumption.
  - apply fd_short; assumption.
  - eapply fd_field; [exact Hb | exact E | eapply progress; exact E | exact IH].
Qed.

Lemma rff_nil_inv st0 fs st : ref_frames_fs dec_field st0 [] fs st -> fs = [] /\ st = st0.
Proof.
  intro H. inversion H as [|frs fr fs0 fs1 sa sb Ha Hb E]; [auto|]. destruct frs; discriminate.
Qed.

Lemma rff_cons_inv st0 fr frs fs st' :
  ref_frames_fs dec_field st0 (fr :: frs) fs st' ->
  exists st1 fs1 fs2,
    ref_run dec_field (eh_of fr) (fst (fst st0)) (if is_cont fr then snd (fst st0) else 0)
            ((if is_cont fr then snd st0 else []) ++ sf_payload fr) fs1 (fst (fst st1)) (snd (fst st1)) (snd st1) /\
    ref_frames_fs dec_field st1 frs fs2 st' /\ fs = fs1 ++ fs2.
Proof.
  intro H. remember (fr :: frs) as L eqn:EL. revert fr frs EL.
  induction H as [|frs0 fr0 fs0 fsx st st'' H IH R]; intros fr frs EL; [discriminate|].
  destruct frs0 as [|a frs0'].
  - cbn [app] in EL. inversion EL; subst fr0 frs. destruct (rff_nil_inv _ _ _ H) as [-> ->].
    exists st'', fsx, []. split; [exact R|]. split; [constructor | rewrite app_nil_r; reflexivity].
  - cbn [app] in EL. inversion EL; subst a frs.
    destruct (IH fr frs0' eq_refl) as (st1 & fs1 & fs2 & R1 & F2 & ->).
    exists st1, fs1, (fs2 ++ fsx). split; [exact R1|]. split; [|rewrite app_assoc; reflexivity].
    eapply rff_snoc; eassumption.
Qed.

Lemma conts_block_dec sid : forall frags, frags <> [] -> forall d n prev fs st',
  ref_frames_fs dec_field (d, n, prev) (cont_frames sid frags) fs st' -> snd st' = [] ->
  exists carries, block_dec dec_field d n prev frags fs (fst (fst st')) carries.
Proof.
  induction frags as [|f t IH]; intros NE d n prev fs st' H C; [congruence|].
  cbn [cont_frames] in H. destruct (rff_cons_inv _ _ _ _ _ H) as (st1 & fs1 & fs2 & R & F & ->).
  change (is_cont (cont_frame sid (is_nil t) f)) with true in R. cbn [fst snd sf_payload cont_frame] in R.
  assert (EH : eh_of (cont_frame sid (is_nil t) f) = is_nil t) by (unfold eh_of, cont_frame; cbn [sf_flags]; apply fl_has_eh).
  change (mkSFrame KCont (fl_of false (is_nil t)) sid (len f) f 0 0 0 false 0 false 0) with (cont_frame sid (is_nil t) f) in R.
  rewrite EH in R.
  destruct t as [|g t].
  - cbn [cont_frames is_nil] in *. destruct (rff_nil_inv _ _ _ F) as [-> ->]. rewrite C in R.
    exists []. rewrite app_nil_r. eapply bd_last. apply ref_run_frag_dec. exact R.
  - cbn [is_nil] in R. destruct st1 as [[d1 n1] c1]. cbn [fst snd] in *.
    destruct (IH ltac:(discriminate) d1 n1 c1 fs2 st' F C) as (carries & B).
    exists (c1 :: carries). eapply bd_more; [discriminate | apply ref_run_frag_dec; exact R | exact B].
Qed.

Lemma block_frames_block_dec sid es frags d fs st' : frags <> [] ->
  ref_frames_fs dec_field (d, 0, []) (block_frames sid es frags) fs st' -> snd st' = [] ->
  exists carries, block_dec dec_field d 0 [] frags fs (fst (fst st')) carries.
Proof.
  intros NE H C. destruct frags as [|f t]; [congruence|]. cbn [block_frames] in H.
  destruct (rff_cons_inv _ _ _ _ _ H) as (st1 & fs1 & fs2 & R & F & ->).
  change (is_cont (headers_frame sid es (is_nil t) f)) with false in R. cbn [fst snd sf_payload headers_frame] in R.
  assert (EH : eh_of (headers_frame sid es (is_nil t) f) = is_nil t) by (unfold eh_of, headers_frame; cbn [sf_flags]; apply fl_has_eh).
  change (mkSFrame KHeaders (fl_of es (is_nil t)) sid (len f) f 0 0 0 false 0 false 0) with (headers_frame sid es (is_nil t) f) in R.
  rewrite EH in R.
  destruct t as [|g t].
  - cbn [cont_frames is_nil] in *. destruct (rff_nil_inv _ _ _ F) as [-> ->]. rewrite C in R.
    exists []. rewrite app_nil_r. eapply bd_last. apply ref_run_frag_dec. exact R.
  - cbn [is_nil] in R. destruct st1 as [[d1 n1] c1]. cbn [fst snd] in *.
    destruct (conts_block_dec sid (g :: t) ltac:(discriminate) d1 n1 c1 fs2 st' F C) as (carries & B).
    exists (c1 :: carries). eapply bd_more; [discriminate | apply ref_run_frag_dec; exact R | exact B].
Qed.

End Dec.

(* ---------- what hfold accepts ---------- *)
Section Acc.
Variable cfg : config.

Lemma hfold_fields_loop fs : forall h,
  hfold cfg h fs = match fields_loop cfg h fs with inr h' => Some h' | inl _ => None end.
Proof.
  induction fs as [|[k v] t IH]; intro h; cbn [hfold fields_loop]; [reflexivity|].
  destruct (header_field cfg h k v); [reflexivity | apply IH].
Qed.

(* the header list is within the limit *)
Lemma hfold_size fs : forall h hF, hfold cfg h fs = Some hF -> list_over cfg (hd_headerListSize h) = false ->
  list_over cfg (hd_headerListSize h + fsize fs) = false.
Proof.
  induction fs as [|[k v] t IH]; intros h hF H L0.
  - cbn [fsize fold_right]. rewrite Z.add_0_r. exact L0.
  - cbn [hfold] in H. rewrite header_field_vstep in H. cbv zeta in H.
    destruct (list_over cfg (hd_headerListSize h + Z.of_N (len k) + Z.of_N (len v) + 32)) eqn:L1; [discriminate|].
    destruct (vstep cfg (vabs h) (classify k) v) as [code|st1]; [discriminate|].
    specialize (IH _ _ H). cbn [hdr_of hd_headerListSize] in IH. specialize (IH L1).
    rewrite fsize_cons. cbn [fst snd].
    replace (hd_headerListSize h + (Z.of_N (len k) + Z.of_N (len v) + 32 + fsize t))%Z
      with (hd_headerListSize h + Z.of_N (len k) + Z.of_N (len v) + 32 + fsize t)%Z by lia.
    exact IH.
Qed.

Lemma hfold_vrun fs h hF : hfold cfg h fs = Some hF -> list_over cfg (hd_headerListSize h) = false ->
  exists st', vrun cfg (vabs h) fs = inr st' /\
    hF = hdr_of h st' (hd_headerListSize h + fsize fs) (hd_blockFields h + N.of_nat (length fs)) (req_fold (hd_req h) fs).
Proof.
  intros H L0. pose proof (hfold_size fs h hF H L0) as L.
  rewrite hfold_fields_loop, (fields_loop_vrun cfg fs h L) in H.
  destruct (vrun cfg (vabs h) fs) as [code|st']; [discriminate|]. exists st'. split; [reflexivity|]. inversion H. reflexivity.
Qed.

End Acc.

(* ---------- ref_frames_fs by computation (for examples) ---------- *)
Section RffRun.
Variable hstate : Type.
Variable dec_field : hstate -> N -> bytes -> dec_res hstate.

Lemma rff_cons st0 fr frs fs1 fs2 st1 st' :
  ref_run dec_field (eh_of fr) (fst (fst st0)) (if is_cont fr then snd (fst st0) else 0)
          ((if is_cont fr then snd st0 else []) ++ sf_payload fr) fs1 (fst (fst st1)) (snd (fst st1)) (snd st1) ->
  ref_frames_fs dec_field st1 frs fs2 st' ->
  ref_frames_fs dec_field st0 (fr :: frs) (fs1 ++ fs2) st'.
Proof.
  intros R H. induction H as [|frs0 fr0 fs0 fsx st st'' H IH R2].
  - rewrite app_nil_r. change [fr] with ([] ++ [fr]). change fs1 with ([] ++ fs1). eapply rff_snoc; [constructor | exact R].
  - rewrite app_assoc. change (fr :: frs0 ++ [fr0]) with ((fr :: frs0) ++ [fr0]). eapply rff_snoc; [exact IH | exact R2].
Qed.

Fixpoint rff_run (st : hst hstate) (frs : list sframe) : option (list (bytes * bytes) * hst hstate) :=
  match frs with
  | [] => Some ([], st)
  | fr :: t =>
    match dec_block_ref dec_field (fst (fst st)) (if is_cont fr then snd (fst st) else 0)
                        (if is_cont fr then snd st else []) (sf_payload fr) (eh_of fr) with
    | ROk fs d' n' c' =>
      match rff_run (d', n', c') t with Some (fs2, st') => Some (fs ++ fs2, st') | None => None end
    | _ => None
    end
  end.

Lemma rff_run_sound frs : forall st fs st', rff_run st frs = Some (fs, st') -> ref_frames_fs dec_field st frs fs st'.
Proof.
  induction frs as [|fr t IH]; intros st fs st' H; cbn [rff_run] in H.
  - inversion H; subst. constructor.
  - destruct (dec_block_ref dec_field _ _ _ _ _) as [fs1 d' n' c'| | |] eqn:R; try discriminate.
    destruct (rff_run (d', n', c') t) as [[fs2 st2]|] eqn:R2; [|discriminate]. inversion H; subst.
    apply (rff_cons st fr t fs1 fs2 (d', n', c') st'); [cbn [fst snd]; apply dec_block_ref_sound; exact R | apply IH; exact R2].
Qed.
End RffRun.
