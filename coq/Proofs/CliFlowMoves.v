(* Proofs/CliFlowMoves.v - the client model of Impl/ClientConn.v decomposed, once, into a small alphabet of
   "moves" (C07, client halves of C14 and C18).

   A move is either a plain field update (ctxs, a flag, a queue) or one of the model's own flow-control
   functions taken whole (cl_add_window, cl_handle_settings, the DATA arm of readStream, one sendLck critical
   section of sendPending with the DATA run it decides (MSend), or with the chunk handed back to the connection window
   because the request was taken back (MSendBack), the HEADERS write of writeRequest, the RST_STREAM the write
   loop writes itself when a body's reader fails, MWlReset). `apply` interprets a
   move on a state, `valid` are the premises the model guarantees where it makes the move, `mvs c ms c'` says
   that c' is c after the moves ms, each valid where it is made. Every function of the model is shown to be
   such a sequence (`D P g c c'`: the moves all satisfy P, and the send-window grants among them are g); the
   step function is (step_mvs). Invariants are then proved by closure under the moves, once per invariant and
   not once per model function.

   Conventions: `hstate` is an implicit argument of every ClientConn definition that takes a connection. *)
From H2V Require Import Base.Bytes Base.MachineInt Base.Result Gen.GenConsts Impl.ServerConn Impl.ClientConn
     Proofs.CliDefs Spec.FlowLedger.
From Coq Require Import ZArith Lia ZifyN ZifyNat ZifyBool List Bool.
Import ListNotations.
Local Open Scope N_scope.
Set Default Proof Using "Type".

Arguments cc_ctxs {hstate}. Arguments cc_nextID {hstate}. Arguments cc_open {hstate}.
Arguments cc_maxStreams {hstate}. Arguments cc_maxFrame {hstate}. Arguments cc_goAway {hstate}.
Arguments cc_closed {hstate}. Arguments cc_closing {hstate}. Arguments cc_netClosed {hstate}.
Arguments cc_writeFail {hstate}. Arguments cc_enc {hstate}. Arguments cc_encTableSize {hstate}.
Arguments cc_encTableSeen {hstate}. Arguments cc_dec {hstate}. Arguments cc_currentWindow {hstate}.
Arguments cc_serverS {hstate}. Arguments cc_hdrStream {hstate}. Arguments cc_hdrPrev {hstate}.
Arguments cc_hdrFields {hstate}. Arguments cc_hdrEndStream {hstate}. Arguments cc_hdrRegularSeen {hstate}.
Arguments cc_hdrStatus {hstate}. Arguments cc_hdrErr {hstate}. Arguments cc_stateClosed {hstate}.
Arguments cc_closeRef {hstate}. Arguments cc_reqQueued {hstate}. Arguments cc_pending {hstate}.
Arguments cc_connWindow {hstate}. Arguments cc_streamWindow {hstate}. Arguments cc_inQ {hstate}.
Arguments cc_outQ {hstate}. Arguments cc_winCh {hstate}. Arguments cc_lastErr {hstate}.
Arguments cc_unacks {hstate}. Arguments cc_rl_done {hstate}. Arguments cc_wl_done {hstate}.
Arguments cc_rl_stuck {hstate}. Arguments cc_wl_stuck {hstate}. Arguments cc_out {hstate}.
Arguments ccu_ctxs {hstate}. Arguments ccu_nextID {hstate}. Arguments ccu_open {hstate}.
Arguments ccu_maxStreams {hstate}. Arguments ccu_maxFrame {hstate}. Arguments ccu_goAway {hstate}.
Arguments ccu_closed {hstate}. Arguments ccu_closing {hstate}. Arguments ccu_netClosed {hstate}.
Arguments ccu_writeFail {hstate}. Arguments ccu_enc {hstate}. Arguments ccu_encTableSize {hstate}.
Arguments ccu_encTableSeen {hstate}. Arguments ccu_dec {hstate}. Arguments ccu_currentWindow {hstate}.
Arguments ccu_serverS {hstate}. Arguments ccu_hdrStream {hstate}. Arguments ccu_hdrPrev {hstate}.
Arguments ccu_hdrFields {hstate}. Arguments ccu_hdrEndStream {hstate}. Arguments ccu_hdrRegularSeen {hstate}.
Arguments ccu_hdrStatus {hstate}. Arguments ccu_hdrErr {hstate}. Arguments ccu_stateClosed {hstate}.
Arguments ccu_closeRef {hstate}. Arguments ccu_reqQueued {hstate}. Arguments ccu_pending {hstate}.
Arguments ccu_connWindow {hstate}. Arguments ccu_streamWindow {hstate}. Arguments ccu_inQ {hstate}.
Arguments ccu_outQ {hstate}. Arguments ccu_winCh {hstate}. Arguments ccu_lastErr {hstate}.
Arguments ccu_unacks {hstate}. Arguments ccu_rl_done {hstate}. Arguments ccu_wl_done {hstate}.
Arguments ccu_rl_stuck {hstate}. Arguments ccu_wl_stuck {hstate}. Arguments ccu_out {hstate}.
Arguments cl_note {hstate}. Arguments cl_notes {hstate}. Arguments cl_can_write {hstate}.
Arguments cl_ctx_get {hstate}. Arguments cl_ctx_put {hstate}. Arguments cl_ctx_upd {hstate}.
Arguments cl_resolve {hstate}. Arguments cl_resolve_all {hstate}. Arguments cl_set_last_err {hstate}.
Arguments cl_close_err {hstate}. Arguments cl_req_del {hstate}. Arguments cl_take_req_count {hstate}.
Arguments cl_write_out {hstate}. Arguments cl_signal_window {hstate}. Arguments cl_close_begin {hstate}.
Arguments cl_close_net {hstate}. Arguments cl_conn_close {hstate}. Arguments cl_acquire_for {hstate}.
Arguments cl_go_stuck {hstate}. Arguments cl_close_body {hstate}. Arguments cl_delete_pending {hstate}.
Arguments cl_cancel_stream {hstate}. Arguments cl_apply_initial_window {hstate}. Arguments cl_add_window {hstate}.
Arguments cl_send_pending {hstate}. Arguments cl_send_fuel {hstate}. Arguments cl_flush_pending {hstate}.
Arguments cl_pending_order {hstate}. Arguments cl_can_open_stream {hstate}. Arguments cl_enc_req_fields {hstate}.
Arguments cl_request_block {hstate}. Arguments cl_write_request {hstate}. Arguments cl_wl_exit {hstate}.
Arguments cl_wl_after {hstate}. Arguments cl_wl_in {hstate}. Arguments cl_wl_out {hstate}.
Arguments cl_wl_win {hstate}. Arguments cl_wl_ping {hstate}. Arguments cl_wl_done {hstate}.
Arguments cl_rl_exit {hstate}. Arguments cl_rl_fail {hstate}. Arguments cl_rl_panic {hstate}.
Arguments cl_handle_settings {hstate}. Arguments cl_finish {hstate}. Arguments cl_gone_away {hstate}.
Arguments cl_goaway_fail {hstate}. Arguments cl_goaway {hstate}. Arguments cl_update_window {hstate}.
Arguments cl_hdr_loop {hstate}. Arguments cl_read_header_fragment {hstate}. Arguments cl_read_stream {hstate}.
Arguments cl_dispatch {hstate}. Arguments cl_rl_frame {hstate}. Arguments cl_rl_step {hstate}.
Arguments cl_submit {hstate}. Arguments cl_submit_check {hstate}. Arguments cl_receive {hstate}.
Arguments cl_timeout_fire {hstate}. Arguments cl_timeout_cancel {hstate}. Arguments cl_close_call {hstate}.
Arguments cl_close_finish {hstate}. Arguments cl_wl_live {hstate}. Arguments cl_rl_live {hstate}.
Arguments cl_step {hstate}. Arguments cl_init {hstate}. Arguments cl_run {hstate}. Arguments cl_trace {hstate}.
Arguments mkCConn {hstate}.

(* projections of setters by computation *)
Ltac cc_cbn := cbn [cc_ctxs cc_nextID cc_open cc_maxStreams cc_maxFrame cc_goAway cc_closed cc_closing cc_netClosed cc_writeFail cc_enc cc_encTableSize cc_encTableSeen cc_dec cc_currentWindow cc_serverS cc_hdrStream cc_hdrPrev cc_hdrFields cc_hdrEndStream cc_hdrRegularSeen cc_hdrStatus cc_hdrErr cc_stateClosed cc_closeRef cc_reqQueued cc_pending cc_connWindow cc_streamWindow cc_inQ cc_outQ cc_winCh cc_lastErr cc_unacks cc_rl_done cc_wl_done cc_rl_stuck cc_wl_stuck cc_out ccu_ctxs ccu_nextID ccu_open ccu_maxStreams ccu_maxFrame ccu_goAway ccu_closed ccu_closing ccu_netClosed ccu_writeFail ccu_enc ccu_encTableSize ccu_encTableSeen ccu_dec ccu_currentWindow ccu_serverS ccu_hdrStream ccu_hdrPrev ccu_hdrFields ccu_hdrEndStream ccu_hdrRegularSeen ccu_hdrStatus ccu_hdrErr ccu_stateClosed ccu_closeRef ccu_reqQueued ccu_pending ccu_connWindow ccu_streamWindow ccu_inQ ccu_outQ ccu_winCh ccu_lastErr ccu_unacks ccu_rl_done ccu_wl_done ccu_rl_stuck ccu_wl_stuck ccu_out cl_note fst snd].
Ltac cc_cbn_in H := cbn [cc_ctxs cc_nextID cc_open cc_maxStreams cc_maxFrame cc_goAway cc_closed cc_closing cc_netClosed cc_writeFail cc_enc cc_encTableSize cc_encTableSeen cc_dec cc_currentWindow cc_serverS cc_hdrStream cc_hdrPrev cc_hdrFields cc_hdrEndStream cc_hdrRegularSeen cc_hdrStatus cc_hdrErr cc_stateClosed cc_closeRef cc_reqQueued cc_pending cc_connWindow cc_streamWindow cc_inQ cc_outQ cc_winCh cc_lastErr cc_unacks cc_rl_done cc_wl_done cc_rl_stuck cc_wl_stuck cc_out ccu_ctxs ccu_nextID ccu_open ccu_maxStreams ccu_maxFrame ccu_goAway ccu_closed ccu_closing ccu_netClosed ccu_writeFail ccu_enc ccu_encTableSize ccu_encTableSeen ccu_dec ccu_currentWindow ccu_serverS ccu_hdrStream ccu_hdrPrev ccu_hdrFields ccu_hdrEndStream ccu_hdrRegularSeen ccu_hdrStatus ccu_hdrErr ccu_stateClosed ccu_closeRef ccu_reqQueued ccu_pending ccu_connWindow ccu_streamWindow ccu_inQ ccu_outQ ccu_winCh ccu_lastErr ccu_unacks ccu_rl_done ccu_wl_done ccu_rl_stuck ccu_wl_stuck ccu_out cl_note fst snd] in H.
Ltac cc_cbn_all := cbn [cc_ctxs cc_nextID cc_open cc_maxStreams cc_maxFrame cc_goAway cc_closed cc_closing cc_netClosed cc_writeFail cc_enc cc_encTableSize cc_encTableSeen cc_dec cc_currentWindow cc_serverS cc_hdrStream cc_hdrPrev cc_hdrFields cc_hdrEndStream cc_hdrRegularSeen cc_hdrStatus cc_hdrErr cc_stateClosed cc_closeRef cc_reqQueued cc_pending cc_connWindow cc_streamWindow cc_inQ cc_outQ cc_winCh cc_lastErr cc_unacks cc_rl_done cc_wl_done cc_rl_stuck cc_wl_stuck cc_out ccu_ctxs ccu_nextID ccu_open ccu_maxStreams ccu_maxFrame ccu_goAway ccu_closed ccu_closing ccu_netClosed ccu_writeFail ccu_enc ccu_encTableSize ccu_encTableSeen ccu_dec ccu_currentWindow ccu_serverS ccu_hdrStream ccu_hdrPrev ccu_hdrFields ccu_hdrEndStream ccu_hdrRegularSeen ccu_hdrStatus ccu_hdrErr ccu_stateClosed ccu_closeRef ccu_reqQueued ccu_pending ccu_connWindow ccu_streamWindow ccu_inQ ccu_outQ ccu_winCh ccu_lastErr ccu_unacks ccu_rl_done ccu_wl_done ccu_rl_stuck ccu_wl_stuck ccu_out cl_note fst snd] in *.

(* lia, without letting it capture the HPACK coder or the configuration (section variables) *)
Ltac flia :=
  repeat match goal with
         | H : ?h -> N -> bytes -> dec_res ?h |- _ => clear H
         | H : ?h -> bytes -> bytes -> bool -> bytes * ?h |- _ => clear H
         | H : ?h -> N -> ?h |- _ => clear H
         | H : cl_config |- _ => clear H
         end; lia.

(* ---------- int32 ---------- *)
Lemma cl_i32_id z : (-2147483648 <= z <= 2147483647)%Z -> cl_i32 z = z.
Proof.
  intro H. unfold cl_i32, signed, of_signed.
  change (2 ^ 32)%N with 4294967296%N. change (2 ^ (32 - 1))%N with 2147483648%N.
  change (Z.of_N 4294967296) with 4294967296%Z.
  assert (M : (0 <= z mod 4294967296 < 4294967296)%Z) by (apply Z.mod_pos_bound; lia).
  rewrite N.mod_small by lia.
  destruct (Z.to_N (z mod 4294967296) <? 2147483648)%N eqn:E.
  - apply N.ltb_lt in E. rewrite Z2N.id by lia.
    destruct (Z_lt_le_dec z 0).
    + exfalso. assert (z mod 4294967296 = z + 4294967296)%Z.
      { symmetry. apply Z.mod_unique with (q := (-1)%Z); lia. } lia.
    + apply Z.mod_small. lia.
  - apply N.ltb_ge in E. rewrite Z2N.id by lia.
    destruct (Z_lt_le_dec z 0).
    + assert (z mod 4294967296 = z + 4294967296)%Z.
      { symmetry. apply Z.mod_unique with (q := (-1)%Z); lia. } lia.
    + exfalso. rewrite Z.mod_small in E by lia. lia.
Qed.
Lemma cl_i32_range z : (-2147483648 <= cl_i32 z <= 2147483647)%Z.
Proof.
  unfold cl_i32, signed, of_signed.
  change (2 ^ 32)%N with 4294967296%N. change (2 ^ (32 - 1))%N with 2147483648%N.
  change (Z.of_N 4294967296) with 4294967296%Z.
  assert (M : (0 <= z mod 4294967296 < 4294967296)%Z) by (apply Z.mod_pos_bound; lia).
  rewrite N.mod_small by lia.
  destruct (Z.to_N (z mod 4294967296) <? 2147483648)%N eqn:E.
  - apply N.ltb_lt in E. lia.
  - apply N.ltb_ge in E. lia.
Qed.

(* ---------- pieces of the model named for the moves ---------- *)

(* the items a goroutine notes itself (never a frame taken from c.out, never HEADERS or DATA) *)
Definition quietb (o : coutev) : bool :=
  match o with
  | COResult _ _ _ _ | COPoolPut _ | COBodyClosed _ | COSelfDeadlock _ _ | COBlocked _ _ | COExit _ _ | COPanic _
  | COGoAway _ _ | COPing => true
  | _ => false
  end.
(* the frames writeOut queues one at a time (WINDOW_UPDATE and the SETTINGS ACK are queued by moves of their own) *)
Definition pushb (o : coutev) : bool := match o with CORst _ _ | COPingAck _ => true | _ => false end.

(* `len(pb.body) == 0 && pb.stream != nil && !pb.drained` *)
Definition refill_cond (pb : cpending) : bool :=
  cl_is_nil (pb_body pb) && match pb_stream pb with Some _ => true | None => false end && negb (pb_drained pb).

(* the SETTINGS_INITIAL_WINDOW_SIZE values of a SETTINGS payload, in order, as ledger events *)
Definition inits_of (d : bytes) : list levent :=
  flat_map (fun kv => if fst kv =? c_MaxWindowSize then [LInit (Z.of_N (snd kv))] else []) (settings_pairs d).

Section Moves.
Variable hstate : Type.
Variable enc_field : hstate -> bytes -> bytes -> bool -> bytes * hstate.
Variable enc_set_max : hstate -> N -> hstate.
Notation cconn := (cconn hstate).

(* one sendLck critical section of sendPending on the pending body pb of stream id *)
Definition cs_n (c : cconn) (pb : cpending) : Z :=
  let n0 := cl_zmin (cl_zmin (Z.of_N (len (pb_body pb))) (pb_window pb)) (cc_connWindow c) in
  if (n0 <? 0)%Z then 0%Z else n0.
Definition cs_chunk (c : cconn) (pb : cpending) : bytes := takeN (Z.to_N (cs_n c pb)) (pb_body pb).
Definition cs_pb (c : cconn) (pb : cpending) : cpending :=
  pbu_body (pbu_window pb (cl_i32 (pb_window pb - cs_n c pb))) (dropN (Z.to_N (cs_n c pb)) (pb_body pb)).
Definition cs_end (c : cconn) (pb : cpending) : bool := negb (cl_has_more (cs_pb c pb)).
Definition cs_conn (c : cconn) (pb : cpending) (id : N) : cconn :=
  let c1 := ccu_connWindow c (cl_i32 (cc_connWindow c - cs_n c pb)) in
  ccu_pending c1 (if cs_end c pb then cl_pend_del (cc_pending c1) id else cl_pend_put (cc_pending c1) (cs_pb c pb)).

(* the critical section of a request that has been taken back: the chunk goes back to the connection window
   (addWindow(0, n)) and deletePending takes what is left of the body off c.pending *)
Definition send_back (c : cconn) (pb : cpending) (id : N) : cconn :=
  let c2 := cs_conn c pb id in
  let c2' := if (0 <? cs_n c pb)%Z then cl_add_window c2 0 (cs_n c pb) else c2 in
  match cl_pend_get (cc_pending c2') id with
  | Some _ => ccu_pending c2' (cl_pend_del (cc_pending c2') id)
  | None => c2'
  end.

(* the connection's part of the DATA arm of readStream; has_res: somebody is waiting for the response *)
Definition recv_data (c : cconn) (fr : sframe) (has_res : bool) : cconn :=
  let cur := cl_i32 (cc_currentWindow c - Z.of_N (sf_len fr)) in
  let c1 := ccu_currentWindow c cur in
  let ended := flag_has (sf_flags fr) FL_ES in
  let c2 := if has_res then
              if negb (sf_len fr =? 0) && negb ended then cl_update_window c1 (sf_sid fr) (Z.of_N (sf_len fr)) else c1
            else c1 in
  if (cur <? cl_maxWindow / 2)%Z
  then cl_update_window (ccu_currentWindow c2 cl_maxWindow) 0 (cl_maxWindow - cur)
  else c2.

Inductive move : Type :=
| MCtxs (l : list cctx)
| MNote (o : coutev)
| MClosed | MClosing (b : bool) | MNetClosed | MWriteFail
| MWlDone | MRlDone | MRlStuck | MWlStuck
| MLastErr (e : option cerr) | MUnacks (z : Z)
| MGoAway (last : N)
| MReqTake (id : N) | MReqAdd (tag : N) | MReqKeep (last : N) | MOpenDec | MReqClear
| MInQPush (tag : N) | MInQPop | MQClear
| MOutQPush (o : coutev) | MWlWrite | MWlReset (id : N) | MOutQDrop
| MWinCh
| MRlPriv (hs : N) (hp : bytes) (hf : N) (he hr : bool) (hst : Z) (herr : option cerr) (d : hstate)
| MRecvData (fr : sframe) (has_res : bool)
| MSettings (payload : bytes)
| MAddWindow (sid : N) (inc : Z)
| MPendDel (id : N)
| MPendAddDel (pb : cpending)
| MRefill (id : N)
| MSend (id : N) (wr : bool)
| MSendBack (id : N)
| MEncSync
| MEnc (rq : crequest)
| MNextID
| MHeaders (blk : bytes) (opb : option cpending).

Definition apply (m : move) (c : cconn) : cconn :=
  match m with
  | MCtxs l => ccu_ctxs c l
  | MNote o => if quietb o then cl_note c o else c
  | MClosed => ccu_closed c true
  | MClosing b => ccu_closing c b
  | MNetClosed => ccu_netClosed c true
  | MWriteFail => ccu_writeFail c true
  | MWlDone => ccu_wl_done c true
  | MRlDone => ccu_rl_done c true
  | MRlStuck => ccu_rl_stuck c true
  | MWlStuck => ccu_wl_stuck c true
  | MLastErr e => ccu_lastErr c e
  | MUnacks z => ccu_unacks c z
  | MGoAway last => ccu_closeRef (ccu_stateClosed (ccu_goAway c true) true) last
  | MReqTake id => cl_take_req_count c id
  | MReqAdd tag => ccu_open (ccu_reqQueued c (cc_reqQueued c ++ [(cc_nextID c, tag)])) (cc_open c + 1)%Z
  | MReqKeep last => ccu_reqQueued c (filter (fun e => negb (last <? fst e)) (cc_reqQueued c))
  | MOpenDec => ccu_open c (cc_open c - 1)%Z
  | MReqClear => ccu_reqQueued c []
  | MInQPush tag => ccu_inQ c (cc_inQ c ++ [tag])
  | MInQPop => ccu_inQ c (tl (cc_inQ c))
  | MQClear => ccu_outQ (ccu_inQ c []) []
  | MOutQPush o => if pushb o then cl_write_out c o else c
  | MWlWrite => match cc_outQ c with [] => c | o :: q => cl_note (ccu_outQ c q) o end
  | MWlReset id => cl_note c (CORst id c_InternalError)
  | MOutQDrop => ccu_outQ c (tl (cc_outQ c))
  | MWinCh => ccu_winCh c false
  | MRlPriv hs hp hf he hr hst herr d =>
    ccu_dec (ccu_hdrErr (ccu_hdrStatus (ccu_hdrRegularSeen (ccu_hdrEndStream (ccu_hdrFields (ccu_hdrPrev (ccu_hdrStream c hs) hp) hf) he) hr) hst) herr) d
  | MRecvData fr has_res => recv_data c fr has_res
  | MSettings payload =>
    match cl_settings_deserialize false payload with Some st => cl_handle_settings c st | None => c end
  | MAddWindow sid inc => cl_add_window c sid inc
  | MPendDel id => ccu_pending c (cl_pend_del (cc_pending c) id)
  | MPendAddDel pb => ccu_pending c (cl_pend_del (cc_pending c ++ [pb]) (pb_id pb))
  | MRefill id =>
    match cl_pend_get (cc_pending c) id with
    | Some pb => match cl_refill pb with
                 | Some pb' => ccu_pending c (cl_pend_put (cc_pending c) pb')
                 | None => c
                 end
    | None => c
    end
  | MSend id wr =>
    match cl_pend_get (cc_pending c) id with
    | Some pb =>
      let c2 := cs_conn c pb id in
      if wr then cl_notes c2 (cl_write_data (cc_maxFrame c2) id (cs_chunk c pb) (cs_end c pb)) else c2
    | None => c
    end
  | MSendBack id =>
    (* the critical section, then addWindow(0, n): nothing of the chunk goes out; and deletePending takes the body,
       if it is still there, off c.pending *)
    match cl_pend_get (cc_pending c) id with
    | Some pb => send_back c pb id
    | None => c
    end
  | MEncSync =>
    if negb (cc_encTableSize c =? cc_encTableSeen c)
    then ccu_enc (ccu_encTableSeen c (cc_encTableSize c)) (enc_set_max (cc_enc c) (cc_encTableSize c))
    else c
  | MEnc rq => ccu_enc c (snd (cl_request_block enc_field (cc_enc c) rq))
  | MNextID => ccu_nextID c (u32 (cc_nextID c + 2))
  | MHeaders blk opb =>
    let c1 := ccu_nextID c (u32 (cc_nextID c + 2)) in
    let c2 := match opb with Some pb => ccu_pending c1 (cc_pending c1 ++ [pb]) | None => c1 end in
    cl_note c2 (COHeaders (cc_nextID c) (match opb with Some _ => false | None => true end) blk)
  end.

(* what the model guarantees where it makes the move *)
Definition valid (m : move) (c : cconn) : Prop :=
  match m with
  | MReqAdd _ => cl_can_open_stream c = true /\ cc_nextID c <= cl_maxStreamID
  | MNextID => cc_nextID c <= cl_maxStreamID
  | MHeaders blk opb =>
    cl_can_write c = true /\ cc_nextID c <= cl_maxStreamID /\ cc_goAway c = false /\
    (cc_open c <= Z.of_N (cc_maxStreams c))%Z /\
    (exists tag, In (cc_nextID c, tag) (cc_reqQueued c)) /\
    (forall pb, opb = Some pb -> pb_id pb = cc_nextID c /\ pb_window pb = cc_streamWindow c) /\
    cc_encTableSeen c = cc_encTableSize c
  | MPendAddDel pb => pb_id pb = cc_nextID c /\ cc_nextID c <= cl_maxStreamID
  | MRefill id =>
    exists pb pb', cl_pend_get (cc_pending c) id = Some pb /\ refill_cond pb = true /\ cl_refill pb = Some pb'
  | MSend id wr =>
    exists pb, cl_pend_get (cc_pending c) id = Some pb /\ refill_cond pb = false /\
               (wr = true -> cl_can_write c = true /\ ((cs_n c pb =? 0)%Z && negb (cs_end c pb)) = false)
  | MSendBack id => exists pb, cl_pend_get (cc_pending c) id = Some pb /\ refill_cond pb = false
  | MWlWrite => cl_can_write c = true /\ cc_outQ c <> []
  | MWlReset _ => cl_can_write c = true
  | MOutQDrop => cl_can_write c = false
  | MEnc _ => cc_encTableSeen c = cc_encTableSize c
  | MQClear => cc_closed c = true
  | MReqKeep _ | MOpenDec => cc_goAway c = true
  | _ => True
  end.

Inductive mvs : cconn -> list move -> cconn -> Prop :=
| mvs_nil c : mvs c [] c
| mvs_cons c m ms c' : valid m c -> mvs (apply m c) ms c' -> mvs c (m :: ms) c'.

Lemma mvs_app a la b lb c : mvs a la b -> mvs b lb c -> mvs a (la ++ lb) c.
Proof. induction 1; cbn [app]; [auto|]. intro. constructor; auto. Qed.

Lemma mvs_one m c : valid m c -> mvs c [m] (apply m c).
Proof. intro. constructor; [assumption|constructor]. Qed.

(* the send-window grants a move stands for, as the server's ledger counts them *)
Definition grants_of (m : move) : list levent :=
  match m with
  | MAddWindow sid inc => [LGrant sid inc]
  | MSettings payload =>
    match cl_settings_deserialize false payload with Some _ => inits_of payload | None => [] end
  | _ => []
  end.

(* the DATA frames a move debits from the receive window *)
Definition rdatas_of (m : move) : list sframe := match m with MRecvData fr _ => [fr] | _ => [] end.

(* DD P g r c c': c' is c after moves that all satisfy P, whose send-window grants are g and whose debited DATA
   frames are r; D: no DATA frame is debited *)
Definition DD (P : move -> Prop) (g : list levent) (r : list sframe) (c c' : cconn) : Prop :=
  exists ms, mvs c ms c' /\ Forall P ms /\ flat_map grants_of ms = g /\ flat_map rdatas_of ms = r.
Definition D (P : move -> Prop) (g : list levent) (c c' : cconn) : Prop := DD P g [] c c'.

Lemma DD_refl P c : DD P [] [] c c.
Proof. exists []. repeat split; constructor. Qed.

Lemma DD_trans P g1 g2 r1 r2 a b c : DD P g1 r1 a b -> DD P g2 r2 b c -> DD P (g1 ++ g2) (r1 ++ r2) a c.
Proof.
  intros (m1 & A1 & F1 & G1 & R1) (m2 & A2 & F2 & G2 & R2). exists (m1 ++ m2). split; [eapply mvs_app; eassumption|].
  split; [apply Forall_app; auto|]. rewrite !flat_map_app. split; congruence.
Qed.

Lemma DD_one (P : move -> Prop) m c : valid m c -> P m -> DD P (grants_of m) (rdatas_of m) c (apply m c).
Proof.
  intros V H. exists [m]. split; [apply mvs_one; assumption|]. split; [repeat constructor; assumption|].
  cbn [flat_map]. rewrite !app_nil_r. split; reflexivity.
Qed.

Lemma DD_weaken (P Q : move -> Prop) g r c c' : (forall m, P m -> Q m) -> DD P g r c c' -> DD Q g r c c'.
Proof.
  intros I (ms & A & F & G). exists ms. split; [assumption|]. split; [|assumption].
  eapply Forall_impl; eassumption.
Qed.

Lemma DD_eq P g r c c' c'' : c' = c'' -> DD P g r c c' -> DD P g r c c''.
Proof. intros ->. auto. Qed.

Lemma D_refl P c : D P [] c c.
Proof. apply DD_refl. Qed.

Lemma D_trans P g1 g2 a b c : D P g1 a b -> D P g2 b c -> D P (g1 ++ g2) a c.
Proof. intros X Y. exact (DD_trans P g1 g2 [] [] a b c X Y). Qed.

Lemma D_trans0 P g a b c : D P [] a b -> D P g b c -> D P g a c.
Proof. intros. change g with ([] ++ g). eapply D_trans; eassumption. Qed.

Lemma D_one (P : move -> Prop) m c : valid m c -> P m -> rdatas_of m = [] -> D P (grants_of m) c (apply m c).
Proof. intros V H R. unfold D. rewrite <- R. apply DD_one; assumption. Qed.

Lemma D_weaken (P Q : move -> Prop) g c c' : (forall m, P m -> Q m) -> D P g c c' -> D Q g c c'.
Proof. apply DD_weaken. Qed.

Lemma D_eq P g c c' c'' : c' = c'' -> D P g c c' -> D P g c c''.
Proof. intros ->. auto. Qed.

End Moves.

Arguments MCtxs {hstate}. Arguments MNote {hstate}. Arguments MClosed {hstate}. Arguments MClosing {hstate}.
Arguments MNetClosed {hstate}. Arguments MWriteFail {hstate}. Arguments MWlDone {hstate}. Arguments MRlDone {hstate}.
Arguments MRlStuck {hstate}. Arguments MWlStuck {hstate}. Arguments MLastErr {hstate}. Arguments MUnacks {hstate}.
Arguments MGoAway {hstate}. Arguments MReqTake {hstate}. Arguments MReqAdd {hstate}. Arguments MReqKeep {hstate}.
Arguments MOpenDec {hstate}. Arguments MReqClear {hstate}. Arguments MInQPush {hstate}. Arguments MInQPop {hstate}.
Arguments MQClear {hstate}. Arguments MOutQPush {hstate}. Arguments MWlWrite {hstate}. Arguments MWlReset {hstate}. Arguments MOutQDrop {hstate}.
Arguments MWinCh {hstate}. Arguments MRlPriv {hstate}. Arguments MRecvData {hstate}. Arguments MSettings {hstate}.
Arguments MAddWindow {hstate}. Arguments MPendDel {hstate}. Arguments MPendAddDel {hstate}. Arguments MRefill {hstate}.
Arguments MSend {hstate}. Arguments MSendBack {hstate}. Arguments MEncSync {hstate}. Arguments MEnc {hstate}. Arguments MNextID {hstate}. Arguments MHeaders {hstate}.
Arguments cs_n {hstate}. Arguments cs_chunk {hstate}. Arguments cs_pb {hstate}. Arguments cs_end {hstate}. Arguments cs_conn {hstate}. Arguments send_back {hstate}.
Arguments recv_data {hstate}. Arguments grants_of {hstate}.
Arguments mvs {hstate}. Arguments D {hstate}. Arguments DD {hstate}. Arguments rdatas_of {hstate}.

(* the eight shapes of send_back c pb id, for the frame lemmas about MSendBack *)
Ltac sb_cases c pb :=
  unfold send_back, cl_add_window, cl_signal_window, cs_conn; cbn [N.eqb];
  destruct (0 <? cs_n c pb)%Z; destruct (cs_end c pb); cc_cbn;
  match goal with |- context [match cl_pend_get ?l ?i with _ => _ end] => destruct (cl_pend_get l i) end.

(* ---------- which goroutine makes which move ---------- *)

Definition is_rl (e : cevent) : Prop := match e with CEvRL _ => True | _ => False end.
Definition is_wl (e : cevent) : Prop :=
  match e with CEvWLIn | CEvWLOut | CEvWLWin _ | CEvWLPing | CEvWLDone => True | _ => False end.

(* the two select cases of the write loop that send request bodies *)
Definition is_wlf (e : cevent) : Prop := match e with CEvWLIn | CEvWLWin _ => True | _ => False end.

(* moves any goroutine makes *)
Definition anym {hstate} (m : move hstate) : Prop :=
  match m with
  | MCtxs _ | MNote _ | MClosed | MClosing _ | MNetClosed | MWriteFail | MLastErr _ | MUnacks _ | MReqTake _ | MReqClear
  | MInQPush _ | MOutQPush _ | MPendDel _ | MRlStuck | MWlStuck => True
  | _ => False
  end.

(* the moves of the step for event e *)
Definition ev_ok {hstate} (e : cevent) (m : move hstate) : Prop :=
  match m with
  | MAddWindow sid inc =>
    exists fr, e = CEvRL (RFrame fr) /\ sf_kind fr = KWinUpd /\ sid = sf_sid fr /\ inc = Z.of_N (sf_inc fr)
  | MSettings p =>
    exists fr, e = CEvRL (RFrame fr) /\ sf_kind fr = KSettings /\ sf_sid fr = 0 /\
               flag_has (sf_flags fr) FL_ES = false /\ p = sf_payload fr
  | MRecvData fr _ => e = CEvRL (RFrame fr) /\ sf_kind fr = KData /\ sf_sid fr <> 0
  | MRlPriv _ _ _ _ _ _ _ _ | MGoAway _ | MRlDone | MReqKeep _ | MOpenDec => is_rl e
  | MWlDone | MQClear | MWlWrite | MOutQDrop => is_wl e
  | MRefill _ | MSend _ _ | MSendBack _ | MWlReset _ => is_wlf e
  | MWinCh => match e with CEvWLWin _ => True | _ => False end
  | MReqAdd _ | MInQPop | MPendAddDel _ | MEncSync | MEnc _ | MNextID | MHeaders _ _ => e = CEvWLIn
  | _ => True
  end.

Lemma anym_ev_ok {hstate} e (m : move hstate) : anym m -> ev_ok e m.
Proof. destruct m; cbn; tauto. Qed.

Section Decomp.
Variable hstate : Type.
Variable dec_field : hstate -> N -> bytes -> dec_res hstate.
Variable enc_field : hstate -> bytes -> bytes -> bool -> bytes * hstate.
Variable enc_set_max : hstate -> N -> hstate.
Variable cfg : cl_config.
Notation cconn := (cconn hstate).
Notation move := (move hstate).
Notation apply := (apply hstate enc_field enc_set_max).
Notation valid := (valid hstate).
Notation D := (D enc_field enc_set_max).
Notation DD := (DD enc_field enc_set_max).
Notation step := (cl_step dec_field enc_field enc_set_max cfg).

Lemma D_step (P : move -> Prop) g m (c c' : cconn) :
  valid m c -> P m -> grants_of m = [] /\ rdatas_of m = [] -> D P g (apply m c) c' -> D P g c c'.
Proof.
  intros V H [G R] X. change g with ([] ++ g). eapply D_trans; [|exact X]. rewrite <- G. apply D_one; assumption.
Qed.

Lemma D_one1 (P : move -> Prop) m (c : cconn) : valid m c -> P m -> rdatas_of m = [] -> D P (grants_of m) c (apply m c).
Proof. apply D_one. Qed.

Lemma DD_any (P : move -> Prop) g r (c c' : cconn) : (forall m, anym m -> P m) -> DD anym g r c c' -> DD P g r c c'.
Proof. intros. eapply DD_weaken; eassumption. Qed.

Lemma D_any (P : move -> Prop) g (c c' : cconn) : (forall m, anym m -> P m) -> D anym g c c' -> D P g c c'.
Proof. intros. eapply D_weaken; eassumption. Qed.

(* one more move, which any goroutine may make and which needs no premise *)
Tactic Notation "dmove" uconstr(m) := apply (D_step _ _ m); [exact I | exact I | split; reflexivity | ].

(* ---------- helpers ---------- *)

Lemma ctx_upd_D (c : cconn) tag f : D anym [] c (cl_ctx_upd c tag f).
Proof.
  unfold cl_ctx_upd. destruct (cl_ctx_get c tag) as [x|]; [|apply D_refl].
  dmove (MCtxs (cl_ctxs_put (cc_ctxs c) (f x))). apply D_refl.
Qed.

Lemma ctx_put_D (c : cconn) x : D anym [] c (cl_ctx_put c x).
Proof. dmove (MCtxs (cl_ctxs_put (cc_ctxs c) x)). apply D_refl. Qed.

Lemma resolve_D (c : cconn) tag e : D anym [] c (cl_resolve c tag e).
Proof. apply ctx_upd_D. Qed.

Lemma resolve_all_D tags : forall (c : cconn) e, D anym [] c (cl_resolve_all c tags e).
Proof.
  induction tags as [|t r IH]; intros c e; cbn [cl_resolve_all]; [apply D_refl|].
  eapply D_trans0; [apply resolve_D | apply IH].
Qed.

Lemma set_last_err_D (c : cconn) e : D anym [] c (cl_set_last_err c e).
Proof.
  unfold cl_set_last_err. destruct (cc_lastErr c); [apply D_refl|].
  dmove (MLastErr (Some e)). apply D_refl.
Qed.

Lemma take_req_D (c : cconn) id : D anym [] c (cl_take_req_count c id).
Proof. dmove (MReqTake id). apply D_refl. Qed.

Lemma cancel_stream_D (c : cconn) id code : D anym [] c (cl_cancel_stream c id code).
Proof. dmove (MOutQPush (CORst id code)). apply D_refl. Qed.

Lemma close_net_D (c : cconn) : D anym [] c (cl_close_net c).
Proof.
  unfold cl_close_net. destruct (cl_can_write c).
  - dmove (MNote (COGoAway 0 c_NoError)). dmove MNetClosed. apply D_refl.
  - dmove MNetClosed. apply D_refl.
Qed.

Lemma conn_close_D (c : cconn) : D anym [] c (cl_conn_close c).
Proof.
  unfold cl_conn_close, cl_close_begin. destruct (cc_closed c); [apply D_refl|].
  dmove MClosed. apply close_net_D.
Qed.

Lemma go_stuck_fold_D held : forall (c : cconn),
  D anym [] c (fold_left (fun c t => cl_ctx_upd c t (fun x => ctu_lckStuck x true)) held c).
Proof.
  induction held as [|t r IH]; intro c; cbn [fold_left]; [apply D_refl|].
  eapply D_trans0; [apply ctx_upd_D | apply IH].
Qed.

Lemma go_stuck_D who held (c : cconn) self tag : D anym [] c (cl_go_stuck who held c self tag).
Proof.
  unfold cl_go_stuck. eapply D_trans0; [apply go_stuck_fold_D|].
  set (c1 := fold_left _ held c). destruct self.
  - dmove (MNote (COSelfDeadlock who tag)).
    destruct (who =? 0); [dmove MRlStuck; apply D_refl|]. destruct (who =? 1); [dmove MWlStuck; apply D_refl|apply D_refl].
  - dmove (MNote (COBlocked who tag)).
    destruct (who =? 0); [dmove MRlStuck; apply D_refl|]. destruct (who =? 1); [dmove MWlStuck; apply D_refl|apply D_refl].
Qed.

Lemma close_body_D (c : cconn) pb : D anym [] c (cl_close_body c pb).
Proof.
  unfold cl_close_body. destruct (pb_stream pb); [|apply D_refl].
  eapply D_trans0; [apply ctx_upd_D|]. dmove (MNote (COBodyClosed (pb_tag pb))). apply D_refl.
Qed.

Lemma delete_pending_D who held (c : cconn) id : D anym [] c (fst (cl_delete_pending who held c id)).
Proof.
  unfold cl_delete_pending. destruct (cl_pend_get (cc_pending c) id) as [pb|]; [|apply D_refl].
  dmove (MPendDel id). cbn [apply].
  destruct (pb_stream pb) eqn:S; [|apply D_refl].
  destruct (cl_acquire_for held _ (pb_tag pb) id); cbn [fst].
  - apply close_body_D.
  - apply D_refl.
  - apply go_stuck_D.
  - apply go_stuck_D.
Qed.

(* deletePending once the body is off c.pending *)
Lemma delete_pending_tail who held (c : cconn) id :
  D anym [] (match cl_pend_get (cc_pending c) id with Some _ => ccu_pending c (cl_pend_del (cc_pending c) id) | None => c end)
    (fst (cl_delete_pending who held c id)).
Proof.
  unfold cl_delete_pending. destruct (cl_pend_get (cc_pending c) id) as [pb|]; [|apply D_refl].
  destruct (pb_stream pb) eqn:S; [|apply D_refl].
  destruct (cl_acquire_for held _ (pb_tag pb) id); cbn [fst].
  - apply close_body_D.
  - apply D_refl.
  - apply go_stuck_D.
  - apply go_stuck_D.
Qed.

(* ---------- sendPending ---------- *)

Lemma send_pending_S fuel (c : cconn) id :
  cl_send_pending (S fuel) c id =
  match cl_pend_get (cc_pending c) id with
  | None => (c, CSPOk)
  | Some pb =>
    if refill_cond pb then
      match cl_refill pb with
      | None =>
        let '(c1, stuck) := cl_delete_pending 1 [] c id in
        if stuck then (c1, CSPStuck)
        else
          match cl_req_find (cc_reqQueued c1) id with
          | None => (c1, CSPOk)
          | Some _ =>
            let c2 := cl_take_req_count c1 id in
            let c3 := cl_ctx_upd c2 (pb_tag pb) (fun x => cl_ctx_resolve (ctu_finished x true) CEBody) in
            if cl_can_write c3 then (cl_note c3 (CORst id c_InternalError), CSPOk) else (c3, CSPWriteErr)
          end
      | Some pb' => cl_send_pending fuel (ccu_pending c (cl_pend_put (cc_pending c) pb')) id
      end
    else
      let c2 := cs_conn c pb id in
      if (cs_n c pb =? 0)%Z && negb (cs_end c pb) then (c2, CSPOk)
      else
        match cl_acquire_for [] c2 (pb_tag pb) id with
        | CLRefused =>
          let c2' := if (0 <? cs_n c pb)%Z then cl_add_window c2 0 (cs_n c pb) else c2 in
          let '(c3, stuck) := cl_delete_pending 1 [] c2' id in
          (c3, if stuck then CSPStuck else CSPOk)
        | CLBlocked | CLSelf => (cl_go_stuck 1 [] c2 false (pb_tag pb), CSPStuck)
        | CLOk =>
          if cl_can_write c2 then
            let c3 := cl_notes c2 (cl_write_data (cc_maxFrame c2) id (cs_chunk c pb) (cs_end c pb)) in
            if cs_end c pb then (cl_close_body c3 (cs_pb c pb), CSPOk) else cl_send_pending fuel c3 id
          else (c2, CSPWriteErr)
        end
  end.
Proof. reflexivity. Qed.

Lemma delete_pending_D' who held (c c1 : cconn) id stuck :
  cl_delete_pending who held c id = (c1, stuck) -> D anym [] c c1.
Proof. intro E. pose proof (delete_pending_D who held c id) as H. rewrite E in H. exact H. Qed.

Lemma send_pending_D e fuel : is_wlf e -> forall (c : cconn) id, D (ev_ok e) [] c (fst (cl_send_pending fuel c id)).
Proof.
  intro W. induction fuel as [|fuel IH]; intros c id; [apply D_refl|]. rewrite send_pending_S.
  destruct (cl_pend_get (cc_pending c) id) as [pb|] eqn:G; [|apply D_refl].
  destruct (refill_cond pb) eqn:RC.
  - destruct (cl_refill pb) as [pb'|] eqn:RF.
    + apply (D_step _ _ (MRefill id)); [exists pb, pb'; auto | exact W | split; reflexivity |].
      cbn [apply]. rewrite G, RF. apply IH.
    + destruct (cl_delete_pending 1 [] c id) as [c1 stuck] eqn:DP. apply delete_pending_D' in DP.
      apply (D_any _ _ _ _ (anym_ev_ok e)) in DP.
      destruct stuck; cbn [fst]; [exact DP|].
      destruct (cl_req_find (cc_reqQueued c1) id) as [tg|]; cbn [fst]; [|exact DP]. cbv zeta.
      eapply D_trans0; [exact DP|].
      eapply D_trans0; [apply (D_any _ _ _ _ (anym_ev_ok e)), take_req_D|].
      eapply D_trans0; [apply (D_any _ _ _ _ (anym_ev_ok e)), ctx_upd_D|].
      (* the write loop writes the RST_STREAM itself *)
      destruct (cl_can_write _) eqn:CW; cbn [fst]; [|apply D_refl].
      apply (D_step _ _ (MWlReset id)); [exact CW | exact W | split; reflexivity |]. apply D_refl.
  - cbv zeta.
    assert (V : forall wr, (wr = true -> cl_can_write c = true /\ ((cs_n c pb =? 0)%Z && negb (cs_end c pb)) = false) ->
                           valid (MSend id wr) c).
    { intros wr H. exists pb. auto. }
    assert (A : forall wr, apply (MSend id wr) c =
                           if wr then cl_notes (cs_conn c pb id) (cl_write_data (cc_maxFrame (cs_conn c pb id)) id (cs_chunk c pb) (cs_end c pb))
                           else cs_conn c pb id).
    { intro wr. cbn [apply]. rewrite G. reflexivity. }
    destruct ((cs_n c pb =? 0)%Z && negb (cs_end c pb)) eqn:Z0.
    + apply (D_step _ _ (MSend id false)); [apply V; discriminate | exact W | split; reflexivity |]. rewrite A. apply D_refl.
    + destruct (cl_acquire_for [] (cs_conn c pb id) (pb_tag pb) id).
      * destruct (cl_can_write (cs_conn c pb id)) eqn:CW.
        -- apply (D_step _ _ (MSend id true)); [apply V; intros _; split; [exact CW | reflexivity] | exact W | split; reflexivity |].
           rewrite A. destruct (cs_end c pb); cbn [fst].
           ++ apply (D_any _ _ _ _ (anym_ev_ok e)). apply close_body_D.
           ++ apply IH.
        -- apply (D_step _ _ (MSend id false)); [apply V; discriminate | exact W | split; reflexivity |]. rewrite A. apply D_refl.
      * (* the request has been taken back: the chunk goes back to the connection window *)
        apply (D_step _ _ (MSendBack id)); [exists pb; auto | exact W | split; reflexivity |].
        cbn [apply]. rewrite G. unfold send_back. cbv zeta.
        match goal with |- context [cl_delete_pending 1 [] ?cc id] =>
          pose proof (delete_pending_tail 1 [] cc id) as DT; destruct (cl_delete_pending 1 [] cc id) as [c3 stuck] end.
        cbn [fst] in DT. apply (D_any _ _ _ _ (anym_ev_ok e)). exact DT.
      * apply (D_step _ _ (MSend id false)); [apply V; discriminate | exact W | split; reflexivity |]. rewrite A.
        apply (D_any _ _ _ _ (anym_ev_ok e)). apply go_stuck_D.
      * apply (D_step _ _ (MSend id false)); [apply V; discriminate | exact W | split; reflexivity |]. rewrite A.
        apply (D_any _ _ _ _ (anym_ev_ok e)). apply go_stuck_D.
Qed.

Lemma flush_pending_D e ids : is_wlf e -> forall (c : cconn), D (ev_ok e) [] c (fst (cl_flush_pending c ids)).
Proof.
  intro W. induction ids as [|id t IH]; intro c; cbn [cl_flush_pending]; [apply D_refl|].
  pose proof (send_pending_D e (cl_send_fuel c id) W c id) as H.
  destruct (cl_send_pending (cl_send_fuel c id) c id) as [c1 r]. cbn [fst] in H.
  destruct r; [eapply D_trans0; [exact H | apply IH] | exact H | exact H].
Qed.

(* ---------- writeRequest ---------- *)

Definition new_pending (c : cconn) (tag : N) (rq : crequest) : option cpending :=
  match cq_body rq with
  | CStream reads size => Some (mkCPB (cc_nextID c) tag [] (cc_streamWindow c) (Some reads) size 0 (size =? 0)%Z)
  | CBuf b => if cl_is_nil b then None else Some (mkCPB (cc_nextID c) tag b (cc_streamWindow c) None (-1) 0 false)
  end.

Lemma can_open_goaway (c : cconn) : cl_can_open_stream c = true -> cc_goAway c = false.
Proof. unfold cl_can_open_stream. destruct (cc_goAway c); [discriminate | reflexivity]. Qed.

Lemma pend_get_app_last l pb : cl_pend_get (l ++ [pb]) (pb_id pb) <> None.
Proof.
  induction l as [|p t IH]; cbn [app cl_pend_get].
  - rewrite N.eqb_refl. discriminate.
  - destruct (pb_id p =? pb_id pb); [discriminate | exact IH].
Qed.

(* the write of HEADERS failed: the body that had just been put on c.pending is taken off again *)
Lemma write_fail_D e (c5 : cconn) pb :
  e = CEvWLIn -> pb_id pb = cc_nextID c5 -> cc_nextID c5 <= cl_maxStreamID ->
  let c6 := ccu_pending (ccu_nextID c5 (u32 (cc_nextID c5 + 2))) (cc_pending c5 ++ [pb]) in
  D (ev_ok e) [] c5 (fst (cl_delete_pending 1 [] (cl_take_req_count (cl_set_last_err c6 CEWrite) (cc_nextID c5)) (cc_nextID c5))).
Proof.
  intros W PI IDS c6.
  apply (D_step _ _ (MPendAddDel pb)); [split; [exact PI | exact IDS] | exact W | split; reflexivity |].
  apply (D_step _ _ MNextID); [exact IDS | exact W | split; reflexivity |].
  cbn [apply]. cc_cbn. rewrite PI.
  unfold cl_delete_pending, cl_set_last_err, cl_take_req_count, cl_req_del. subst c6.
  destruct (cc_lastErr _) eqn:LE; cc_cbn_in LE; rewrite ?LE.
  - destruct (cl_req_find _ _) eqn:RF; cc_cbn_in RF; cc_cbn.
    + destruct (cl_pend_get (cc_pending c5 ++ [pb]) (cc_nextID c5)) as [pb0|] eqn:G;
        [|exfalso; rewrite <- PI in G; exact (pend_get_app_last _ _ G)].
      apply (D_step _ _ (MReqTake (cc_nextID c5))); [exact I | exact I | split; reflexivity |].
      cbn [apply]. unfold cl_take_req_count, cl_req_del. cc_cbn. rewrite RF.
      destruct (pb_stream pb0); [|apply D_refl].
      apply (D_any _ _ _ _ (anym_ev_ok e)).
      match goal with |- context [cl_acquire_for ?h ?cc ?t ?i] => destruct (cl_acquire_for h cc t i) end; cbn [fst].
      * apply close_body_D.
      * apply D_refl.
      * apply go_stuck_D.
      * apply go_stuck_D.
    + destruct (cl_pend_get (cc_pending c5 ++ [pb]) (cc_nextID c5)) as [pb0|] eqn:G;
        [|exfalso; rewrite <- PI in G; exact (pend_get_app_last _ _ G)].
      destruct (pb_stream pb0); [|apply D_refl].
      apply (D_any _ _ _ _ (anym_ev_ok e)).
      match goal with |- context [cl_acquire_for ?h ?cc ?t ?i] => destruct (cl_acquire_for h cc t i) end; cbn [fst].
      * apply close_body_D.
      * apply D_refl.
      * apply go_stuck_D.
      * apply go_stuck_D.
  - apply (D_step _ _ (MLastErr (Some CEWrite))); [exact I | exact I | split; reflexivity |]. cbn [apply].
    destruct (cl_req_find _ _) eqn:RF; cc_cbn_in RF; cc_cbn.
    + destruct (cl_pend_get (cc_pending c5 ++ [pb]) (cc_nextID c5)) as [pb0|] eqn:G;
        [|exfalso; rewrite <- PI in G; exact (pend_get_app_last _ _ G)].
      apply (D_step _ _ (MReqTake (cc_nextID c5))); [exact I | exact I | split; reflexivity |].
      cbn [apply]. unfold cl_take_req_count, cl_req_del. cc_cbn. rewrite RF.
      destruct (pb_stream pb0); [|apply D_refl].
      apply (D_any _ _ _ _ (anym_ev_ok e)).
      match goal with |- context [cl_acquire_for ?h ?cc ?t ?i] => destruct (cl_acquire_for h cc t i) end; cbn [fst].
      * apply close_body_D.
      * apply D_refl.
      * apply go_stuck_D.
      * apply go_stuck_D.
    + destruct (cl_pend_get (cc_pending c5 ++ [pb]) (cc_nextID c5)) as [pb0|] eqn:G;
        [|exfalso; rewrite <- PI in G; exact (pend_get_app_last _ _ G)].
      destruct (pb_stream pb0); [|apply D_refl].
      apply (D_any _ _ _ _ (anym_ev_ok e)).
      match goal with |- context [cl_acquire_for ?h ?cc ?t ?i] => destruct (cl_acquire_for h cc t i) end; cbn [fst].
      * apply close_body_D.
      * apply D_refl.
      * apply go_stuck_D.
      * apply go_stuck_D.
Qed.

Lemma write_request_D e (c : cconn) tag : e = CEvWLIn ->
  D (ev_ok e) [] c (fst (cl_write_request enc_field enc_set_max c tag)).
Proof.
  intro W. assert (WL : is_wlf e) by (rewrite W; exact I). unfold cl_write_request.
  destruct (cl_can_open_stream c) eqn:CO; cbn [negb]; [|apply D_refl].
  destruct (cl_ctx_get c tag) as [x|] eqn:GX; [|apply D_refl].
  destruct (ct_lckStuck x); [apply (D_any _ _ _ _ (anym_ev_ok e)); apply go_stuck_D|].
  destruct (ct_done x); [apply D_refl|].
  (* the encoder's table size *)
  apply (D_step _ _ MEncSync); [exact I | exact W | split; reflexivity |]. cbn [apply].
  set (c1 := if negb (cc_encTableSize c =? cc_encTableSeen c) then _ else c).
  assert (F1 : cl_can_open_stream c1 = true).
  { subst c1. destruct (negb (cc_encTableSize c =? cc_encTableSeen c)); assumption. }
  assert (SYN : cc_encTableSeen c1 = cc_encTableSize c1).
  { subst c1. destruct (cc_encTableSize c =? cc_encTableSeen c) eqn:E; cbn [negb]; [apply N.eqb_eq in E; symmetry; exact E | reflexivity]. }
  clearbody c1.
  destruct (cl_maxStreamID <? cc_nextID c1) eqn:IDS; [apply D_refl|]. apply N.ltb_ge in IDS.
  destruct (cl_request_block enc_field (cc_enc (ccu_nextID c1 (u32 (cc_nextID c1 + 2)))) (ct_req x)) as [blk e'] eqn:RB.
  unfold cl_ctx_put. cc_cbn. cc_cbn_in RB.
  apply (D_step _ _ (MEnc (ct_req x))); [exact SYN | exact W | split; reflexivity |]. cbn [apply]. rewrite RB. cbn [snd].
  apply (D_step _ _ (MCtxs (cl_ctxs_put (cc_ctxs c1) (ctu_sid (ctu_conn x true) (cc_nextID c1)))));
    [exact I | exact I | split; reflexivity |]. cbn [apply].
  apply (D_step _ _ (MReqAdd tag)); [split; assumption | exact W | split; reflexivity |]. cbn [apply]. cc_cbn.
  pose proof (can_open_goaway _ F1) as GA. rewrite GA.
  match goal with |- D _ _ ?c0 _ => set (c5 := c0) end.
  assert (CO5 : (cc_open c5 <= Z.of_N (cc_maxStreams c5))%Z).
  { subst c5. cc_cbn. unfold cl_can_open_stream in F1. apply andb_prop in F1. destruct F1 as [_ F1].
    apply Z.ltb_lt in F1. flia. }
  assert (RQ5 : exists tag0, In (cc_nextID c5, tag0) (cc_reqQueued c5)).
  { exists tag. subst c5. cc_cbn. apply in_or_app. right. left. reflexivity. }
  assert (VH : forall opb, cl_can_write c1 = true ->
                 (forall pb, opb = Some pb -> pb_id pb = cc_nextID c1 /\ pb_window pb = cc_streamWindow c1) ->
                 valid (MHeaders blk opb) c5).
  { intros opb CWE H. split; [exact CWE|]. split; [exact IDS|]. split; [exact GA|]. split; [exact CO5|]. split; [exact RQ5|]. split; [exact H | exact SYN]. }
  destruct (cq_body (ct_req x)) as [b|reads size] eqn:BD; [destruct b as [|b0 bt]|]; cbn [cl_is_nil negb].
  - (* no body *)
    unfold cl_can_write at 1. cc_cbn. fold (cl_can_write c1). destruct (cl_can_write c1) eqn:CWE.
    + apply (D_step _ _ (MHeaders blk None)); [apply VH; [reflexivity | discriminate] | exact W | split; reflexivity |]. apply D_refl.
    + apply (D_step _ _ MNextID); [exact IDS | exact W | split; reflexivity |].
      apply (D_any _ _ _ _ (anym_ev_ok e)).
      match goal with |- context [cl_delete_pending ?w ?h ?cc ?i] =>
        pose proof (delete_pending_D w h cc i) as H; destruct (cl_delete_pending w h cc i) as [c8 st] end.
      cbn [fst] in H. eapply D_trans0; [apply set_last_err_D|]. eapply D_trans0; [apply take_req_D|].
      destruct st; exact H.
  - (* a buffered body *)
    unfold cl_can_write at 1. cc_cbn. fold (cl_can_write c1). destruct (cl_can_write c1) eqn:CWE.
    + set (pb := mkCPB (cc_nextID c1) tag (b0 :: bt) (cc_streamWindow c1) None (-1) 0 false).
      apply (D_step _ _ (MHeaders blk (Some pb))); [apply VH; [reflexivity|] | exact W | split; reflexivity |].
      { intros pb' E. inversion E. subst pb'. split; reflexivity. }
      match goal with |- D _ _ ?a (fst (match cl_send_pending ?f ?b ?i with _ => _ end)) =>
        change a with b; pose proof (send_pending_D e f WL b i) as H; destruct (cl_send_pending f b i) as [c8 r] end.
      cbn [fst] in H. destruct r; exact H.
    + set (pb := mkCPB (cc_nextID c1) tag (b0 :: bt) (cc_streamWindow c1) None (-1) 0 false).
      pose proof (write_fail_D e c5 pb W eq_refl IDS) as H. cbv zeta in H.
      match goal with |- D _ _ _ (fst (let '(c8, stuck) := ?p in _)) =>
        match type of H with D _ _ _ (fst ?q) => change p with q; destruct q as [c8 st] end end.
      cbn [fst] in H. destruct st; exact H.
  - (* a streamed body *)
    unfold cl_can_write at 1. cc_cbn. fold (cl_can_write c1). destruct (cl_can_write c1) eqn:CWE.
    + set (pb := mkCPB (cc_nextID c1) tag [] (cc_streamWindow c1) (Some reads) size 0 (size =? 0)%Z).
      apply (D_step _ _ (MHeaders blk (Some pb))); [apply VH; [reflexivity|] | exact W | split; reflexivity |].
      { intros pb' E. inversion E. subst pb'. split; reflexivity. }
      match goal with |- D _ _ ?a (fst (match cl_send_pending ?f ?b ?i with _ => _ end)) =>
        change a with b; pose proof (send_pending_D e f WL b i) as H; destruct (cl_send_pending f b i) as [c8 r] end.
      cbn [fst] in H. destruct r; exact H.
    + set (pb := mkCPB (cc_nextID c1) tag [] (cc_streamWindow c1) (Some reads) size 0 (size =? 0)%Z).
      pose proof (write_fail_D e c5 pb W eq_refl IDS) as H. cbv zeta in H.
      match goal with |- D _ _ _ (fst (let '(c8, stuck) := ?p in _)) =>
        match type of H with D _ _ _ (fst ?q) => change p with q; destruct q as [c8 st] end end.
      cbn [fst] in H. destruct st; exact H.
Qed.

(* ---------- the write loop ---------- *)

Lemma closed_ctx_upd (c : cconn) tag f : cc_closed (cl_ctx_upd c tag f) = cc_closed c.
Proof. unfold cl_ctx_upd. destruct (cl_ctx_get c tag); reflexivity. Qed.

Lemma closed_resolve_all tags : forall (c : cconn) e, cc_closed (cl_resolve_all c tags e) = cc_closed c.
Proof.
  induction tags as [|t r IH]; intros c e; cbn [cl_resolve_all]; [reflexivity|].
  rewrite IH. apply closed_ctx_upd.
Qed.

Lemma closed_conn_close (c : cconn) : cc_closed (cl_conn_close c) = true.
Proof.
  unfold cl_conn_close, cl_close_begin. destruct (cc_closed c) eqn:E; [exact E|].
  unfold cl_close_net. destruct (cl_can_write _); reflexivity.
Qed.

Lemma wl_exit_D e (c : cconn) lastErr why : is_wl e -> D (ev_ok e) [] c (cl_wl_exit c lastErr why).
Proof.
  intro W. unfold cl_wl_exit.
  set (le := match lastErr with Some e0 => e0 | None => CEConn end).
  eapply D_trans0; [apply (D_any _ _ _ _ (anym_ev_ok e)), (set_last_err_D c le)|].
  eapply D_trans0; [apply (D_any _ _ _ _ (anym_ev_ok e)), (conn_close_D (cl_set_last_err c le))|].
  pose proof (closed_conn_close (cl_set_last_err c le)) as CL.
  set (c1 := cl_conn_close (cl_set_last_err c le)) in *.
  eapply D_trans0; [apply (D_any _ _ _ _ (anym_ev_ok e)), (resolve_all_D (map snd (cc_reqQueued c1)) c1 le)|].
  apply (D_step _ _ MReqClear); [exact I | exact I | split; reflexivity |]. cbn [apply].
  set (c2 := ccu_reqQueued (cl_resolve_all c1 (map snd (cc_reqQueued c1)) le) []).
  assert (CL2 : cc_closed c2 = true) by (subst c2; cc_cbn; rewrite closed_resolve_all; exact CL).
  eapply D_trans0; [apply (D_any _ _ _ _ (anym_ev_ok e)), (resolve_all_D (cc_inQ c2) c2 le)|].
  apply (D_step _ _ MQClear); [cbn [valid]; rewrite closed_resolve_all; exact CL2 | exact W | split; reflexivity |]. cbn [apply].
  apply (D_step _ _ MWlDone); [exact I | exact W | split; reflexivity |]. cbn [apply].
  apply (D_step _ _ (MNote (COExit 1 why))); [exact I | exact I | split; reflexivity |]. apply D_refl.
Qed.

Lemma wl_after_D e (c : cconn) : is_wl e -> D (ev_ok e) [] c (cl_wl_after cfg c).
Proof. intro W. unfold cl_wl_after. destruct (_ && _); [apply wl_exit_D; exact W | apply D_refl]. Qed.

Lemma wl_in_D e (c : cconn) : e = CEvWLIn -> D (ev_ok e) [] c (cl_wl_in enc_field enc_set_max cfg c).
Proof.
  intro WI. assert (W : is_wl e) by (rewrite WI; exact I). unfold cl_wl_in. destruct (cc_inQ c) as [|tag q] eqn:Q; [apply D_refl|].
  apply (D_step _ _ MInQPop); [exact I | exact WI | split; reflexivity |]. cbn [apply]. rewrite Q. cbn [tl].
  pose proof (write_request_D e (ccu_inQ c q) tag WI) as H.
  destruct (cl_write_request enc_field enc_set_max (ccu_inQ c q) tag) as [c1 r]. cbn [fst] in H.
  eapply D_trans0; [exact H|]. destruct r as [|er|].
  - apply wl_after_D; exact W.
  - eapply D_trans0; [apply (D_any _ _ _ _ (anym_ev_ok e)), resolve_D|].
    destruct er; try (apply wl_exit_D; exact W). apply D_refl.
  - apply D_refl.
Qed.

Lemma wl_out_D e (c : cconn) : is_wl e -> D (ev_ok e) [] c (cl_wl_out cfg c).
Proof.
  intro W. unfold cl_wl_out. destruct (cc_outQ c) as [|o q] eqn:Q; [apply D_refl|].
  destruct (cl_can_write (ccu_outQ c q)) eqn:CW.
  - apply (D_step _ _ MWlWrite); [split; [exact CW | rewrite Q; discriminate] | exact W | split; reflexivity |].
    cbn [apply]. rewrite Q. apply wl_after_D; exact W.
  - apply (D_step _ _ MOutQDrop); [exact CW | exact W | split; reflexivity |]. cbn [apply]. rewrite Q. cbn [tl].
    apply wl_exit_D; exact W.
Qed.

Lemma wl_win_D (c : cconn) order : D (ev_ok (CEvWLWin order)) [] c (cl_wl_win cfg c order).
Proof.
  unfold cl_wl_win. destruct (cc_winCh c); cbn [negb]; [|apply D_refl].
  apply (D_step _ _ MWinCh); [exact I | exact I | split; reflexivity |]. cbn [apply].
  pose proof (flush_pending_D (CEvWLWin order) (cl_pending_order (ccu_winCh c false) order) I (ccu_winCh c false)) as H.
  destruct (cl_flush_pending _ _) as [c2 r]. cbn [fst] in H. eapply D_trans0; [exact H|].
  destruct r; [apply wl_after_D | apply wl_exit_D | apply D_refl]; exact I.
Qed.

Lemma wl_ping_D e (c : cconn) : is_wl e -> D (ev_ok e) [] c (cl_wl_ping cfg c).
Proof.
  intro W. unfold cl_wl_ping. destruct (cl_can_write c); [|apply wl_exit_D; exact W].
  apply (D_step _ _ (MNote COPing)); [exact I | exact I | split; reflexivity |]. cbn [apply quietb].
  apply (D_step _ _ (MUnacks (cc_unacks c + 1)%Z)); [exact I | exact I | split; reflexivity |]. cbn [apply].
  apply wl_after_D; exact W.
Qed.

Lemma wl_done_D e (c : cconn) : is_wl e -> D (ev_ok e) [] c (cl_wl_done c).
Proof. intro W. unfold cl_wl_done. destruct (cc_closed c); [apply wl_exit_D; exact W | apply D_refl]. Qed.

(* ---------- callers, timers, Close ---------- *)

Lemma submit_D (c : cconn) tag rq q : D anym [] c (cl_submit cfg c tag rq q).
Proof.
  unfold cl_submit. destruct (cl_ctx_get c tag); [apply D_refl|].
  dmove (MCtxs (cc_ctxs c ++ [cl_new_ctx tag rq (ccf_armTimers cfg)])). cbn [apply].
  destruct (_ && _); [apply resolve_D|].
  dmove (MInQPush tag). apply ctx_upd_D.
Qed.

Lemma submit_check_D (c : cconn) tag : D anym [] c (cl_submit_check c tag).
Proof.
  unfold cl_submit_check. destruct (cl_ctx_get c tag) as [x|]; [|apply D_refl].
  destruct (ct_writing x); cbn [negb]; [|apply D_refl].
  destruct (cc_closed c); cbn [negb]; [|apply ctx_put_D].
  destruct (ct_lckStuck _); [eapply D_trans0; [apply ctx_put_D | apply go_stuck_D]|].
  destruct (ct_sid _ =? 0); apply ctx_put_D.
Qed.

Lemma receive_D (c : cconn) tag : D anym [] c (cl_receive c tag).
Proof.
  unfold cl_receive. destruct (cl_ctx_get c tag) as [x|]; [|apply D_refl].
  destruct (ct_returned x); [apply D_refl|]. destruct (ct_err x) as [e0|]; [|apply D_refl].
  cbv zeta. destruct (ct_lckStuck _); [eapply D_trans0; [apply ctx_put_D | apply go_stuck_D]|].
  match goal with |- context [ctu_pooled _ ?r] => destruct r end.
  - eapply D_trans0; [apply ctx_put_D|].
    match goal with |- context [COResult ?t ?r ?e1 ?rs] => dmove (MNote (COResult t r e1 rs)) end. cbn [apply quietb].
    dmove (MNote (COPoolPut tag)). apply D_refl.
  - eapply D_trans0; [apply ctx_put_D|].
    match goal with |- context [COResult ?t ?r ?e1 ?rs] => dmove (MNote (COResult t r e1 rs)) end. apply D_refl.
Qed.

Lemma timeout_fire_D (c : cconn) tag : D anym [] c (cl_timeout_fire c tag).
Proof.
  unfold cl_timeout_fire. destruct (cl_ctx_get c tag) as [x|]; [|apply D_refl].
  destruct (_ && _); [apply ctx_put_D | apply D_refl].
Qed.

Lemma timeout_cancel_D (c : cconn) tag : D anym [] c (cl_timeout_cancel c tag).
Proof.
  unfold cl_timeout_cancel. destruct (cl_ctx_get c tag) as [x|]; [|apply D_refl].
  destruct (_ && _); [|apply D_refl]. cbv zeta.
  eapply D_trans0; [apply ctx_put_D|].
  destruct (_ || _); [apply D_refl|].
  match goal with |- context [cl_delete_pending ?w ?h ?cc ?i] =>
    pose proof (delete_pending_D w h cc i) as H; destruct (cl_delete_pending w h cc i) as [c2 st] end.
  cbn [fst] in H. eapply D_trans0; [exact H|]. destruct st; [apply D_refl|].
  eapply D_trans0; [apply take_req_D | apply cancel_stream_D].
Qed.

Lemma close_call_D (c : cconn) : D anym [] c (cl_close_call c).
Proof.
  unfold cl_close_call, cl_close_begin. destruct (cc_closed c); [apply D_refl|].
  dmove MClosed. dmove (MClosing true). apply D_refl.
Qed.

Lemma close_finish_D (c : cconn) : D anym [] c (cl_close_finish c).
Proof.
  unfold cl_close_finish. destruct (cc_closing c); [|apply D_refl].
  eapply D_trans0; [apply close_net_D|]. dmove (MClosing false). apply D_refl.
Qed.

(* ---------- the read loop ---------- *)

Lemma fkind_eqb_eq a b : fkind_eqb a b = true <-> a = b.
Proof. destruct a, b; cbn; split; intro H; try reflexivity; try discriminate. Qed.

Lemma rl_exit_DP (P : move -> Prop) (c : cconn) why : (forall m, anym m -> P m) -> P MRlDone -> D P [] c (cl_rl_exit c why).
Proof.
  intros A R. unfold cl_rl_exit.
  eapply D_trans0; [apply (D_any _ _ _ _ A), conn_close_D|].
  apply (D_step _ _ MRlDone); [exact I | exact R | split; reflexivity |]. cbn [apply].
  apply (D_step _ _ (MNote (COExit 0 why))); [exact I | apply A; exact I | split; reflexivity |]. apply D_refl.
Qed.

Lemma rl_fail_DP (P : move -> Prop) (c : cconn) : (forall m, anym m -> P m) -> P MRlDone -> D P [] c (cl_rl_fail c).
Proof.
  intros A R. unfold cl_rl_fail. eapply D_trans0; [apply (D_any _ _ _ _ A), set_last_err_D | apply rl_exit_DP; assumption].
Qed.

Lemma rl_exit_D e (c : cconn) why : is_rl e -> D (ev_ok e) [] c (cl_rl_exit c why).
Proof.
  intro R. unfold cl_rl_exit.
  eapply D_trans0; [apply (D_any _ _ _ _ (anym_ev_ok e)), conn_close_D|].
  apply (D_step _ _ MRlDone); [exact I | exact R | split; reflexivity |]. cbn [apply].
  apply (D_step _ _ (MNote (COExit 0 why))); [exact I | exact I | split; reflexivity |]. apply D_refl.
Qed.

Lemma rl_fail_D e (c : cconn) : is_rl e -> D (ev_ok e) [] c (cl_rl_fail c).
Proof.
  intro R. unfold cl_rl_fail.
  eapply D_trans0; [apply (D_any _ _ _ _ (anym_ev_ok e)), set_last_err_D | apply rl_exit_D; exact R].
Qed.

Lemma rl_panic_D e (c : cconn) : is_rl e -> D (ev_ok e) [] c (cl_rl_panic c).
Proof.
  intro R. unfold cl_rl_panic.
  apply (D_step _ _ (MNote (COPanic 0))); [exact I | exact I | split; reflexivity |]. cbn [apply quietb].
  eapply D_trans0; [apply (D_any _ _ _ _ (anym_ev_ok e)), (set_last_err_D (cl_note c (COPanic 0)) CEConn)|].
  set (c1 := cl_set_last_err _ _).
  eapply D_trans0; [apply (D_any _ _ _ _ (anym_ev_ok e)), (resolve_all_D (map snd (cc_reqQueued c1)) c1 CEConn)|].
  apply (D_step _ _ MReqClear); [exact I | exact I | split; reflexivity |]. cbn [apply].
  apply rl_exit_D; exact R.
Qed.

Lemma finish_D (c : cconn) tag id e : D anym [] c (cl_finish c tag id e).
Proof.
  unfold cl_finish. eapply D_trans0; [apply take_req_D|].
  set (c1 := cl_take_req_count c id).
  destruct (cl_pend_get (cc_pending c1) id) as [pb|].
  - dmove (MPendDel id). cbn [apply]. eapply D_trans0; [apply close_body_D | apply ctx_upd_D].
  - apply ctx_upd_D.
Qed.

Lemma goAway_ctx_upd (c : cconn) tag f : cc_goAway (cl_ctx_upd c tag f) = cc_goAway c.
Proof. unfold cl_ctx_upd. destruct (cl_ctx_get c tag); reflexivity. Qed.

Lemma goAway_go_stuck who held (c : cconn) self tag : cc_goAway (cl_go_stuck who held c self tag) = cc_goAway c.
Proof.
  unfold cl_go_stuck.
  assert (F : forall (c0 : cconn), cc_goAway (fold_left (fun c t => cl_ctx_upd c t (fun x => ctu_lckStuck x true)) held c0) = cc_goAway c0).
  { induction held as [|t r IH]; intro c0; cbn [fold_left]; [reflexivity|]. rewrite IH. apply goAway_ctx_upd. }
  destruct (who =? 0); [|destruct (who =? 1)]; cc_cbn; apply F.
Qed.

Lemma goAway_delete_pending who held (c : cconn) id : cc_goAway (fst (cl_delete_pending who held c id)) = cc_goAway c.
Proof.
  unfold cl_delete_pending. destruct (cl_pend_get _ _) as [pb|]; [|reflexivity].
  destruct (pb_stream pb) eqn:S; [|reflexivity].
  destruct (cl_acquire_for _ _ _ _); cbn [fst]; try reflexivity.
  - unfold cl_close_body. rewrite S. cc_cbn. rewrite goAway_ctx_upd. reflexivity.
  - rewrite goAway_go_stuck. reflexivity.
  - rewrite goAway_go_stuck. reflexivity.
Qed.

Lemma goaway_fail_D e l : is_rl e -> forall (c : cconn), cc_goAway c = true -> D (ev_ok e) [] c (fst (cl_goaway_fail c l)).
Proof.
  intro R. induction l as [|[id tag] t IH]; intros c GA; cbn [cl_goaway_fail]; [apply D_refl|].
  apply (D_step _ _ MOpenDec); [exact GA | exact R | split; reflexivity |]. cbn [apply].
  match goal with |- context [cl_delete_pending ?w ?h ?cc ?i] =>
    pose proof (delete_pending_D w h cc i) as H; pose proof (goAway_delete_pending w h cc i) as G;
    destruct (cl_delete_pending w h cc i) as [c2 st] end.
  cbn [fst] in H, G. cc_cbn_in G. eapply D_trans0; [apply (D_any _ _ _ _ (anym_ev_ok e)), H|].
  destruct st; [apply D_refl|].
  eapply D_trans0; [apply (D_any _ _ _ _ (anym_ev_ok e)), ctx_upd_D | apply IH].
  rewrite goAway_ctx_upd, G. exact GA.
Qed.

Lemma goaway_D e (c : cconn) last : is_rl e -> D (ev_ok e) [] c (fst (cl_goaway c last)).
Proof.
  intro R. unfold cl_goaway.
  apply (D_step _ _ (MGoAway last)); [exact I | exact R | split; reflexivity |]. cbn [apply].
  apply (D_step _ _ (MReqKeep last)); [reflexivity | exact R | split; reflexivity |]. cbn [apply].
  apply goaway_fail_D; [exact R | reflexivity].
Qed.

Lemma read_header_fragment_D e (c : cconn) id fragment eh res : is_rl e ->
  D (ev_ok e) [] c (fst (fst (fst (cl_read_header_fragment dec_field c id fragment eh res)))).
Proof.
  intro R. unfold cl_read_header_fragment.
  destruct (cl_hdr_loop _ _ _ _ _ _ _ _ _ _) as [[[[[[[d' fields] rseen] status] herr] res'] prev] er].
  destruct er.
  - destruct eh; cbn [negb].
    + destruct herr; cbn [fst].
      * apply (D_step _ _ (MRlPriv 0 [] fields (cc_hdrEndStream c) rseen status (Some c0) d')); [exact I | exact R | split; reflexivity |]. apply D_refl.
      * apply (D_step _ _ (MRlPriv 0 [] fields (cc_hdrEndStream c) rseen status None d')); [exact I | exact R | split; reflexivity |]. apply D_refl.
    + destruct (cl_maxHeaderPrev <? len prev); cbn [fst].
      * apply (D_step _ _ (MRlPriv 0 prev fields (cc_hdrEndStream c) rseen status herr d')); [exact I | exact R | split; reflexivity |]. apply D_refl.
      * apply (D_step _ _ (MRlPriv id prev fields (cc_hdrEndStream c) rseen status herr d')); [exact I | exact R | split; reflexivity |]. apply D_refl.
  - cbn [fst]. apply (D_step _ _ (MRlPriv 0 prev fields (cc_hdrEndStream c) rseen status herr d')); [exact I | exact R | split; reflexivity |]. apply D_refl.
  - cbn [fst]. apply (D_step _ _ (MRlPriv 0 prev fields (cc_hdrEndStream c) rseen status herr d')); [exact I | exact R | split; reflexivity |]. apply D_refl.
  - cbn [fst]. apply (D_step _ _ (MRlPriv (cc_hdrStream c) prev fields (cc_hdrEndStream c) rseen status herr d')); [exact I | exact R | split; reflexivity |]. apply D_refl.
Qed.

(* the DATA frame readStream debits *)
Definition datar (fr : sframe) : list sframe := match sf_kind fr with KData => [fr] | _ => [] end.

Lemma DD_trans0l (P : move -> Prop) g r (a b c : cconn) : D P [] a b -> DD P g r b c -> DD P g r a c.
Proof. intros X Y. exact (DD_trans hstate enc_field enc_set_max P [] g [] r a b c X Y). Qed.

Lemma DD_trans0r (P : move -> Prop) g r (a b c : cconn) : DD P g r a b -> D P [] b c -> DD P g r a c.
Proof. intros X Y. pose proof (DD_trans hstate enc_field enc_set_max P g [] r [] a b c X Y) as H. rewrite !app_nil_r in H. exact H. Qed.

Lemma read_stream_D (c : cconn) fr res : (sf_kind fr = KData -> sf_sid fr <> 0) ->
  DD (ev_ok (CEvRL (RFrame fr))) [] (datar fr) c (fst (fst (fst (cl_read_stream dec_field c fr res)))).
Proof.
  intro NZ. unfold cl_read_stream, datar. destruct (sf_kind fr) eqn:K; try apply D_refl.
  - (* DATA *)
    cbn [fst].
    eapply DD_eq; [|apply (DD_one hstate enc_field enc_set_max _ (MRecvData fr (match res with Some _ => true | None => false end)));
                    [exact I | split; [reflexivity | split; [exact K | apply NZ; reflexivity]]]].
    cbn [apply]. unfold recv_data. destruct res; reflexivity.
  - (* HEADERS *)
    apply (D_step _ _ (MRlPriv (cc_hdrStream c) [] 0 (flag_has (sf_flags fr) FL_ES) false 0%Z None (cc_dec c))); [exact I | exact I | split; reflexivity |].
    apply read_header_fragment_D. exact I.
  - apply read_header_fragment_D. exact I.
Qed.

Ltac danym :=
  first [ apply D_refl
        | eapply D_trans0; [| first [apply finish_D | apply ctx_put_D | apply set_last_err_D | apply take_req_D]]; danym ].

Lemma dispatch_D (c : cconn) fr : (sf_kind fr = KData -> sf_sid fr <> 0) ->
  DD (ev_ok (CEvRL (RFrame fr))) [] (match snd (cl_dispatch dec_field c fr) with CDStuck => [] | _ => datar fr end)
     c (fst (cl_dispatch dec_field c fr)).
Proof.
  intro NZ. unfold cl_dispatch. cbv zeta.
  set (pre := match cl_req_find (cc_reqQueued c) (sf_sid fr) with None => _ | Some _ => _ end).
  assert (P : match pre with
              | inr c' => D anym [] c c'
              | inl (c0, _) => D anym [] c c0
              end).
  { subst pre. destruct (cl_req_find (cc_reqQueued c) (sf_sid fr)) as [tag|]; [|apply D_refl].
    destruct (cl_acquire_for [] c tag (sf_sid fr)); [apply D_refl | apply take_req_D | apply go_stuck_D | apply go_stuck_D]. }
  destruct pre as [[c0 ok]|c']; [|cbn [fst snd]; apply (D_any _ _ _ _ (anym_ev_ok _)); exact P].
  apply (DD_trans0l _ _ _ _ c0); [apply (D_any _ _ _ _ (anym_ev_ok _)); exact P|]. clear P.
  pose proof (read_stream_D c0 fr (match ok with Some x => Some (ct_resp x) | None => None end) NZ) as RS.
  destruct (cl_read_stream dec_field c0 fr _) as [[[c1 res'] ended] err]. cbn [fst] in RS.
  match goal with |- context [let '(a, b) := ?p in _] => destruct p as [ok2 err2] end.
  destruct ok2 as [x2|]; destruct err2; cbn [fst snd];
    repeat match goal with |- context [if ?b then _ else _] => destruct b end; cbn [fst snd];
    (apply (DD_trans0r _ _ _ _ c1); [exact RS|]); apply (D_any _ _ _ _ (anym_ev_ok _)); danym.
Qed.

(* the read loop takes the frame of this step in: it is running, the frame is well formed and in sequence
   (rl_takes of Proofs/CliDefs.v, for any coder) *)
Definition g_rl_takes (c : cconn) (fr : sframe) : bool :=
  cl_rl_live c && negb (cc_netClosed c)
  && ((sf_sid fr =? 0)
      || (if cc_hdrStream c =? 0 then negb (fkind_eqb (sf_kind fr) KCont)
          else fkind_eqb (sf_kind fr) KCont && (sf_sid fr =? cc_hdrStream c))).

(* the send-window grants the step takes in, as the server's ledger counts them *)
Definition g_ledger_in (c : cconn) (e : cevent) : list levent :=
  match e with
  | CEvRL (RFrame fr) =>
    if g_rl_takes c fr then
      match sf_kind fr with
      | KWinUpd => [LGrant (sf_sid fr) (Z.of_N (sf_inc fr))]
      | KSettings =>
        if (sf_sid fr =? 0) && negb (flag_has (sf_flags fr) FL_ES)
        then match cl_settings_deserialize false (sf_payload fr) with Some _ => inits_of (sf_payload fr) | None => [] end
        else []
      | _ => []
      end
    else []
  | _ => []
  end.

(* the grants of the frame if the body of readLoop gets as far as dispatch *)
Definition frame_grants (fr : sframe) : list levent :=
  match sf_kind fr with KWinUpd => [LGrant (sf_sid fr) (Z.of_N (sf_inc fr))] | _ => [] end.

(* the DATA frame the step debits from the receive window: a frame taken in, unless dispatch parks the read
   loop for ever on the Ctx lock before readStream *)
Definition g_rdata_in (c : cconn) (e : cevent) : list sframe :=
  match e with
  | CEvRL (RFrame fr) =>
    if g_rl_takes c fr && fkind_eqb (sf_kind fr) KData && negb (sf_sid fr =? 0)
    then match snd (cl_dispatch dec_field c fr) with CDStuck => [] | _ => [fr] end
    else []
  | _ => []
  end.

Definition in_seq (c : cconn) (fr : sframe) : bool :=
  if cc_hdrStream c =? 0 then negb (fkind_eqb (sf_kind fr) KCont)
  else fkind_eqb (sf_kind fr) KCont && (sf_sid fr =? cc_hdrStream c).

Lemma rl_frame_D (c : cconn) fr : (sf_kind fr = KData -> sf_sid fr <> 0) ->
  DD (ev_ok (CEvRL (RFrame fr)))
    (if in_seq c fr then frame_grants fr else [])
    (if in_seq c fr && fkind_eqb (sf_kind fr) KData
     then match snd (cl_dispatch dec_field c fr) with CDStuck => [] | _ => [fr] end else [])
    c (cl_rl_frame dec_field c fr).
Proof.
  intro NZ. unfold cl_rl_frame, in_seq.
  assert (EXIT : forall g, g = [] -> DD (ev_ok (CEvRL (RFrame fr))) g [] c (cl_rl_exit (cl_set_last_err c CEConn) 1)).
  { intros g ->. eapply D_trans0; [apply (D_any _ _ _ _ (anym_ev_ok _)), set_last_err_D | apply rl_exit_D; exact I]. }
  destruct (fkind_eqb (sf_kind fr) KPush) eqn:KP.
  { apply fkind_eqb_eq in KP. unfold frame_grants. rewrite KP. cbn [fkind_eqb negb andb]. rewrite !andb_false_r.
    apply EXIT. destruct (cc_hdrStream c =? 0); reflexivity. }
  destruct (cc_hdrStream c =? 0) eqn:HS; cbn [negb andb].
  - destruct (fkind_eqb (sf_kind fr) KCont) eqn:KC; cbn [negb andb]; [apply EXIT; reflexivity|].
    (* in sequence *)
    assert (T : D (ev_ok (CEvRL (RFrame fr))) (frame_grants fr) c
                  (if fkind_eqb (sf_kind fr) KWinUpd then cl_add_window c (sf_sid fr) (Z.of_N (sf_inc fr)) else c)).
    { unfold frame_grants. destruct (fkind_eqb (sf_kind fr) KWinUpd) eqn:KW.
      - apply fkind_eqb_eq in KW. rewrite KW.
        apply (D_one1 _ (MAddWindow (sf_sid fr) (Z.of_N (sf_inc fr)))); [exact I| |reflexivity].
        exists fr. repeat split; assumption.
      - destruct (sf_kind fr); try discriminate; apply D_refl. }
    assert (R : (if fkind_eqb (sf_kind fr) KData then match snd (cl_dispatch dec_field c fr) with CDStuck => [] | _ => [fr] end else []) =
                match snd (cl_dispatch dec_field (if fkind_eqb (sf_kind fr) KWinUpd then cl_add_window c (sf_sid fr) (Z.of_N (sf_inc fr)) else c) fr)
                with CDStuck => [] | _ => datar fr end).
    { unfold datar. destruct (sf_kind fr); cbn [fkind_eqb]; try reflexivity;
        match goal with |- _ = match ?x with _ => _ end => destruct x; reflexivity end. }
    rewrite R. clear R.
    set (c1 := if fkind_eqb (sf_kind fr) KWinUpd then _ else c) in *.
    pose proof (dispatch_D c1 fr NZ) as DD0. destruct (cl_dispatch dec_field c1 fr) as [c2 r]. cbn [fst snd] in DD0 |- *.
    assert (X : DD (ev_ok (CEvRL (RFrame fr))) (frame_grants fr) (match r with CDStuck => [] | _ => datar fr end) c c2).
    { pose proof (DD_trans hstate enc_field enc_set_max _ _ _ _ _ _ _ _ T DD0) as H. rewrite app_nil_r in H. exact H. }
    destruct r; [exact X | | exact X |].
    + apply (DD_trans0r _ _ _ _ c2); [exact X | apply rl_exit_D; exact I].
    + apply (DD_trans0r _ _ _ _ c2); [exact X | apply rl_panic_D; exact I].
  - destruct (fkind_eqb (sf_kind fr) KCont) eqn:KC; cbn [negb orb andb]; [|apply EXIT; reflexivity].
    destruct (sf_sid fr =? cc_hdrStream c) eqn:SS; cbn [negb andb]; [|apply EXIT; reflexivity].
    (* a CONTINUATION frame of the block that is open *)
    apply fkind_eqb_eq in KC. unfold frame_grants. rewrite KC. cbn [fkind_eqb].
    pose proof (dispatch_D c fr NZ) as DD0. unfold datar in DD0. rewrite KC in DD0.
    destruct (cl_dispatch dec_field c fr) as [c2 r]. cbn [fst snd] in DD0.
    assert (X : D (ev_ok (CEvRL (RFrame fr))) [] c c2) by (destruct r; exact DD0).
    destruct r; [exact X | | exact X |].
    + eapply D_trans0; [exact X | apply rl_exit_D; exact I].
    + eapply D_trans0; [exact X | apply rl_panic_D; exact I].
Qed.

Lemma rl_step_D (c : cconn) i : cl_rl_live c = true ->
  DD (ev_ok (CEvRL i)) (g_ledger_in c (CEvRL i)) (g_rdata_in c (CEvRL i)) c (cl_rl_step dec_field c i).
Proof.
  intro LV. unfold cl_rl_step, g_ledger_in, g_rdata_in, g_rl_takes. rewrite LV. cbn [andb].
  destruct (cc_netClosed c) eqn:NC; cbn [negb andb].
  { destruct i; try (apply rl_fail_D; exact I). }
  destruct i as [fr| | |]; try (apply rl_fail_D; exact I); [|apply D_refl].
  destruct (sf_sid fr =? 0) eqn:S0; cbn [orb andb negb]; rewrite ?andb_false_r.
  - apply N.eqb_eq in S0. destruct (sf_kind fr) eqn:K; try apply D_refl.
    + (* SETTINGS *)
      destruct (flag_has (sf_flags fr) FL_ES) eqn:ACK; cbn [negb].
      * destruct (cl_settings_deserialize true (sf_payload fr)); [apply D_refl | apply rl_fail_D; exact I].
      * destruct (cl_settings_deserialize false (sf_payload fr)) as [st|] eqn:DS; [|apply rl_fail_D; exact I].
        assert (G : grants_of (MSettings (sf_payload fr) : move) = inits_of (sf_payload fr)) by (cbn [grants_of]; rewrite DS; reflexivity).
        rewrite <- G. eapply D_eq; [|apply D_one1; [exact I| |reflexivity]].
        -- cbn [apply]. rewrite DS. reflexivity.
        -- exists fr. repeat split; assumption.
    + (* PING *)
      destruct (flag_has (sf_flags fr) FL_ES).
      * apply (D_step _ _ (MUnacks (cc_unacks c - 1)%Z)); [exact I | exact I | split; reflexivity |]. apply D_refl.
      * apply (D_step _ _ (MOutQPush (COPingAck (sf_payload fr)))); [exact I | exact I | split; reflexivity |]. apply D_refl.
    + (* GOAWAY *)
      pose proof (goaway_D (CEvRL (RFrame fr)) c (sf_dep fr) I) as GD.
      destruct (cl_goaway c (sf_dep fr)) as [c1 st]. cbn [fst] in GD. destruct st; [exact GD|].
      eapply D_trans0; [exact GD|].
      assert (NZ : sf_kind fr = KData -> sf_sid fr <> 0) by (rewrite K; discriminate).
      pose proof (rl_frame_D c1 fr NZ) as RF. unfold frame_grants in RF. rewrite K in RF. cbn [fkind_eqb] in RF.
      rewrite andb_false_r in RF. destruct (in_seq c1 fr); exact RF.
    + (* WINDOW_UPDATE for the connection *)
      rewrite S0.
      apply (D_one1 _ (MAddWindow 0 (Z.of_N (sf_inc fr)))); [exact I| |reflexivity].
      exists fr. repeat split; [exact K | symmetry; exact S0].
  - assert (NZ : sf_kind fr = KData -> sf_sid fr <> 0) by (intros _; apply N.eqb_neq; exact S0).
    pose proof (rl_frame_D c fr NZ) as RF. unfold frame_grants, in_seq in RF.
    destruct (if cc_hdrStream c =? 0 then _ else _).
    + cbn [andb] in RF |- *. destruct (sf_kind fr) eqn:K; cbn [fkind_eqb] in RF |- *; exact RF.
    + exact RF.
Qed.

(* ---------- every step is a sequence of moves ---------- *)

Theorem step_D (c : cconn) e : DD (ev_ok e) (g_ledger_in c e) (g_rdata_in c e) c (step c e).
Proof.
  destruct e as [tag rq q|tag| | |order| | |i|tag|tag|tag| | |]; cbn [cl_step g_ledger_in g_rdata_in].
  - apply (D_any _ _ _ _ (anym_ev_ok _)), submit_D.
  - apply (D_any _ _ _ _ (anym_ev_ok _)), submit_check_D.
  - destruct (cl_wl_live c); [apply wl_in_D; reflexivity | apply D_refl].
  - destruct (cl_wl_live c); [apply wl_out_D; exact I | apply D_refl].
  - destruct (cl_wl_live c); [apply wl_win_D | apply D_refl].
  - destruct (cl_wl_live c); [apply wl_ping_D; exact I | apply D_refl].
  - destruct (cl_wl_live c); [apply wl_done_D; exact I | apply D_refl].
  - destruct (cl_rl_live c) eqn:LV.
    + apply rl_step_D; exact LV.
    + assert (G : g_ledger_in c (CEvRL i) = [] /\ g_rdata_in c (CEvRL i) = []).
      { unfold g_ledger_in, g_rdata_in, g_rl_takes. rewrite LV. destruct i; split; reflexivity. }
      destruct G as [G1 G2]. unfold g_ledger_in, g_rdata_in in G1, G2. rewrite G1, G2. apply D_refl.
  - apply (D_any _ _ _ _ (anym_ev_ok _)), timeout_fire_D.
  - apply (D_any _ _ _ _ (anym_ev_ok _)), timeout_cancel_D.
  - apply (D_any _ _ _ _ (anym_ev_ok _)), receive_D.
  - apply (D_any _ _ _ _ (anym_ev_ok _)), close_call_D.
  - apply (D_any _ _ _ _ (anym_ev_ok _)), close_finish_D.
  - apply (D_step _ _ MWriteFail); [exact I | exact I | split; reflexivity |]. apply D_refl.
Qed.

End Decomp.
