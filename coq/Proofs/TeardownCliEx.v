(* Proofs/TeardownCliEx.v -- blocking-structure model (Impl/Teardown.v), client: findings F1 F1b F2 F4 F6 and the example for the liveness theorem.
   Statements: Props/Teardown.v; overview: Proofs/TeardownProofs.v. *)
From Coq Require Import Arith Lia Bool List.
From RecordUpdate Require Import RecordSet.
Import RecordSetNotations.
Import ListNotations.
From H2V Require Import Impl.Teardown Proofs.TeardownGen.

Module CliEx.
Import Cli.

Ltac break :=
  repeat match goal with
         | H : _ /\ _ |- _ => destruct H
         | H : exists _, _ |- _ => destruct H
         end.
Ltac act_cases a :=
  destruct a;
  try match goal with p : nat |- _ => destruct p as [|[|[|p]]] end.

Section P.
Variable cap : nat.
Hypothesis cap_pos : 1 <= cap.
Notation guard := (Cli.guard cap).
Notation reachable := (Cli.reachable cap).

(* X has just been handed to Conn.Write; q requests are queued in c.in, o frames in c.out *)
Definition start (t : tx_pc) (q o : nat) : state :=
  mk KW1 t LSel RRead UIdle XOut false false false false false LxNone BwNone false false q o
     false false 0 false false false false 0 false.
Lemma start_reach : forall t q o, (t = TArmed \/ t = TOff) -> q <= cap -> o <= cap ->
  reachable (start t q o).
Proof. intros; apply reach_init; unfold init; cbn; repeat split; auto. Qed.

(* the only things that can still happen in a state *)
Definition only_env (s : state) : Prop := forall a, guard a s -> is_env a = true.

(* ---- F1: Conn.Close behind a socket write that does not return ---- *)
Definition f1_trace : list act :=
  [KSend; KCheckOpen; LSelInX 1; LGoAcqX; LAcqX; LLock; EPeerStall; EUserClose; CCasWin 2;
   CCloseDone 2].
Definition f1_state : state := Eval vm_compute in run_acts eff f1_trace (start TOff 0 0).
Theorem close_behind_stuck_write :
  reachable f1_state /\ only_env f1_state /\
  wl f1_state = LWrite HX /\ uc f1_state = UClose CLock /\ done f1_state = true /\
  sclosed f1_state = false /\ xc f1_state = KErr /\ xerr f1_state = false.
Proof.
  split.
  { replace f1_state with (run_acts eff f1_trace (start TOff 0 0)) by (vm_compute; reflexivity).
    apply reach_acts; [apply start_reach; auto; lia | unfold start, f1_trace; guards_tac]. }
  split; [|cbn; repeat split].
  intros a G. unfold f1_state in G. act_cases a; cbn in G; break; try discriminate; try lia; auto.
Qed.

Ltac reach_from t q o tr :=
  match goal with |- reachable ?st =>
    replace st with (run_acts eff tr (start t q o)) by (cbv -[Init.Nat.pred Init.Nat.add]; reflexivity);
    apply reach_acts; [apply start_reach; auto; lia | unfold start, tr; solve [guards_tac]]
  end.
Ltac only_env_tac st :=
  let a := fresh "a" in let G := fresh "G" in
  intros a G; unfold st in G; act_cases a; cbn in G; break; try discriminate; try lia; auto.

(* ... and with the request's timeout armed: the timer resolves the request, the caller receives
   the error, and then parks in takeBack on the Ctx.lck the write loop holds: RoundTrip does not
   return either *)
Definition f1b_trace : list act :=
  f1_trace ++ [ETimerFire; TResolve; KRecv; TDelSkip; TTakeReq; TOutSend].
Definition f1b_state : state := Eval vm_compute in run_acts eff f1b_trace (start TArmed 0 0).
Theorem roundtrip_stuck_in_takeback :
  reachable f1b_state /\ only_env f1b_state /\
  xc f1b_state = KTb /\ lx f1b_state = LxWl /\ wl f1b_state = LWrite HX /\ tx f1b_state = TDone.
Proof.
  split; [reach_from TArmed 0 0 f1b_trace|].
  split; [only_env_tac f1b_state | cbn; repeat split].
Qed.

(* ---- F2: Conn.Write parked on a full c.in behind a write loop that is stuck in a socket write;
   nobody closes c.done; the request's own timeout fires, resolves, and changes nothing: the
   caller is not yet listening on ctx.Err ---- *)
Definition f2_trace : list act :=
  [LSelInO 1; LGoLockB HO; LLock; EPeerStall; EOtherCaller; OSend; ETimerFire; TResolve].
Definition f2_state : state := Eval cbv -[Init.Nat.pred Init.Nat.add] in run_acts eff f2_trace (start TArmed cap 0).

Theorem write_parked_past_timeout :
  reachable f2_state /\ only_env f2_state /\
  xc f2_state = KW1 /\ xerr f2_state = true /\ tx f2_state = TDone /\ done f2_state = false /\
  wl f2_state = LWrite HO /\ inq f2_state = cap.
Proof.
  split; [reach_from TArmed cap 0 f2_trace|].
  split; [only_env_tac f2_state | cbn; repeat split; lia].
Qed.

(* ---- F4: Close is not atomic.  The read loop wins the CAS and is preempted before
   close(c.done); the write loop leaves on a write error, its own c.Close() returns io.EOF at
   once, it drains an empty c.in and exits; X is then sent on c.in, Write's second select still
   sees c.done open; the read loop finishes Close.  Both loops are gone and X sits in c.in. ---- *)
Definition f4_trace : list act :=
  [EPeerClose; RReadFail; RDeferClose; CCasWin 1; ETick; LSelTick 1; LGoLockB HNone; LLock; LWriteFail false;
   LSetErr; CCasLose 0; LT2Take; LT3End; KSend; KCheckOpen; CCloseDone 1; CLockB 1; CWriteRet 1].
Definition f4_state : state := Eval vm_compute in run_acts eff f4_trace (start TOff 0 0).
Theorem stranded_by_close_race :
  reachable f4_state /\ loops_exited f4_state /\ done f4_state = true /\
  xc f4_state = KErr /\ xloc f4_state = XIn /\ xerr f4_state = false /\ tx f4_state = TOff /\
  raced f4_state = true /\
  (forall a, guard a f4_state -> a = EPeerStall \/ a = ETick \/ a = EUserClose).
Proof.
  split; [reach_from TOff 0 0 f4_trace|].
  unfold loops_exited; cbn. repeat (split; [solve [auto]|]).
  intros a G; unfold f4_state in G; act_cases a; cbn in G; break; try discriminate; try lia; auto.
Qed.

(* ---- example for the liveness theorem: Client.Close has just won the CAS while the write loop
   is writing X's HEADERS under X's Ctx.lck and bwLck, and the read loop is in dispatch for another
   request; the peer is reading ---- *)
Definition s3_trace : list act :=
  [KSend; KCheckOpen; LSelInX 2; LGoAcqX; LAcqX; LLock; EPeerSend; RGet; RGoHoldO; EUserClose;
   CCasWin 2].
Definition s3_state : state := Eval vm_compute in run_acts eff s3_trace (start TArmed 0 0).
Lemma s3_example :
  reachable s3_state /\ closed s3_state = true /\ done s3_state = false /\ stalled s3_state = false /\
  wl s3_state = LWrite HX /\ rl s3_state = RHold HO /\ uc s3_state = UClose CDone /\
  xc s3_state = KErr /\ xloc s3_state = XTab /\ xerr s3_state = false.
Proof.
  split; [reach_from TArmed 0 0 s3_trace | cbn; repeat split].
Qed.
End P.
End CliEx.
