(* Proofs/SrvRfcBatch.v - C08: steps in which the server sends on its own account (a handler's
   response, queued data after a window opens): some streams finish and move to the ring,
   the others keep their state. *)
From H2V Require Import Base.Bytes Base.MachineInt Base.Result Gen.GenConsts Impl.ServerConn.
From H2V Require Import Proofs.SrvBase Proofs.SrvRfcDefs Proofs.SrvRfcSpec Proofs.SrvRfcModel Proofs.SrvRfcSim Proofs.SrvRfcEff
  Proofs.SrvRfcSend Proofs.SrvRfcStep Proofs.SrvRfcKit Proofs.SrvRfcRl Proofs.SrvRfcSl Proofs.SrvRfcKnown.
From Coq Require Import ZArith Lia ZifyN ZifyNat ZifyBool.
Local Open Scope N_scope.

(* what the outputs of a step tell the specification about one stream id *)
Definition sents_on (id : N) (d : list outev) : list RS.sent :=
  filter (on_id id) (flat_map sent_of (rev (filter noisy d))).

Section Batch.
Variable hstate : Type.
Notation sconn := (sconn hstate).
Notation view := (view hstate).
Notation tbl := (tbl hstate).
Notation Sim := (Sim hstate).
Notation AuxT := (AuxT hstate).
Notation AuxH := (AuxH hstate).
Notation live_tuple := (live_tuple hstate).
Implicit Types c : sconn.

(* D: the streams that finished, with the flag their ring entry gets *)
Record batch c c' (d : list outev) (D : list (N * bool)) : Prop := {
  B_rl : sc_rl_done c' = sc_rl_done c;
  B_wl : sc_wl_dead c' = sc_wl_dead c;
  B_q : sc_readerQ c' = sc_readerQ c;
  B_last : sc_lastID c' = sc_lastID c;
  B_high : sc_highestID c' = sc_highestID c;
  B_cl : sc_closing c' = sc_closing c;
  B_ec : sc_expectCont c' = sc_expectCont c;
  B_di : sc_discardID c' = sc_discardID c;
  B_ng : forall o, In o d -> is_goaway o = None;
  B_ne : existsb is_exit d = false;
  B_nodup : NoDup (map st_id (sc_strms c'));
  B_ring : ring_ok hstate c';
  B_keep : forall st', In st' (sc_strms c') ->
           exists st, In st (sc_strms c) /\ st_id st' = st_id st /\ st_state st' = st_state st /\
                      st_headersFinished st' = st_headersFinished st /\ strm_ok st' /\
                      sents_on (st_id st) d = [] /\ in_ring c' (st_id st') = false;
  B_closed : forall id st, tbl c id = Some st -> tbl c' id = None ->
             exists w, In (id, w) D /\ st_state st = SHalfClosed /\ st_headersFinished st = true /\
                       (ring_find c' id = Some w \/ ring_find c' id = None) /\
                       sents_on id d = [if w then RS.SentRst id else RS.SentEndStream id];
  B_other : forall id, tbl c id = None ->
            tbl c' id = None /\ (ring_find c' id = ring_find c id \/ ring_find c' id = None) /\ sents_on id d = []
}.

Lemma st_of_after_on s d id : wf s -> RS.st_of (after_outs s d) id = fold_left sent_st (sents_on id d) (RS.st_of s id).
Proof. intro W. unfold after_outs, sents_on. apply st_of_fold_sent, W. Qed.

Lemma live_tuple_batch c c' s ph d D : Sim c s ph -> batch c c' d D -> live_tuple c' (after_outs s d) ph.
Proof.
  intros HS HB. pose proof (S_aux _ _ _ _ HS) as [AT AH]. pose proof (S_wf _ _ _ _ HS) as W.
  destruct HB as [Brl Bwl Bq Blast Bhigh Bcl Bec Bdi Bng Bne Bnd Bring Bkeep Bclosed Bother].
  assert (TbIn : forall st', In st' (sc_strms c') -> tbl c' (st_id st') = Some st') by (intros st' H; apply In_search; assumption).
  assert (TbIn0 : forall st, In st (sc_strms c) -> tbl c (st_id st) = Some st) by (intros st H; apply In_search; [apply (A_nodup _ _ AT) | exact H]).
  split; [split|].
  - (* AuxT *)
    constructor.
    + rewrite Brl. apply (A_rl _ _ AT).
    + rewrite Bwl. apply (A_wl _ _ AT).
    + rewrite Bq. apply (A_q _ _ AT).
    + exact Bnd.
    + intros st' H. destruct (Bkeep st' H) as (st & Hin & Hid & _). rewrite Hid, Blast. apply (A_ids _ _ AT st Hin).
    + rewrite Blast, Bhigh. apply (A_last _ _ AT).
    + exact Bring.
    + intros st' H. destruct (Bkeep st' H) as (st & _ & _ & _ & _ & _ & _ & X). exact X.
    + intros st' H. destruct (Bkeep st' H) as (st & _ & _ & _ & _ & (A & B & C & D' & _) & _). auto.
    + intros st' H. destruct (Bkeep st' H) as (st & _ & _ & _ & _ & (_ & _ & _ & _ & E) & _). exact E.
  - (* AuxH *)
    destruct AH as [F1 F2 F3 F4]. constructor.
    + intros st' H Hf. destruct (Bkeep st' H) as (st & Hin & Hid & _ & Hfin & _). rewrite Hid, Bec. apply (F1 st Hin). congruence.
    + intros st' Hne H. rewrite Bec in Hne, H. pose proof (search_In _ _ _ H) as HIn'.
      destruct (Bkeep st' HIn') as (st & Hin & Hid & _ & Hfin & _). rewrite Hfin. apply (F2 st Hne).
      pose proof (search_id _ _ _ H) as X. rewrite <- X, Hid. apply TbIn0, Hin.
    + rewrite Bec. exact F3.
    + rewrite Bdi, Bhigh. intro Hne. destruct (F4 Hne) as [X Y]. split; [apply (Bother _ X) | exact Y].
  - split; [|split; [|split; [|split; [|split; [|split]]]]].
    + (* the streams *)
      intros id O. rewrite st_of_after_on by exact W. pose proof (S_str _ _ _ _ HS id O) as R.
      destruct (tbl c' id) as [st'|] eqn:T'.
      * pose proof (search_In _ _ _ T') as HIn'. pose proof (search_id _ _ _ T') as Hid'.
        destruct (Bkeep st' HIn') as (st & Hin & Hid & Hst & _ & _ & Hs & _).
        assert (T : tbl c id = Some st) by (rewrite <- Hid', Hid; apply TbIn0, Hin).
        rewrite <- Hid, Hid' in Hs. rewrite Hs. cbn [fold_left].
        unfold SrvRfcDefs.view in *. rewrite T' . rewrite T in R. rewrite Hst. apply rel_rel1, R.
      * destruct (tbl c id) as [st|] eqn:T.
        -- destruct (Bclosed id st T T') as (w & _ & Hhc & _ & Hr & Hs). rewrite Hs. cbn [fold_left].
           unfold SrvRfcDefs.view in *. rewrite T in R. rewrite Hhc in R. cbn [rel] in R. rewrite R. rewrite T'.
           destruct Hr as [Hr|Hr]; rewrite Hr.
           ++ destruct w; cbn; auto.
           ++ destruct (id <=? sc_highestID c'); destruct w; reflexivity.
        -- destruct (Bother id T) as (_ & Hr & Hs). rewrite Hs. cbn [fold_left].
           eapply rel_drift; [exact R | | apply sdrift_refl].
           apply vdrift_intro; [unfold SrvRfcDefs.tbl in *; rewrite T, T'; reflexivity | exact Hr].
    + unfold R_block, after_outs. rewrite block_fold_sent, Bec. exact (S_blk _ _ _ _ HS).
    + unfold after_outs. rewrite goaway_fold_sent, (has_goaway_none _ Bng Bne), orb_false_r, Bcl. exact (S_ga _ _ _ _ HS).
    + unfold after_outs. rewrite highest_fold_sent by exact W. rewrite Bhigh. exact (S_hi _ _ _ _ HS).
    + rewrite Bec, Bdi. intros Hne T'.
      assert (T : tbl c (sc_expectCont c) = None).
      { destruct (tbl c (sc_expectCont c)) as [st|] eqn:T; [|reflexivity]. exfalso.
        destruct (Bclosed _ st T T') as (w & _ & _ & Hf & _). rewrite (A_ec _ _ AH st Hne T) in Hf. discriminate. }
      destruct (S_cont _ _ _ _ HS Hne T) as [X|X]; [left; exact X | right].
      unfold after_outs. rewrite dead_fold_sent, X. reflexivity.
    + intros st' H. destruct (Bkeep st' H) as (st & Hin & Hid & Hst & Hfin & _). rewrite Hid, (S_ph _ _ _ _ HS st Hin).
      unfold phase_of. rewrite Hst, Hfin. reflexivity.
    + rewrite Bcl, Bhigh. exact (S_new _ _ _ _ HS).
Qed.

End Batch.

Section Batch2.
Variable hstate : Type.
Variable dec_field : hstate -> N -> bytes -> dec_res hstate.
Variable enc_field : hstate -> bytes -> bytes -> bool -> bytes * hstate.
Variable enc_set_max : hstate -> N -> hstate.
Variable cfg : config.
Notation sconn := (sconn hstate).
Notation step := (step dec_field enc_field enc_set_max cfg).
Notation feed := (feed hstate dec_field enc_field enc_set_max cfg).
Notation Gloc := (Gloc hstate).
Notation view := (view hstate).
Notation tbl := (tbl hstate).
Notation Sim := (Sim hstate).
Notation AuxT := (AuxT hstate).
Notation AuxH := (AuxH hstate).
Notation batch := (batch hstate).
Implicit Types c : sconn.

Lemma has_close_exit d : existsb is_exit d = true -> has_close (flat_map sent_of (rev (filter noisy d))) = true.
Proof.
  intro H. apply existsb_exists in H. destruct H as (o & Hin & He). unfold has_close. apply existsb_exists.
  exists RS.Closed_connection. split; [|reflexivity]. apply in_flat_map. exists o. split.
  - apply in_rev. rewrite rev_involutive. apply filter_In. split; [exact Hin|].
    unfold noisy, is_exit in *. destruct (strip_late o); try discriminate; reflexivity.
  - unfold sent_of, is_exit in *. destruct (strip_late o); try discriminate; left; reflexivity.
Qed.

Lemma Gloc_over c s ph c' d : sc_sl_done c' = true -> sc_out c' = d ++ sc_out c -> existsb is_exit d = true ->
  (forall sid rq, ~ In (ODispatch sid rq) d) -> Gloc c s ph c'.
Proof.
  intros Hsl Ho He Hd. exists d. split; [exact Ho|]. rewrite Hsl. split; [|exact Hd].
  unfold after_outs. rewrite dead_fold_sent, (has_close_exit d He). apply orb_true_r.
Qed.

Lemma Gloc_batch c s ph c' d D : Sim c s ph -> sc_sl_done c' = false -> sc_out c' = d ++ sc_out c -> batch c c' d D ->
  (forall sid rq, ~ In (ODispatch sid rq) d) -> Gloc c s ph c'.
Proof.
  intros HS Hsl Ho HB Hd. exists d. split; [exact Ho|]. rewrite Hsl. split; [|exact Hd].
  apply (live_tuple_batch hstate c c' s ph d D HS HB).
Qed.

(* the same step followed by the end of the stream loop *)
Lemma Gloc_finish c s ph c3 d (b : bool) :
  sc_out c3 = d ++ sc_out c -> (forall sid rq, ~ In (ODispatch sid rq) d) ->
  (b = false -> Gloc c s ph c3) -> Gloc c s ph (fst (if b then brk c3 else cont c3)).
Proof.
  intros Ho Hd H. destruct b; [|apply H; reflexivity].
  apply (Gloc_over c s ph _ (OExit 1 0 :: d)).
  - reflexivity.
  - rewrite sc_out_brk, Ho. reflexivity.
  - reflexivity.
  - intros sid rq [X|X]; [discriminate | exact (Hd sid rq X)].
Qed.

(* ---------- a handler returns: finishRequest ---------- *)

Definition hdr_data_rst (o : outev) : Prop := match o with OHeaders _ _ _ | OData _ _ _ | ORst _ _ => True | _ => False end.

Lemma hdr_data_rst_facts d : Forall hdr_data_rst d ->
  (forall sid rq, ~ In (ODispatch sid rq) d) /\ (forall o, In o d -> is_goaway o = None) /\ existsb is_exit d = false.
Proof.
  intro F. split; [|split].
  - intros sid rq H. rewrite Forall_forall in F. exact (F _ H).
  - intros o H. rewrite Forall_forall in F. specialize (F _ H). destruct o; try contradiction; reflexivity.
  - induction F as [|o t Ho _ IH]; [reflexivity|]. cbn [existsb]. rewrite IH. destruct o; try contradiction; reflexivity.
Qed.

Lemma finish_request_spec c s r c1 s1 fin : wr hstate c -> finish_request enc_field c s r = (c1, s1, fin) ->
  exists d e w, c1 = upd_clientWindow (upd_out (upd_enc c e) (d ++ sc_out c)) w /\ Forall hdr_data_rst d /\
    st_id s1 = st_id s /\ st_state s1 = st_state s /\ st_headersFinished s1 = st_headersFinished s /\
    st_responded s1 = st_responded s /\ st_handlerRunning s1 = st_handlerRunning s /\
    (if fin then
       (exists o, filter noisy d = [o] /\ sent_of o = [RS.SentEndStream (st_id s)] /\ st_weReset s1 = st_weReset s) \/
       (filter noisy d = [ORst (st_id s) c_InternalError] /\ st_weReset s1 = true)
     else filter noisy d = [] /\ st_weReset s1 = st_weReset s /\ send_ok s1).
Proof.
  intros W. unfold finish_request.
  destruct (response_block enc_field (sc_enc c) r) as [blk e'].
  set (hasBody := match rs_body r with BStream _ _ => true | BBuffered [] => false | BBuffered (_ :: _) => true end).
  assert (W1 : wr hstate (upd_enc c e')) by exact W.
  rewrite (emit_wr hstate _ _ W1).
  set (o0 := OHeaders (st_id s) (negb hasBody) blk).
  set (cH := note (upd_enc c e') o0).
  destruct hasBody eqn:HB; cbn [negb].
  - (* a body follows *)
    set (n := match rs_body r with
              | BStream reads size => mkSnd (st_window s) [] false (Some reads) size 0
              | BBuffered b => mkSnd (st_window s) b true (st_bodyStream s) (st_bodySize s) (st_bodyRead s)
              end).
    assert (HM : has_more_to_send (set_snd s n) = true /\ send_ok (set_snd s n)).
    { unfold n, hasBody in *. destruct (rs_body r) as [[|b0 b']|reads size]; try discriminate.
      - split; [reflexivity|]. intros _ _. reflexivity.
      - split; [unfold has_more_to_send; cbn; reflexivity|]. intros _ B. cbn in B. discriminate. }
    destruct HM as [HM SO]. intro SD.
    assert (WH : wr hstate cH) by (unfold cH; apply wr_note, W1).
    destruct (send_data_spec hstate cH (set_snd s n) c1 s1 fin WH HM SO SD) as (ds & SDd & FD & Sid & Sst & Sfin & Sresp & Srun & Sorig & Sout).
    exists (ds ++ [o0]), e', (sc_clientWindow c1). split; [|split].
    + unfold sd in SDd. rewrite SDd at 1. unfold cH, note. sc_cbn. rewrite <- app_assoc. reflexivity.
    + apply Forall_app. split; [|repeat constructor].
      rewrite Forall_forall in *. intros o H. specialize (FD o H). destruct o; try contradiction; exact I.
    + assert (Fq : filter noisy (ds ++ [o0]) = filter noisy ds) by (rewrite filter_app; cbn; apply app_nil_r).
      rewrite Fq. repeat split; auto.
      destruct fin.
      * destruct Sout as [(ch & Fn & Wr)|(Fn & Wr)]; [left | right].
        -- exists (OData (st_id s) true ch). cbn in Fn. split; [exact Fn|]. split; [reflexivity | exact Wr].
        -- split; [exact Fn | exact Wr].
      * exact Sout.
  - (* no body: the HEADERS frame ends the stream *)
    intro H. inversion H; subst c1 s1 fin. exists [o0], e', (sc_clientWindow c). split; [|split].
    + unfold cH, note. destruct c; reflexivity.
    + repeat constructor.
    + repeat split; auto. left. exists o0. split; [reflexivity|]. split; reflexivity.
Qed.

Lemma sents_on_quiet id d : filter noisy d = [] -> sents_on id d = [].
Proof. unfold sents_on. intros ->. reflexivity. Qed.

Lemma sents_on_one id d o so : filter noisy d = [o] -> sent_of o = [so] -> sents_on id d = if on_id id so then [so] else [].
Proof. unfold sents_on. intros -> . cbn [rev app flat_map]. intros ->. cbn [app filter]. reflexivity. Qed.

(* nothing happens to the table or the ring, and nothing noisy is said *)
Lemma batch_same c c' d :
  AuxT c -> sc_strms c' = sc_strms c -> sc_ring c' = sc_ring c -> sc_oldest c' = sc_oldest c ->
  sc_rl_done c' = sc_rl_done c -> sc_wl_dead c' = sc_wl_dead c -> sc_readerQ c' = sc_readerQ c ->
  sc_lastID c' = sc_lastID c -> sc_highestID c' = sc_highestID c -> sc_closing c' = sc_closing c ->
  sc_expectCont c' = sc_expectCont c -> sc_discardID c' = sc_discardID c -> filter noisy d = [] ->
  batch c c' d [].
Proof.
  intros AT A1 A2 A3 A4 A5 A6 A7 A8 A9 A10 A11 Q.
  assert (Tb : forall id, tbl c' id = tbl c id) by (intro id; unfold SrvRfcDefs.tbl; rewrite A1; reflexivity).
  assert (Rf : forall id, ring_find c' id = ring_find c id) by (intro id; apply ring_find_ext, A2).
  constructor; try assumption.
  - apply (quiet_no_goaway d Q).
  - clear -Q. induction d as [|o t IH]; [reflexivity|]. cbn [filter] in Q. cbn [existsb]. destruct (noisy o) eqn:N; [discriminate|].
    rewrite (IH Q), orb_false_r. unfold noisy, is_exit in *. destruct (strip_late o); try discriminate; reflexivity.
  - rewrite A1. apply (A_nodup _ _ AT).
  - eapply ring_ok_ext; [exact A2 | exact A3 | apply (A_ring _ _ AT)].
  - intros st' H. rewrite A1 in H. exists st'. split; [exact H|]. split; [reflexivity|]. split; [reflexivity|]. split; [reflexivity|].
    split; [apply (AuxT_strm_ok hstate c st' AT H)|]. split; [apply sents_on_quiet, Q|].
    rewrite in_ring_find, Rf, <- in_ring_find. apply (A_tr _ _ AT st' H).
  - intros id st T T'. rewrite Tb in T'. congruence.
  - intros id T. rewrite Tb. split; [exact T|]. split; [left; apply Rf | apply sents_on_quiet, Q].
Qed.

End Batch2.
