(* Proofs/SrvRfcBatch.v - C08: steps in which the server sends on its own account (a handler's
   response, queued data after a window opens): some streams finish and move to the ring,
   the others keep their state. *)
From H2V Require Import Base.Bytes Base.MachineInt Base.Result Gen.GenConsts Impl.ServerConn.
From H2V Require Import Proofs.SrvBase Proofs.SrvRfcDefs Proofs.SrvRfcSpec Proofs.SrvRfcModel Proofs.SrvRfcSim Proofs.SrvRfcEff
  Proofs.SrvRfcSend Proofs.SrvRfcStep Proofs.SrvRfcKit Proofs.SrvRfcRl Proofs.SrvRfcSl Proofs.SrvRfcKnown.
From Coq Require Import ZArith Lia ZifyN ZifyNat ZifyBool.
Local Open Scope N_scope.

(* what the outputs of a step tell the specification about one stream id *)
Definition sents_on (id : N) (d : list outev) : list RS.sent :=
  filter (on_id id) (flat_map sent_of (rev (filter noisy d))).

Section Batch.
Variable hstate : Type.
Notation sconn := (sconn hstate).
Notation view := (view hstate).
Notation tbl := (tbl hstate).
Notation Sim := (Sim hstate).
Notation AuxT := (AuxT hstate).
Notation AuxH := (AuxH hstate).
Notation live_tuple := (live_tuple hstate).
Implicit Types c : sconn.

(* D: the streams that finished, with the flag their ring entry gets *)
Record batch c c' (d : list outev) (D : list (N * bool)) : Prop := {
  B_rl : sc_rl_done c' = sc_rl_done c;
  B_wl : sc_wl_dead c' = sc_wl_dead c;
  B_q : sc_readerQ c' = sc_readerQ c;
  B_last : sc_lastID c' = sc_lastID c;
  B_high : sc_highestID c' = sc_highestID c;
  B_cl : sc_closing c' = sc_closing c;
  B_ec : sc_expectCont c' = sc_expectCont c;
  B_di : sc_discardID c' = sc_discardID c;
  B_ng : forall o, In o d -> is_goaway o = None;
  B_ne : existsb is_exit d = false;
  B_nodup : NoDup (map st_id (sc_strms c'));
  B_ring : ring_ok hstate c';
  B_keep : forall st', In st' (sc_strms c') ->
           exists st, In st (sc_strms c) /\ st_id st' = st_id st /\ st_state st' = st_state st /\
                      st_headersFinished st' = st_headersFinished st /\ strm_ok st' /\
                      sents_on (st_id st) d = [] /\ in_ring c' (st_id st') = false;
  B_closed : forall id st, tbl c id = Some st -> tbl c' id = None ->
             exists w, In (id, w) D /\ st_state st = SHalfClosed /\ st_headersFinished st = true /\
                       (ring_find c' id = Some w \/ ring_find c' id = None) /\
                       sents_on id d = [if w then RS.SentRst id else RS.SentEndStream id];
  B_other : forall id, tbl c id = None ->
            tbl c' id = None /\ (ring_find c' id = ring_find c id \/ ring_find c' id = None) /\ sents_on id d = []
}.

Lemma st_of_after_on s d id : wf s -> RS.st_of (after_outs s d) id = fold_left sent_st (sents_on id d) (RS.st_of s id).
Proof. intro W. unfold after_outs, sents_on. apply st_of_fold_sent, W. Qed.

Lemma live_tuple_batch c c' s ph d D : Sim c s ph -> batch c c' d D -> live_tuple c' (after_outs s d) ph.
Proof.
  intros HS HB. pose proof (S_aux _ _ _ _ HS) as [AT AH]. pose proof (S_wf _ _ _ _ HS) as W.
  destruct HB as [Brl Bwl Bq Blast Bhigh Bcl Bec Bdi Bng Bne Bnd Bring Bkeep Bclosed Bother].
  assert (TbIn : forall st', In st' (sc_strms c') -> tbl c' (st_id st') = Some st') by (intros st' H; apply In_search; assumption).
  assert (TbIn0 : forall st, In st (sc_strms c) -> tbl c (st_id st) = Some st) by (intros st H; apply In_search; [apply (A_nodup _ _ AT) | exact H]).
  split; [split|].
  - (* AuxT *)
    constructor.
    + rewrite Brl. apply (A_rl _ _ AT).
    + rewrite Bwl. apply (A_wl _ _ AT).
    + rewrite Bq. apply (A_q _ _ AT).
    + exact Bnd.
    + intros st' H. destruct (Bkeep st' H) as (st & Hin & Hid & _). rewrite Hid, Blast. apply (A_ids _ _ AT st Hin).
    + rewrite Blast, Bhigh. apply (A_last _ _ AT).
    + exact Bring.
    + intros st' H. destruct (Bkeep st' H) as (st & _ & _ & _ & _ & _ & _ & X). exact X.
    + intros st' H. destruct (Bkeep st' H) as (st & _ & _ & _ & _ & (A & B & C & D' & _) & _). auto.
    + intros st' H. destruct (Bkeep st' H) as (st & _ & _ & _ & _ & (_ & _ & _ & _ & E) & _). exact E.
  - (* AuxH *)
    destruct AH as [F1 F2 F3 F4]. constructor.
    + intros st' H Hf. destruct (Bkeep st' H) as (st & Hin & Hid & _ & Hfin & _). rewrite Hid, Bec. apply (F1 st Hin). congruence.
    + intros st' Hne H. rewrite Bec in Hne, H. pose proof (search_In _ _ _ H) as HIn'.
      destruct (Bkeep st' HIn') as (st & Hin & Hid & _ & Hfin & _). rewrite Hfin. apply (F2 st Hne).
      pose proof (search_id _ _ _ H) as X. rewrite <- X, Hid. apply TbIn0, Hin.
    + rewrite Bec. exact F3.
    + rewrite Bdi, Bhigh. intro Hne. destruct (F4 Hne) as [X Y]. split; [apply (Bother _ X) | exact Y].
  - split; [|split; [|split; [|split; [|split; [|split]]]]].
    + (* the streams *)
      intros id O. rewrite st_of_after_on by exact W. pose proof (S_str _ _ _ _ HS id O) as R.
      destruct (tbl c' id) as [st'|] eqn:T'.
      * pose proof (search_In _ _ _ T') as HIn'. pose proof (search_id _ _ _ T') as Hid'.
        destruct (Bkeep st' HIn') as (st & Hin & Hid & Hst & _ & _ & Hs & _).
        assert (T : tbl c id = Some st) by (rewrite <- Hid', Hid; apply TbIn0, Hin).
        rewrite <- Hid, Hid' in Hs. rewrite Hs. cbn [fold_left].
        unfold SrvRfcDefs.view in *. rewrite T' . rewrite T in R. rewrite Hst. apply rel_rel1, R.
      * destruct (tbl c id) as [st|] eqn:T.
        -- destruct (Bclosed id st T T') as (w & _ & Hhc & _ & Hr & Hs). rewrite Hs. cbn [fold_left].
           unfold SrvRfcDefs.view in *. rewrite T in R. rewrite Hhc in R. cbn [rel] in R. rewrite R. rewrite T'.
           destruct Hr as [Hr|Hr]; rewrite Hr.
           ++ destruct w; cbn; auto.
           ++ destruct (id <=? sc_highestID c'); destruct w; reflexivity.
        -- destruct (Bother id T) as (_ & Hr & Hs). rewrite Hs. cbn [fold_left].
           eapply rel_drift; [exact R | | apply sdrift_refl].
           apply vdrift_intro; [unfold SrvRfcDefs.tbl in *; rewrite T, T'; reflexivity | exact Hr].
    + unfold R_block, after_outs. rewrite block_fold_sent, Bec. exact (S_blk _ _ _ _ HS).
    + unfold after_outs. rewrite goaway_fold_sent, (has_goaway_none _ Bng Bne), orb_false_r, Bcl. exact (S_ga _ _ _ _ HS).
    + unfold after_outs. rewrite highest_fold_sent by exact W. rewrite Bhigh. exact (S_hi _ _ _ _ HS).
    + rewrite Bec, Bdi. intros Hne T'.
      assert (T : tbl c (sc_expectCont c) = None).
      { destruct (tbl c (sc_expectCont c)) as [st|] eqn:T; [|reflexivity]. exfalso.
        destruct (Bclosed _ st T T') as (w & _ & _ & Hf & _). rewrite (A_ec _ _ AH st Hne T) in Hf. discriminate. }
      destruct (S_cont _ _ _ _ HS Hne T) as [X|X]; [left; exact X | right].
      unfold after_outs. rewrite dead_fold_sent, X. reflexivity.
    + intros st' H. destruct (Bkeep st' H) as (st & Hin & Hid & Hst & Hfin & _). rewrite Hid, (S_ph _ _ _ _ HS st Hin).
      unfold phase_of. rewrite Hst, Hfin. reflexivity.
    + rewrite Bcl, Bhigh. exact (S_new _ _ _ _ HS).
Qed.

End Batch.

Section Batch2.
Variable hstate : Type.
Variable dec_field : hstate -> N -> bytes -> dec_res hstate.
Variable enc_field : hstate -> bytes -> bytes -> bool -> bytes * hstate.
Variable enc_set_max : hstate -> N -> hstate.
Variable cfg : config.
Notation sconn := (sconn hstate).
Notation step := (step dec_field enc_field enc_set_max cfg).
Notation feed := (feed hstate dec_field enc_field enc_set_max cfg).
Notation Gloc := (Gloc hstate).
Notation view := (view hstate).
Notation tbl := (tbl hstate).
Notation Sim := (Sim hstate).
Notation AuxT := (AuxT hstate).
Notation AuxH := (AuxH hstate).
Notation batch := (batch hstate).
Implicit Types c : sconn.

Lemma has_close_exit d : existsb is_exit d = true -> has_close (flat_map sent_of (rev (filter noisy d))) = true.
Proof.
  intro H. apply existsb_exists in H. destruct H as (o & Hin & He). unfold has_close. apply existsb_exists.
  exists RS.Closed_connection. split; [|reflexivity]. apply in_flat_map. exists o. split.
  - apply in_rev. rewrite rev_involutive. apply filter_In. split; [exact Hin|].
    unfold noisy, is_exit in *. destruct (strip_late o); try discriminate; reflexivity.
  - unfold sent_of, is_exit in *. destruct (strip_late o); try discriminate; left; reflexivity.
Qed.

Lemma Gloc_over c s ph c' d : sc_sl_done c' = true -> sc_out c' = d ++ sc_out c -> existsb is_exit d = true ->
  (forall sid rq, ~ In (ODispatch sid rq) d) -> Gloc c s ph c'.
Proof.
  intros Hsl Ho He Hd. exists d. split; [exact Ho|]. rewrite Hsl. split; [|exact Hd].
  unfold after_outs. rewrite dead_fold_sent, (has_close_exit d He). apply orb_true_r.
Qed.

Lemma Gloc_batch c s ph c' d D : Sim c s ph -> sc_sl_done c' = false -> sc_out c' = d ++ sc_out c -> batch c c' d D ->
  (forall sid rq, ~ In (ODispatch sid rq) d) -> Gloc c s ph c'.
Proof.
  intros HS Hsl Ho HB Hd. exists d. split; [exact Ho|]. rewrite Hsl. split; [|exact Hd].
  apply (live_tuple_batch hstate c c' s ph d D HS HB).
Qed.

(* the same step followed by the end of the stream loop *)
Lemma Gloc_finish c s ph c3 d (b : bool) :
  sc_out c3 = d ++ sc_out c -> (forall sid rq, ~ In (ODispatch sid rq) d) ->
  (b = false -> Gloc c s ph c3) -> Gloc c s ph (fst (if b then brk c3 else cont c3)).
Proof.
  intros Ho Hd H. destruct b; [|apply H; reflexivity].
  apply (Gloc_over c s ph _ (OExit 1 0 :: d)).
  - reflexivity.
  - rewrite sc_out_brk, Ho. reflexivity.
  - reflexivity.
  - intros sid rq [X|X]; [discriminate | exact (Hd sid rq X)].
Qed.

(* ---------- a handler returns: finishRequest ---------- *)

Definition hdr_data_rst (o : outev) : Prop := match o with OHeaders _ _ _ | OData _ _ _ | ORst _ _ => True | _ => False end.

Lemma hdr_data_rst_facts d : Forall hdr_data_rst d ->
  (forall sid rq, ~ In (ODispatch sid rq) d) /\ (forall o, In o d -> is_goaway o = None) /\ existsb is_exit d = false.
Proof.
  intro F. split; [|split].
  - intros sid rq H. rewrite Forall_forall in F. exact (F _ H).
  - intros o H. rewrite Forall_forall in F. specialize (F _ H). destruct o; try contradiction; reflexivity.
  - induction F as [|o t Ho _ IH]; [reflexivity|]. cbn [existsb]. rewrite IH. destruct o; try contradiction; reflexivity.
Qed.

Lemma finish_request_spec c s r c1 s1 fin : wr hstate c -> finish_request enc_field c s r = (c1, s1, fin) ->
  exists d e w, c1 = upd_clientWindow (upd_out (upd_enc c e) (d ++ sc_out c)) w /\ Forall hdr_data_rst d /\
    st_id s1 = st_id s /\ st_state s1 = st_state s /\ st_headersFinished s1 = st_headersFinished s /\
    st_responded s1 = st_responded s /\ st_handlerRunning s1 = st_handlerRunning s /\
    (if fin then
       (exists o, filter noisy d = [o] /\ sent_of o = [RS.SentEndStream (st_id s)] /\ st_weReset s1 = st_weReset s) \/
       (filter noisy d = [ORst (st_id s) c_InternalError] /\ st_weReset s1 = true)
     else filter noisy d = [] /\ st_weReset s1 = st_weReset s /\ send_ok s1).
Proof.
  intros W. unfold finish_request.
  destruct (response_block enc_field (sc_enc c) r) as [blk e'].
  set (hasBody := match rs_body r with BStream _ _ => true | BBuffered [] => false | BBuffered (_ :: _) => true end).
  assert (W1 : wr hstate (upd_enc c e')) by exact W.
  rewrite (emit_wr hstate _ _ W1).
  set (o0 := OHeaders (st_id s) (negb hasBody) blk).
  set (cH := note (upd_enc c e') o0).
  destruct hasBody eqn:HB; cbn [negb].
  - (* a body follows *)
    set (n := match rs_body r with
              | BStream reads size => mkSnd (st_window s) [] false (Some reads) size 0
              | BBuffered b => mkSnd (st_window s) b true (st_bodyStream s) (st_bodySize s) (st_bodyRead s)
              end).
    assert (HM : has_more_to_send (set_snd s n) = true /\ send_ok (set_snd s n)).
    { unfold n, hasBody in *. destruct (rs_body r) as [[|b0 b']|reads size]; try discriminate.
      - split; [reflexivity|]. intros _ _. reflexivity.
      - split; [unfold has_more_to_send; cbn; reflexivity|]. intros _ B. cbn in B. discriminate. }
    destruct HM as [HM SO]. intro SD.
    assert (WH : wr hstate cH) by (unfold cH; apply wr_note, W1).
    destruct (send_data_spec hstate cH (set_snd s n) c1 s1 fin WH HM SO SD) as (ds & SDd & FD & Sid & Sst & Sfin & Sresp & Srun & Sorig & Sout).
    exists (ds ++ [o0]), e', (sc_clientWindow c1). split; [|split].
    + unfold sd in SDd. rewrite SDd at 1. unfold cH, note. sc_cbn. rewrite <- app_assoc. reflexivity.
    + apply Forall_app. split; [|repeat constructor].
      rewrite Forall_forall in *. intros o H. specialize (FD o H). destruct o; try contradiction; exact I.
    + assert (Fq : filter noisy (ds ++ [o0]) = filter noisy ds) by (rewrite filter_app; cbn; apply app_nil_r).
      rewrite Fq. repeat split; auto.
      destruct fin.
      * destruct Sout as [(ch & Fn & Wr)|(Fn & Wr)]; [left | right].
        -- exists (OData (st_id s) true ch). cbn in Fn. split; [exact Fn|]. split; [reflexivity | exact Wr].
        -- split; [exact Fn | exact Wr].
      * exact Sout.
  - (* no body: the HEADERS frame ends the stream *)
    intro H. inversion H; subst c1 s1 fin. exists [o0], e', (sc_clientWindow c). split; [|split].
    + unfold cH, note. destruct c; reflexivity.
    + repeat constructor.
    + repeat split; auto. left. exists o0. split; [reflexivity|]. split; reflexivity.
Qed.

Lemma sents_on_quiet id d : filter noisy d = [] -> sents_on id d = [].
Proof. unfold sents_on. intros ->. reflexivity. Qed.

Lemma sents_on_one id d o so : filter noisy d = [o] -> sent_of o = [so] -> sents_on id d = if on_id id so then [so] else [].
Proof. unfold sents_on. intros -> . cbn [rev app flat_map]. intros ->. cbn [app filter]. reflexivity. Qed.

(* nothing happens to the table or the ring, and nothing noisy is said *)
Lemma batch_same c c' d :
  AuxT c -> sc_strms c' = sc_strms c -> sc_ring c' = sc_ring c -> sc_oldest c' = sc_oldest c ->
  sc_rl_done c' = sc_rl_done c -> sc_wl_dead c' = sc_wl_dead c -> sc_readerQ c' = sc_readerQ c ->
  sc_lastID c' = sc_lastID c -> sc_highestID c' = sc_highestID c -> sc_closing c' = sc_closing c ->
  sc_expectCont c' = sc_expectCont c -> sc_discardID c' = sc_discardID c -> filter noisy d = [] ->
  batch c c' d [].
Proof.
  intros AT A1 A2 A3 A4 A5 A6 A7 A8 A9 A10 A11 Q.
  assert (Tb : forall id, tbl c' id = tbl c id) by (intro id; unfold SrvRfcDefs.tbl; rewrite A1; reflexivity).
  assert (Rf : forall id, ring_find c' id = ring_find c id) by (intro id; apply ring_find_ext, A2).
  constructor; try assumption.
  - apply (quiet_no_goaway d Q).
  - clear -Q. induction d as [|o t IH]; [reflexivity|]. cbn [filter] in Q. cbn [existsb]. destruct (noisy o) eqn:N; [discriminate|].
    rewrite (IH Q), orb_false_r. unfold noisy, is_exit in *. destruct (strip_late o); try discriminate; reflexivity.
  - rewrite A1. apply (A_nodup _ _ AT).
  - eapply ring_ok_ext; [exact A2 | exact A3 | apply (A_ring _ _ AT)].
  - intros st' H. rewrite A1 in H. exists st'. split; [exact H|]. split; [reflexivity|]. split; [reflexivity|]. split; [reflexivity|].
    split; [apply (AuxT_strm_ok hstate c st' AT H)|]. split; [apply sents_on_quiet, Q|].
    rewrite in_ring_find, Rf, <- in_ring_find. apply (A_tr _ _ AT st' H).
  - intros id st T T'. rewrite Tb in T'. congruence.
  - intros id T. rewrite Tb. split; [exact T|]. split; [left; apply Rf | apply sents_on_quiet, Q].
Qed.

(* one stream of the table sends, and stays *)
Lemma batch_put1 c c' d st s2 :
  AuxT c -> In st (sc_strms c) ->
  sc_strms c' = strms_put (sc_strms c) s2 -> sc_ring c' = sc_ring c -> sc_oldest c' = sc_oldest c ->
  sc_rl_done c' = sc_rl_done c -> sc_wl_dead c' = sc_wl_dead c -> sc_readerQ c' = sc_readerQ c ->
  sc_lastID c' = sc_lastID c -> sc_highestID c' = sc_highestID c -> sc_closing c' = sc_closing c ->
  sc_expectCont c' = sc_expectCont c -> sc_discardID c' = sc_discardID c -> filter noisy d = [] ->
  st_id s2 = st_id st -> st_state s2 = st_state st -> st_headersFinished s2 = st_headersFinished st -> strm_ok s2 ->
  batch c c' d [].
Proof.
  intros AT HIn A1 A2 A3 A4 A5 A6 A7 A8 A9 A10 A11 Q Hid Hst Hfin Hok.
  pose proof (A_nodup _ _ AT) as ND. assert (T0 : tbl c (st_id st) = Some st) by (apply In_search; assumption).
  assert (TbS : tbl c' (st_id st) = Some s2).
  { unfold SrvRfcDefs.tbl in *. rewrite A1, <- Hid. eapply search_put_same. rewrite Hid. exact T0. }
  assert (TbO : forall id, id <> st_id st -> tbl c' id = tbl c id).
  { intros id Hne. unfold SrvRfcDefs.tbl. rewrite A1. apply search_put_other. rewrite Hid. exact Hne. }
  assert (Rf : forall id, ring_find c' id = ring_find c id) by (intro id; apply ring_find_ext, A2).
  constructor; try assumption.
  - apply (quiet_no_goaway d Q).
  - clear -Q. induction d as [|o t IH]; [reflexivity|]. cbn [filter] in Q. cbn [existsb]. destruct (noisy o) eqn:N; [discriminate|].
    rewrite (IH Q), orb_false_r. unfold noisy, is_exit in *. destruct (strip_late o); try discriminate; reflexivity.
  - rewrite A1. apply put_nodup, ND.
  - eapply ring_ok_ext; [exact A2 | exact A3 | apply (A_ring _ _ AT)].
  - intros st' H. rewrite A1 in H. destruct (put_In _ _ _ ND H) as [->|[X Y]].
    + exists st. split; [exact HIn|]. split; [exact Hid|]. split; [exact Hst|]. split; [exact Hfin|]. split; [exact Hok|].
      split; [apply sents_on_quiet, Q|]. rewrite in_ring_find, Rf, <- in_ring_find, Hid. apply (A_tr _ _ AT st HIn).
    + exists st'. split; [exact X|]. split; [reflexivity|]. split; [reflexivity|]. split; [reflexivity|].
      split; [apply (AuxT_strm_ok hstate c st' AT X)|]. split; [apply sents_on_quiet, Q|].
      rewrite in_ring_find, Rf, <- in_ring_find. apply (A_tr _ _ AT st' X).
  - intros id st0 T T'. exfalso. destruct (N.eq_dec id (st_id st)) as [->|Hne]; [rewrite TbS in T'; discriminate|]. rewrite (TbO id Hne), T in T'. discriminate.
  - intros id T. assert (Hne : id <> st_id st) by (intro X; rewrite X, T0 in T; discriminate).
    rewrite (TbO id Hne). split; [exact T|]. split; [left; apply Rf | apply sents_on_quiet, Q].
Qed.

(* one stream of the table finishes its response (END_STREAM, or RST_STREAM if the body failed) and is closed *)
Lemma batch_close1 c c' d st w so :
  AuxT c -> In st (sc_strms c) -> st_state st = SHalfClosed -> st_headersFinished st = true ->
  sc_strms c' = strms_del (sc_strms c) (st_id st) ->
  sc_ring c' = sc_ring (mark_closed c (st_id st) w) -> sc_oldest c' = sc_oldest (mark_closed c (st_id st) w) ->
  sc_rl_done c' = sc_rl_done c -> sc_wl_dead c' = sc_wl_dead c -> sc_readerQ c' = sc_readerQ c ->
  sc_lastID c' = sc_lastID c -> sc_highestID c' = sc_highestID c -> sc_closing c' = sc_closing c ->
  sc_expectCont c' = sc_expectCont c -> sc_discardID c' = sc_discardID c ->
  (forall o, In o d -> is_goaway o = None) -> existsb is_exit d = false ->
  (exists o, filter noisy d = [o] /\ sent_of o = [so]) -> so = (if w then RS.SentRst (st_id st) else RS.SentEndStream (st_id st)) ->
  batch c c' d [(st_id st, w)].
Proof.
  intros AT HIn Hhc Hfin A1 A2 A3 A4 A5 A6 A7 A8 A9 A10 A11 Hng Hne (o & Q & So) Hso.
  pose proof (A_nodup _ _ AT) as ND. assert (T0 : tbl c (st_id st) = Some st) by (apply In_search; assumption). pose proof (A_ring _ _ AT) as RO.
  assert (TbS : tbl c' (st_id st) = None) by (unfold SrvRfcDefs.tbl; rewrite A1; apply search_del_same, ND).
  assert (TbO : forall id, id <> st_id st -> tbl c' id = tbl c id).
  { intros id Hn. unfold SrvRfcDefs.tbl. rewrite A1. apply search_del_other, Hn. }
  assert (Rf : forall id, ring_find c' id = ring_find (mark_closed c (st_id st) w) id) by (intro id; apply ring_find_ext, A2).
  assert (Rn : ring_find c (st_id st) = None).
  { pose proof (A_tr _ _ AT st HIn) as X. rewrite in_ring_find in X. destruct (ring_find c (st_id st)); [discriminate | reflexivity]. }
  assert (On : forall id, id <> st_id st -> sents_on id d = []).
  { intros id Hn. rewrite (sents_on_one id d o so Q So). subst so. unfold on_id. destruct w; cbn [sent_sid];
      replace (st_id st =? id) with false by (symmetry; apply N.eqb_neq; congruence); reflexivity. }
  constructor; try assumption.
  - rewrite A1. apply del_nodup, ND.
  - eapply ring_ok_ext; [exact A2 | exact A3 | apply ring_ok_mark, RO].
  - intros st' H. rewrite A1 in H. destruct (del_In _ _ _ ND H) as [X Y].
    exists st'. split; [exact X|]. split; [reflexivity|]. split; [reflexivity|]. split; [reflexivity|].
    split; [apply (AuxT_strm_ok hstate c st' AT X)|]. split; [apply On, Y|].
    rewrite in_ring_find, Rf. pose proof (A_tr _ _ AT st' X) as Z. rewrite in_ring_find in Z.
    destruct (ring_find_mark_other hstate c (st_id st) w (st_id st') RO Y) as [E|E]; rewrite E; [exact Z | reflexivity].
  - intros id st0 T T'. destruct (N.eq_dec id (st_id st)) as [->|Hn]; [|rewrite (TbO id Hn), T in T'; discriminate].
    exists w. split; [left; reflexivity|]. rewrite T0 in T. injection T as <-.
    split; [exact Hhc|]. split; [exact Hfin|]. split.
    + left. rewrite Rf, ring_find_mark_same by exact RO. rewrite Rn. reflexivity.
    + rewrite (sents_on_one _ d o so Q So). subst so. unfold on_id. destruct w; cbn [sent_sid]; rewrite N.eqb_refl; reflexivity.
  - intros id T. assert (Hn : id <> st_id st) by (intro X; rewrite X, T0 in T; discriminate).
    rewrite (TbO id Hn). split; [exact T|]. split; [rewrite Rf; apply ring_find_mark_other; assumption | apply On, Hn].
Qed.

(* ---------- a handler returns ---------- *)

Lemma quiet_exit_false d : filter noisy d = [] -> existsb is_exit d = false.
Proof.
  intro Q. induction d as [|o t IH]; [reflexivity|]. cbn [filter] in Q. cbn [existsb]. destruct (noisy o) eqn:N; [discriminate|].
  rewrite (IH Q), orb_false_r. unfold noisy, is_exit in *. destruct (strip_late o); try discriminate; reflexivity.
Qed.

Lemma G_done c s ph sid r : Sim c s ph -> sc_sl_done c = false -> Gloc c s ph (feed c (IDone sid r)).
Proof.
  intros HS Hsl. pose proof (S_aux _ _ _ _ HS) as [AT AH]. pose proof (A_wl _ _ AT) as Hwl.
  unfold SrvRfcDefs.feed. rewrite step_EvDone, Hsl. unfold sl_done.
  destruct (take_stream (sc_gone c) sid) as [[sg rest]|] eqn:TK.
  - (* a stream that was closed while its handler ran: released now *)
    cbn [fst cont]. set (c' := release_stream _ _).
    apply (Gloc_batch c s ph c' [ORelease (st_id (set_flags sg (st_responded sg) false true)) true] [] HS).
    + unfold c'. sc_rw. exact Hsl.
    + unfold c'. rewrite sc_out_release_stream. reflexivity.
    + apply batch_same; try exact AT; unfold c'; sc_rw; reflexivity.
    + intros i rq [H|[]]; discriminate.
  - destruct (strms_search (sc_strms c) sid) as [st|] eqn:T.
    2:{ cbn [fst cont]. apply (Gloc_batch c s ph c [] [] HS Hsl eq_refl); [apply batch_same; auto | intros i rq []]. }
    destruct (st_handlerRunning st) eqn:RUN; cbn [negb].
    2:{ cbn [fst cont]. apply (Gloc_batch c s ph c [] [] HS Hsl eq_refl); [apply batch_same; auto | intros i rq []]. }
    pose proof (search_In _ _ _ T) as HIn. pose proof (search_id _ _ _ T) as Hid.
    destruct (A_st _ _ AT st HIn) as (_ & Wr & Rh & Once). destruct (Rh (or_intror RUN)) as [Hhc Hfin]. pose proof (Once Hhc Hfin) as Resp.
    set (s1 := set_flags st (st_responded st) false (st_abandoned st)).
    destruct (finish_request enc_field c s1 r) as [[c1 s2] fin] eqn:FR.
    destruct (finish_request_spec c s1 r c1 s2 fin (conj Hsl Hwl) FR) as (d & e & w & Ec1 & FD & Sid & Sst & Sfin & Sresp & Srun & Sout).
    destruct (hdr_data_rst_facts d FD) as (Dnd & Dng & Dne).
    assert (Id2 : st_id s2 = st_id st) by (rewrite Sid; reflexivity).
    destruct fin.
    + (* the response is complete: the stream is closed *)
      set (sC := set_state s2 SClosed).
      set (c3 := close_stream (put c1 sC) sC).
      set (d3 := if st_handlerRunning sC then d else ORelease (st_id sC) true :: d).
      assert (O3 : sc_out c3 = d3 ++ sc_out c).
      { unfold c3, d3. rewrite sc_out_close_stream, sc_out_put, Ec1. sc_cbn. destruct (st_handlerRunning sC); reflexivity. }
      assert (F3 : filter noisy d3 = filter noisy d) by (unfold d3; destruct (st_handlerRunning sC); reflexivity).
      assert (Nd3 : forall i rq, ~ In (ODispatch i rq) d3).
      { unfold d3. destruct (st_handlerRunning sC); [exact Dnd|]. intros i rq [H|H]; [discriminate | exact (Dnd i rq H)]. }
      apply (Gloc_finish c s ph c3 d3 _ O3 Nd3). intros _.
      assert (IdC : st_id sC = st_id st) by (unfold sC; cbn; exact Id2).
      apply (Gloc_batch c s ph c3 d3 [(st_id st, st_weReset sC)] HS); [unfold c3; sc_rw; rewrite Ec1; sc_cbn; exact Hsl | exact O3 | | exact Nd3].
      apply (batch_close1 c c3 d3 st (st_weReset sC) (if st_weReset sC then RS.SentRst (st_id st) else RS.SentEndStream (st_id st)) AT HIn Hhc Hfin);
        unfold c3; rewrite ?sc_strms_close_stream, ?sc_ring_close_stream, ?sc_oldest_close_stream, ?sc_discardID_close_stream; sc_rw; rewrite ?Ec1; sc_cbn; rewrite ?IdC; try reflexivity.
      * rewrite ?sc_strms_put, ?Ec1. sc_cbn. rewrite <- IdC at 1. rewrite del_put, IdC. reflexivity.
      * apply mark_closed_ring_ext; sc_rw; rewrite ?Ec1; reflexivity.
      * apply mark_closed_ring_ext; sc_rw; rewrite ?Ec1; reflexivity.
      * unfold sC. cbn [st_headersFinished set_state]. rewrite Sfin. cbn. rewrite Hfin. cbn [negb andb]. rewrite andb_false_r. reflexivity.
      * unfold d3. destruct (st_handlerRunning sC); [exact Dng|]. intros o [<-|H]; [reflexivity | apply Dng, H].
      * unfold d3. destruct (st_handlerRunning sC); [exact Dne|]. cbn [existsb is_exit strip_late orb]. exact Dne.
      * rewrite F3. destruct Sout as [(o & Fq & So & Wr2)|(Fq & Wr2)].
        -- exists o. split; [exact Fq|]. unfold sC. cbn [st_weReset set_state]. rewrite Wr2. cbn. rewrite Wr. rewrite So. cbn. rewrite Hid. reflexivity.
        -- exists (ORst (st_id s1) c_InternalError). split; [exact Fq|]. unfold sC. cbn [st_weReset set_state]. rewrite Wr2. reflexivity.
    + (* more to send later *)
      destruct Sout as (Fq & Wr2 & Sok).
      assert (O3 : sc_out (put c1 s2) = d ++ sc_out c) by (rewrite sc_out_put, Ec1; reflexivity).
      apply (Gloc_finish c s ph (put c1 s2) d _ O3 Dnd). intros _.
      apply (Gloc_batch c s ph (put c1 s2) d [] HS); [sc_rw; rewrite Ec1; sc_cbn; exact Hsl | exact O3 | | exact Dnd].
      apply (batch_put1 c (put c1 s2) d st s2 AT HIn); sc_rw; rewrite ?Ec1; sc_cbn; try reflexivity; try assumption.
      unfold strm_ok. rewrite Sst, Sresp, Srun, Sfin, Wr2. cbn. rewrite Hhc, Hfin, Resp, Wr. repeat split; auto.
Qed.

(* ---------- every stream of the table is rewritten in place (SETTINGS changes the windows) ---------- *)

Definition same_shape (a b : stream) : Prop :=
  st_id b = st_id a /\ st_state b = st_state a /\ st_headersFinished b = st_headersFinished a /\ (strm_ok a -> strm_ok b).

Lemma same_shape_refl a : same_shape a a. Proof. unfold same_shape. auto. Qed.

Lemma Forall2_ids l l' : Forall2 same_shape l l' -> map st_id l' = map st_id l.
Proof. induction 1 as [|a b l l' H _ IH]; [reflexivity|]. cbn [map]. destruct H as [-> _]. rewrite IH. reflexivity. Qed.

Lemma Forall2_In_r l l' b : Forall2 same_shape l l' -> In b l' -> exists a, In a l /\ same_shape a b.
Proof.
  induction 1 as [|a0 b0 l l' H _ IH]; cbn [In]; [tauto|]. intros [<-|X]; [exists a0; auto|].
  destruct (IH X) as (a & Ha & Hs). exists a. auto.
Qed.

Lemma Forall2_search l l' id : Forall2 same_shape l l' ->
  match strms_search l id, strms_search l' id with
  | Some a, Some b => same_shape a b
  | None, None => True
  | _, _ => False
  end.
Proof.
  induction 1 as [|a b l l' H _ IH]; cbn [strms_search]; [exact I|].
  destruct H as (Hid & Hr). rewrite Hid. destruct (st_id a =? id); [split; [exact Hid | exact Hr] | exact IH].
Qed.

Lemma batch_rel c c' d :
  AuxT c -> Forall2 same_shape (sc_strms c) (sc_strms c') -> sc_ring c' = sc_ring c -> sc_oldest c' = sc_oldest c ->
  sc_rl_done c' = sc_rl_done c -> sc_wl_dead c' = sc_wl_dead c -> sc_readerQ c' = sc_readerQ c ->
  sc_lastID c' = sc_lastID c -> sc_highestID c' = sc_highestID c -> sc_closing c' = sc_closing c ->
  sc_expectCont c' = sc_expectCont c -> sc_discardID c' = sc_discardID c -> filter noisy d = [] ->
  batch c c' d [].
Proof.
  intros AT F2 A2 A3 A4 A5 A6 A7 A8 A9 A10 A11 Q.
  assert (Rf : forall id, ring_find c' id = ring_find c id) by (intro id; apply ring_find_ext, A2).
  pose proof (A_nodup _ _ AT) as ND.
  constructor; try assumption.
  - apply (quiet_no_goaway d Q).
  - apply quiet_exit_false, Q.
  - rewrite (Forall2_ids _ _ F2). exact ND.
  - eapply ring_ok_ext; [exact A2 | exact A3 | apply (A_ring _ _ AT)].
  - intros st' H. destruct (Forall2_In_r _ _ _ F2 H) as (st & Hin & Hid & Hst & Hfin & Hok).
    exists st. split; [exact Hin|]. split; [exact Hid|]. split; [exact Hst|]. split; [exact Hfin|].
    split; [apply Hok, (AuxT_strm_ok hstate c st AT Hin)|]. split; [apply sents_on_quiet, Q|].
    rewrite in_ring_find, Rf, <- in_ring_find, Hid. apply (A_tr _ _ AT st Hin).
  - intros id st T T'. pose proof (Forall2_search _ _ id F2) as X. unfold SrvRfcDefs.tbl in T, T'. rewrite T, T' in X. destruct X.
  - intros id T. pose proof (Forall2_search _ _ id F2) as X. unfold SrvRfcDefs.tbl in *. rewrite T in X.
    destruct (strms_search (sc_strms c') id); [destruct X|]. split; [reflexivity|]. split; [left; apply Rf | apply sents_on_quiet, Q].
Qed.

End Batch2.
