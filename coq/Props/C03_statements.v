(* C03 -- the HPACK decoder is RFC 7541: STATEMENTS (phase 1). Phase 2 proves them and moves them,
   as Theorems closed by [exact], to Props/C03.v. Nothing here is assumed: every statement is a
   [Definition ... : Prop]; the Examples at the end are sanity tests by computation. *)
From H2V Require Import Base.Bytes Base.MachineInt Base.Result Gen.GenConsts Gen.GenStatic
     Impl.Huffman Impl.Hpack Spec.Rfc7541Huffman Spec.Rfc7541.
Local Open Scope N_scope.

(* [abs], [triple_of], [proj], [proj_history], [field_ok], [table_ok], [block_small], [frames_of],
   [nameref_ok], [repr_ok] live in Proofs/HpackDefs.v *)
From H2V Require Export Proofs.HpackDefs.

(* ---- (0) the tables the model is generated from are the RFC's ---- *)
Definition C03_static_table_is_rfc : Prop := static_table = rfc_static_table.
Definition C03_max_index : Prop := c_maxIndex = static_len + 1.

(* the executable Huffman decoder of the specification decides exactly spec_valid *)
Definition C03_spec_huff_decode_exact : Prop :=
  forall b s, bytes_ok b = true -> (spec_huff_decode b = Some s <-> spec_valid b s).

(* ---- (a) one block: the decoder refines the specification ---- *)
Definition C03_dec_refines_spec : Prop :=
  forall st b, bytes_ok b = true -> table_ok st -> block_small st b ->
    proj (block_decode st b) = spec_decode_block (abs st) b.

(* reachable states stay reachable *)
Definition C03_table_ok_preserved : Prop :=
  forall st b fs st', bytes_ok b = true -> table_ok st -> block_small st b ->
    block_decode st b = Ok (fs, st') -> table_ok st'.

(* ---- (b) a connection: any sequence of blocks, tables stay identical ---- *)
Definition C03_history_refines_spec : Prop :=
  forall st bs, forallb bytes_ok bs = true -> table_ok st -> Forall (block_small st) bs ->
    proj_history (decode_history st bs) = spec_decode_blocks (abs st) bs.

(* ---- (c) HEADERS + CONTINUATION: cutting a block anywhere changes nothing ---- *)

Definition C03_split_invariance : Prop :=
  forall st frags, frags <> [] -> forallb bytes_ok frags = true -> table_ok st -> block_small st (concat frags) ->
    block_decode_frames st (frames_of true frags) = block_decode st (concat frags).

(* ---- (d) the specification is self-consistent: decoding what any conforming encoder may emit
   (any index choice, any Huffman/raw choice, any string length) gives the meaning of what it chose ---- *)
Definition C03_spec_self_consistent : Prop :=
  forall t rs, forallb repr_ok rs = true ->
    (forall r, In r rs -> match r with
                          | Literal _ nr _ _ v => len v < 2 ^ 32 /\ match nr with NameLit n => len n < 2 ^ 32 | _ => True end
                          | _ => True end) ->
    spec_decode_block t (spec_enc_block rs) = spec_sem t rs.

(* ---- (e) totality: no panic, progress, bounded output ---- *)
Definition C03_next_field_no_panic : Prop :=
  forall st hf blockStart fp b, is_panic (nf_res (next_field st hf blockStart fp b)) = false.

Definition C03_block_decode_no_panic : Prop :=
  forall st frs, is_panic (block_decode_frames st frs) = false.

(* planned, for the server model (Impl/ServerInst.v): the outcome of a call (rest, decoded, error,
   the HPACK state) does not depend on what the caller's HeaderField held, and neither does the
   field it holds afterwards when one was decoded *)
Definition C03_next_field_ignores_hf : Prop :=
  forall st hf hf' blockStart fp b,
    let o := next_field st hf blockStart fp b in
    let o' := next_field st hf' blockStart fp b in
    nf_res o = nf_res o' /\ nf_hp o = nf_hp o' /\
    (forall rest, nf_res o = Ok (rest, true) -> nf_hf o = nf_hf o').

(* a successful call on a non-empty input consumes at least one octet; a field is only reported
   with octets consumed *)
Definition C03_next_field_progress : Prop :=
  forall st hf blockStart fp b rest decoded, b <> [] ->
    nf_res (next_field st hf blockStart fp b) = Ok (rest, decoded) ->
    (length rest < length b)%nat /\ exists consumed, b = consumed ++ rest.

(* the header list is bounded by the input and the table: at most one field per octet, and every
   field is a table entry, or was spelled out in the block, or a table entry's name with a value
   spelled out in the block *)
Definition C03_output_bounded : Prop :=
  forall st b fs st', bytes_ok b = true -> table_ok st -> block_small st b ->
    block_decode st b = Ok (fs, st') ->
    (length fs <= length b)%nat /\
    Forall (fun f => len (f_key f) + len (f_value f) + 32 <= N.max (h_max_settings st) 64 + 2 * len b + 32) fs.

(* ------------------------------------------------------------------ *)
(* Sanity tests: RFC 7541 Appendix C and the corner cases of the statements, by computation. *)

Definition st0 : hpack_state := hpack_init false false.

Definition agree (st : hpack_state) (b : bytes) : bool :=
  match proj (block_decode st b), spec_decode_block (abs st) b with
  | Some (fs, t), Some (fs', t') =>
      (Nat.eqb (length fs) (length fs')) &&
      forallb (fun p => bytes_eqb (fst (fst (fst p))) (fst (fst (snd p))) && bytes_eqb (snd (fst (fst p))) (snd (fst (snd p)))
                        && Bool.eqb (snd (fst p)) (snd (snd p))) (combine fs fs') &&
      (dt_max t =? dt_max t') && (dt_limit t =? dt_limit t') &&
      bytes_eqb (concat (map (fun e => fst e ++ [256] ++ snd e ++ [257]) (dt_entries t)))
                (concat (map (fun e => fst e ++ [256] ++ snd e ++ [257]) (dt_entries t')))
  | None, None => true
  | _, _ => false
  end.

Definition state_after (st : hpack_state) (b : bytes) : hpack_state :=
  match block_decode st b with Ok (_, st') => st' | _ => st end.

(* C.4.1 - C.4.3: three requests with Huffman coding on one connection *)
Definition c41 : bytes := [130;134;132;65;140;241;227;194;229;242;58;107;160;171;144;244;255].
Definition c42 : bytes := [130;134;132;190;88;134;168;235;16;100;156;191].
Definition c43 : bytes := [130;135;133;191;64;136;37;168;73;233;91;169;125;127;137;37;168;73;233;91;184;232;180;191].

Example C03_sanity_appendix_c4 :
  agree st0 c41 && agree (state_after st0 c41) c42 && agree (state_after (state_after st0 c41) c42) c43
  && is_ok (block_decode (state_after (state_after st0 c41) c42) c43) = true.
Proof. vm_compute. reflexivity. Qed.

(* C.2.3 never indexed; size updates alone, twice, above the limit, after a field; index 0; index past the
   table; truncated field; over-long integer (10 continuation octets) *)
Example C03_sanity_corner_cases :
  forallb (agree st0)
    [ [16;8;112;97;115;115;119;111;114;100;6;115;101;99;114;101;116];
      [32]; [63;225;31]; [32;63;225;31;130]; [63;226;31]; [130;32]; [128]; [190]; [64;1;97]; [64];
      [255;128;128;128;128;128;128;128;128;128;128;0]; [0;1;97;129;255] ] = true.
Proof. vm_compute. reflexivity. Qed.

Example C03_sanity_rejects :
  map (fun b => is_ok (block_decode st0 b)) [ [130;32]; [128]; [190]; [64;1;97]; [63;226;31]; [32] ]
  = [false; false; false; false; false; true].
Proof. vm_compute. reflexivity. Qed.

(* split invariance on C.4.1 cut after every octet, and on a size update followed by a field *)
Definition split_ok (st : hpack_state) (b : bytes) (k : nat) : bool :=
  match block_decode_frames st (frames_of true [firstn k b; skipn k b]), block_decode st b with
  | Ok (fs, s1), Ok (fs', s2) =>
      (Nat.eqb (length fs) (length fs')) &&
      forallb (fun p => bytes_eqb (f_key (fst p)) (f_key (snd p)) && bytes_eqb (f_value (fst p)) (f_value (snd p)))
              (combine fs fs') && (h_max s1 =? h_max s2) && Nat.eqb (length (h_dynamic s1)) (length (h_dynamic s2))
  | Err _, Err _ => true
  | _, _ => false
  end.

Example C03_sanity_split :
  forallb (split_ok st0 c41) (seq 0 18) && forallb (split_ok st0 [32;63;225;31;0;1;97;1;98]) (seq 0 10) = true.
Proof. vm_compute. reflexivity. Qed.

Example C03_sanity_self_consistent :
  let rs := [SizeUpdate 100; Indexed 2; Literal Incremental (NameIdx 1) false true [119;119;119];
             Literal Never (NameLit [120]) true false [121]; Indexed 62; Literal Without (NameIdx 62) false false []] in
  match spec_decode_block (dtable_init 4096) (spec_enc_block rs), spec_sem (dtable_init 4096) rs with
  | Some (fs, t), Some (fs', t') => Nat.eqb (length fs) 5 && Nat.eqb (length fs') 5 && (dt_max t =? 100) && (dt_max t' =? 100)
  | _, _ => false
  end = true.
Proof. vm_compute. reflexivity. Qed.

Example C03_sanity_static_table : C03_static_table_is_rfc /\ C03_max_index.
Proof. split; vm_compute; reflexivity. Qed.
