(* Property C18, server half: every SETTINGS frame received is acknowledged exactly once, in order; invalid values
   are a connection error whose GOAWAY names the RFC's code; from the acknowledgement on the peer's values are
   respected and the server's own advertised values are the ones it enforces.
   Statements only; proofs in Proofs/SrvMsgAck.v, SrvMsgSettings.v, SrvMsgC18.v (and, cited, Proofs/SrvFlow*.v for C06,
   Proofs/SrvInv*.v for C13, Proofs/Frames*.v for C05/C16, Proofs/HpackEnc*.v for C04).
   All theorems about the server are for EVERY event list (schedule) and generic in the HPACK coder.

   Vocabulary (Proofs/SrvMsgSettings.v)
     is_set fr            fr is a SETTINGS frame on stream 0 (the read loop only queues those without the ACK flag)
     rl_gives c e         the read loop, at event e, hands a SETTINGS frame to the stream loop: it is running, no header
                          block is open (else: GOAWAY PROTOCOL_ERROR, RFC 7540 6.10), the stream loop is running
     sl_takes c e         the stream loop, at event e, takes a SETTINGS frame off the head of the queue
     overflows c fr       the frame's INITIAL_WINDOW_SIZE would push a stream's send window over 2^31-1
                          (GOAWAY FLOW_CONTROL_ERROR, RFC 7540 6.9.2: no acknowledgement, the stream loop ends)
     applies c e          sl_takes and not overflows
     forwarded / taken    the frames given / taken along a run, in order; applied: how many were applied while the
                          write loop lived
     acks l               the number of OSettingsAck in l (late ones included)

   (a) exactly once, in order:   C18_settings_fifo, C18_settings_acks, C18_settings_acked_once, C18_settings_applied_step
       ACKs are indistinguishable; "in order" is: the queue between the loops is first in first out
       (taken ++ waiting = forwarded, as lists of frames), each frame taken is applied in the step that takes it, and that
       step - and no other step of any kind - queues exactly one OSettingsAck, after the frame's values are in force and
       before anything else the step sends (C06_settings_ack_first: the ACK is the step's first output).
   (b) invalid values:           C18_invalid_settings_goaway (+ C05_read_bad_settings), C18_bad_frame_goaway
   (c) peer limits:              DATA: C18_data_frames_fit (= C06_frame_size).  HEADERS: the response block goes out
       as ONE HEADERS frame whatever its size (C18_response_headers_one_frame), so "no frame (HEADERS included) larger
       than the peer's SETTINGS_MAX_FRAME_SIZE" is FALSE: C18_headers_frame_size_refuted (a 40000-octet header value:
       one HEADERS frame of 25011 octets for a peer whose limit is 16384).  KNOWN FINDING, recorded, not repaired.
       MAX_CONCURRENT_STREAMS binds the client role (the server never opens streams: no PUSH_PROMISE is ever emitted).
   (d) header table:             C18_settings_applied_step gives sc_enc = enc_set_max (sc_enc c) n in the acknowledging step,
       before the ACK and therefore before every later OHeaders; that the table then stays within n is C04's invariant
       for the real encoder: C18_table_within_limit (= HpackEncBlock.set_max_step; see C04_encoder_in_sync).
   (e) advertised = enforced:    MaxConcurrentStreams: C18_slots (= C13_slots); MAX_FRAME_SIZE: a frame over the advertised
       size is refused by the parser (C16) and the read loop ends without forwarding it (C18_refused_frame_not_forwarded;
       the Go error is ErrPayloadExceeds, which is not a GOAWAY-typed error: the connection is closed without
       GOAWAY(FRAME_SIZE_ERROR), which RFC 7540 5.4.1 allows - observation); MaxHeaderListSize / MaxRequestBodySize:
       C18_dispatch_bounds (= C13_dispatch_bounds) and C20_server_over_limits. *)
From Coq Require Import List NArith ZArith Bool.
From H2V Require Import Base.Bytes Base.MachineInt Base.Result Gen.GenConsts Spec.Rfc7540Frames Spec.Rfc7541
     Impl.Pools Impl.Frames Impl.FrameView Impl.Hpack Impl.ServerConn Impl.ServerInst
     Proofs.SrvBase Proofs.SrvFlowDefs Proofs.SrvFlowSafeC Proofs.SrvInvSlots Proofs.SrvInvSOK Proofs.SrvInvC13 Proofs.SrvInvC13d
     Proofs.HpackDefs Proofs.HpackEncDefs Proofs.HpackEncBlock
     Proofs.SrvMsgDefs Proofs.SrvMsgStream Proofs.SrvMsgC20 Proofs.SrvMsgExamples
     Proofs.SrvMsgAck Proofs.SrvMsgSettings Proofs.SrvMsgC18.
Import ListNotations.
Local Open Scope N_scope.

(* ---- (a) ---- *)
(* one step, any event: one more acknowledgement exactly when the step applies a SETTINGS frame (and the write loop
   lives); every other step of either loop, every handler completion, timer, ... adds none *)
Theorem C18_step_acks :
  forall (hstate : Type) (dec_field : hstate -> N -> bytes -> dec_res hstate)
         (enc_field : hstate -> bytes -> bytes -> bool -> bytes * hstate) (enc_set_max : hstate -> N -> hstate)
         (cfg : config) (c : sconn hstate) (e : event),
  acks (sc_out (step dec_field enc_field enc_set_max cfg c e)) =
  (acks (sc_out c) + (if applies c e && negb (sc_wl_dead c) then 1 else 0))%nat.
Proof. exact step_acks. Qed.
Print Assumptions C18_step_acks.

(* one step: the SETTINGS frames waiting between the loops, plus what the read loop adds at the tail, are what the
   stream loop takes from the head plus what is left *)
Theorem C18_step_queue :
  forall (hstate : Type) (dec_field : hstate -> N -> bytes -> dec_res hstate)
         (enc_field : hstate -> bytes -> bytes -> bool -> bytes * hstate) (enc_set_max : hstate -> N -> hstate)
         (cfg : config) (c : sconn hstate) (e : event),
  filter is_set (sc_readerQ c) ++ rl_gives c e =
  sl_takes c e ++ filter is_set (sc_readerQ (step dec_field enc_field enc_set_max cfg c e)).
Proof. exact step_queue. Qed.
Print Assumptions C18_step_queue.

(* in order, for every schedule *)
Theorem C18_settings_fifo :
  forall (hstate : Type) (dec_field : hstate -> N -> bytes -> dec_res hstate)
         (enc_field : hstate -> bytes -> bytes -> bool -> bytes * hstate) (enc_set_max : hstate -> N -> hstate)
         (cfg : config) (evs : list event) (c : sconn hstate),
  filter is_set (sc_readerQ c) ++ forwarded dec_field enc_field enc_set_max cfg c evs =
  taken dec_field enc_field enc_set_max cfg c evs ++
  filter is_set (sc_readerQ (run_from dec_field enc_field enc_set_max cfg c evs)).
Proof. exact settings_fifo. Qed.
Print Assumptions C18_settings_fifo.

(* exactly once, for every schedule *)
Theorem C18_settings_acks :
  forall (hstate : Type) (dec_field : hstate -> N -> bytes -> dec_res hstate)
         (enc_field : hstate -> bytes -> bytes -> bool -> bytes * hstate) (enc_set_max : hstate -> N -> hstate)
         (cfg : config) (evs : list event) (c : sconn hstate),
  acks (sc_out (run_from dec_field enc_field enc_set_max cfg c evs)) =
  (acks (sc_out c) + applied dec_field enc_field enc_set_max cfg c evs)%nat.
Proof. exact settings_acks. Qed.
Print Assumptions C18_settings_acks.

(* a connection whose stream loop and write loop still run: as many acknowledgements as SETTINGS frames taken off the
   queue; frames accepted by the read loop = frames taken + frames still waiting (none waiting: all acknowledged) *)
Theorem C18_settings_acked_once :
  forall (hstate : Type) (dec_field : hstate -> N -> bytes -> dec_res hstate)
         (enc_field : hstate -> bytes -> bytes -> bool -> bytes * hstate) (enc_set_max : hstate -> N -> hstate)
         (cfg : config) (evs : list event) (c : sconn hstate),
  sc_sl_done (run_from dec_field enc_field enc_set_max cfg c evs) = false ->
  sc_wl_dead (run_from dec_field enc_field enc_set_max cfg c evs) = false ->
  acks (sc_out (run_from dec_field enc_field enc_set_max cfg c evs)) =
  (acks (sc_out c) + length (taken dec_field enc_field enc_set_max cfg c evs))%nat /\
  (length (filter is_set (sc_readerQ c)) + length (forwarded dec_field enc_field enc_set_max cfg c evs) =
   length (taken dec_field enc_field enc_set_max cfg c evs) +
   length (filter is_set (sc_readerQ (run_from dec_field enc_field enc_set_max cfg c evs))))%nat.
Proof. exact settings_acked_once. Qed.
Print Assumptions C18_settings_acked_once.

(* (a, d) the acknowledging step: HEADER_TABLE_SIZE is applied to the encoder and INITIAL_WINDOW_SIZE to the
   connection, the frame leaves the queue, and ONE acknowledgement is queued, before whatever else the step sends *)
Theorem C18_settings_applied_step :
  forall (hstate : Type) (dec_field : hstate -> N -> bytes -> dec_res hstate)
         (enc_field : hstate -> bytes -> bytes -> bool -> bytes * hstate) (enc_set_max : hstate -> N -> hstate)
         (cfg : config) (c : sconn hstate) (fr : sframe) (q : list sframe),
  sc_sl_done c = false -> sc_readerQ c = fr :: q -> is_set fr = true -> overflows c fr = false ->
  let c' := step dec_field enc_field enc_set_max cfg c EvSL in
  sc_enc c' = enc_after enc_set_max c fr /\ sc_initWin c' = initWin_after c fr /\
  sc_sl_done c' = false /\ sc_readerQ c' = q /\
  exists l, sc_out c' = l ++ (if sc_wl_dead c then [] else [OSettingsAck]) ++ sc_out c /\ Forall nack l.
Proof. exact settings_applied_step. Qed.
Print Assumptions C18_settings_applied_step.

Theorem C18_settings_overflow_step :
  forall (hstate : Type) (dec_field : hstate -> N -> bytes -> dec_res hstate)
         (enc_field : hstate -> bytes -> bytes -> bool -> bytes * hstate) (enc_set_max : hstate -> N -> hstate)
         (cfg : config) (c : sconn hstate) (fr : sframe) (q : list sframe),
  sc_sl_done c = false -> sc_readerQ c = fr :: q -> is_set fr = true -> overflows c fr = true ->
  sc_sl_done (step dec_field enc_field enc_set_max cfg c EvSL) = true /\
  acks (sc_out (step dec_field enc_field enc_set_max cfg c EvSL)) = acks (sc_out c).
Proof. exact settings_overflow_step. Qed.
Print Assumptions C18_settings_overflow_step.

(* ---- (b) ---- *)
(* the read loop, told by the parser that a frame is an h2 connection error `code`: GOAWAY(last stream, code), then it
   ends; nothing is forwarded *)
Theorem C18_bad_frame_goaway :
  forall (hstate : Type) (dec_field : hstate -> N -> bytes -> dec_res hstate)
         (enc_field : hstate -> bytes -> bytes -> bool -> bytes * hstate) (enc_set_max : hstate -> N -> hstate)
         (cfg : config) (c : sconn hstate) (code : N),
  sc_rl_done c = false ->
  let c' := step dec_field enc_field enc_set_max cfg c (EvRL (RBadFrame (Some code))) in
  sc_rl_done c' = true /\ sc_closing c' = true /\ sc_readerQ c' = sc_readerQ c /\
  sc_out c' = OExit 0 1 :: (if sc_wl_dead c then []
                            else [if sc_sl_done c then OLate (OGoAway (sc_lastID c) code) else OGoAway (sc_lastID c) code])
              ++ sc_out c.
Proof. exact bad_frame_goaway. Qed.
Print Assumptions C18_bad_frame_goaway.

(* from the wire to the GOAWAY: a well-formed SETTINGS frame with a value RFC 7540 6.5.2 forbids (ENABLE_PUSH not 0/1,
   INITIAL_WINDOW_SIZE above 2^31-1, MAX_FRAME_SIZE outside 2^14..2^24-1) is refused by ReadFrameFromWithSize with
   the error class of PROTOCOL_ERROR or FLOW_CONTROL_ERROR, and the read loop answers that class with that GOAWAY *)
Theorem C18_invalid_settings_goaway :
  forall f rest max, wf f -> settings_valid (f_body f) = false -> payload_len f <= effective_limit max -> bytes_ok rest = true ->
  exists e code,
    ro_res (read_frame_with_size max (spec_write f ++ rest)) = Err e /\
    rl_input_of_error e = RBadFrame (Some code) /\ (code = c_ProtocolError \/ code = c_FlowControlError) /\
    forall (hstate : Type) dec_field enc_field enc_set_max cfg (c : sconn hstate),
      sc_rl_done c = false -> sc_wl_dead c = false -> sc_sl_done c = false ->
      let c' := step dec_field enc_field enc_set_max cfg c (EvRL (rl_input_of_error e)) in
      sc_out c' = OExit 0 1 :: OGoAway (sc_lastID c) code :: sc_out c /\ sc_rl_done c' = true /\ sc_closing c' = true /\
      sc_readerQ c' = sc_readerQ c.
Proof. exact invalid_settings_goaway. Qed.
Print Assumptions C18_invalid_settings_goaway.

(* ---- (c) ---- *)
(* DATA: at most 16384 octets, the smallest SETTINGS_MAX_FRAME_SIZE a peer can have (proved for C06) *)
Theorem C18_data_frames_fit :
  forall (hstate : Type) (dec_field : hstate -> N -> bytes -> dec_res hstate)
         (enc_field : hstate -> bytes -> bytes -> bool -> bytes * hstate) (enc_set_max : hstate -> N -> hstate) cfg h0 evs o sid es pl,
  In o (trace (run dec_field enc_field enc_set_max cfg h0 evs)) -> strip o = OData sid es pl -> len pl <= 16384.
Proof. exact data_frames_small. Qed.
Print Assumptions C18_data_frames_fit.

(* HEADERS: the whole response header block is ONE frame *)
Theorem C18_response_headers_one_frame :
  forall (hstate : Type) (dec_field : hstate -> N -> bytes -> dec_res hstate)
         (enc_field : hstate -> bytes -> bytes -> bool -> bytes * hstate) (enc_set_max : hstate -> N -> hstate)
         (cfg : config) (c : sconn hstate) (sid : N) (r : response) (s : stream),
  sc_sl_done c = false -> sc_wl_dead c = false ->
  take_stream (sc_gone c) sid = None -> strms_search (sc_strms c) sid = Some s -> st_handlerRunning s = true ->
  In (OHeaders sid (negb match rs_body r with BStream _ _ => true | BBuffered [] => false | BBuffered _ => true end)
               (fst (response_block enc_field (sc_enc c) r)))
     (sc_out (step dec_field enc_field enc_set_max cfg c (EvDone sid r))).
Proof. exact response_headers_one_frame. Qed.
Print Assumptions C18_response_headers_one_frame.

(* ... so the claim "no HEADERS frame larger than the peer's MAX_FRAME_SIZE" is refuted on the real instance *)
Theorem C18_headers_frame_size_refuted : ~ headers_fit_statement.
Proof. exact headers_frame_size_refuted. Qed.
Print Assumptions C18_headers_frame_size_refuted.

(* ---- (d) the real encoder: once set_max_table_size n has been applied, the table is within n ---- *)
Theorem C18_table_within_limit : forall enc dec pend n, Inv enc dec pend -> n < 2 ^ 31 ->
  Inv (set_max_table_size enc n) (spec_set_limit dec n) (pend ++ [n]) /\
  table_size (dt_entries (abs (set_max_table_size enc n))) <= n.
Proof. exact set_max_step. Qed.
Print Assumptions C18_table_within_limit.

(* ---- (e) ---- *)
Theorem C18_slots : forall hstate dec_field enc_field enc_set_max cfg (h0 : hstate) evs,
  let c := run dec_field enc_field enc_set_max cfg h0 evs in
  (0 <= running c <= sc_open c)%Z /\ (sc_open c <= Z.max 0 (cf_maxStreams cfg))%Z.
Proof. exact slots_bound. Qed.
Print Assumptions C18_slots.

Theorem C18_dispatch_bounds : forall hstate dec_field enc_field enc_set_max cfg (h0 : hstate) evs sid rq,
  In (ODispatch sid rq) (trace (run dec_field enc_field enc_set_max cfg h0 evs)) ->
  (0 < cf_maxBody cfg -> Z.of_N (len (rq_body rq)) <= cf_maxBody cfg)%Z /\
  (0 < cf_maxHeaderList cfg -> req_list_size rq <= cf_maxHeaderList cfg)%Z.
Proof. exact dispatch_bounds. Qed.
Print Assumptions C18_dispatch_bounds.

(* a frame the parser refuses (over the advertised MAX_FRAME_SIZE, truncated, bad padding, ...) never reaches the
   stream loop, and the read loop ends *)
Theorem C18_refused_frame_not_forwarded :
  forall (hstate : Type) (dec_field : hstate -> N -> bytes -> dec_res hstate)
         (enc_field : hstate -> bytes -> bytes -> bool -> bytes * hstate) (enc_set_max : hstate -> N -> hstate)
         (cfg : config) (c : sconn hstate) (o : option N),
  sc_readerQ (step dec_field enc_field enc_set_max cfg c (EvRL (RBadFrame o))) = sc_readerQ c /\
  (sc_rl_done c = false -> sc_rl_done (step dec_field enc_field enc_set_max cfg c (EvRL (RBadFrame o))) = true).
Proof. exact refused_frame_not_forwarded. Qed.
Print Assumptions C18_refused_frame_not_forwarded.

(* ---- examples, on the server with the real HPACK model (Proofs/SrvMsgC18.v) ---- *)
(* two SETTINGS frames read before the stream loop takes the first, an ACK of the peer in between: two
   acknowledgements, in order; HEADER_TABLE_SIZE=100 and INITIAL_WINDOW_SIZE=1000 in force *)
Example C18_ex_settings_acks :
  srv_trace (srv_run cfgE evs_set) = [OSettingsAck; OSettingsAck] /\
  h_max_settings (sc_enc (srv_run cfgE evs_set)) = 100 /\ sc_initWin (srv_run cfgE evs_set) = 1000%Z /\
  forwarded srv_dec_field srv_enc_field set_max_table_size cfgE c_init evs_set =
    [fSettings false true 100 false 0; fSettings false false 0 true 1000] /\
  taken srv_dec_field srv_enc_field set_max_table_size cfgE c_init evs_set =
    [fSettings false true 100 false 0; fSettings false false 0 true 1000] /\
  applied srv_dec_field srv_enc_field set_max_table_size cfgE c_init evs_set = 2%nat.
Proof. exact ex_settings_acks. Qed.

Example C18_ex_settings_pending :
  let evs := [EvRL (RFrame (fSettings false true 100 false 0)); EvRL (RFrame (fSettings false false 0 true 1000)); EvSL] in
  srv_trace (srv_run cfgE evs) = [OSettingsAck] /\
  sc_readerQ (srv_run cfgE evs) = [fSettings false false 0 true 1000].
Proof. exact ex_settings_pending. Qed.

(* HEADER_TABLE_SIZE=0 is in force in the encoder before the response that follows the ACK is encoded *)
Example C18_ex_table_size_before_headers :
  let evs := lockstep (req_frames 1 [blk fs2] [] None) ++
             [EvRL (RFrame (fSettings false true 0 false 0)); EvSL; EvDone 1 (mkResp 200 [] (BBuffered []))] in
  map (fun o => match o with OHeaders s e _ => OHeaders s e [] | ODispatch s _ => ODispatch s empty_req | o => o end)
      (srv_trace (srv_run cfgE evs)) =
  [ODispatch 1 empty_req; OSettingsAck; OHeaders 1 true []; ORelease 1 true] /\
  h_max_settings (sc_enc (srv_run cfgE evs)) = 0.
Proof. exact ex_table_size_before_headers. Qed.

Example C18_ex_bad_settings_goaway :
  srv_trace (srv_run cfgE (lockstep (req_frames 1 [blk fs2] [] None) ++ [EvRL (rl_input_of_error E_settings_proto)])) =
  [ODispatch 1 (the_request fs2 [] []); OGoAway 1 c_ProtocolError; OExit 0 1].
Proof. exact ex_bad_settings_goaway. Qed.

Example C18_ex_settings_overflow :
  let evs := lockstep (req_frames 1 [blk fs2] [] None) ++
             [EvRL (RFrame (mkSFrame KWinUpd 0 1 4 [] 0 0 2147418112 false 0 false 0)); EvSL;
              EvRL (RFrame (fSettings false false 0 true 131070)); EvSL] in
  srv_trace (srv_run cfgE evs) =
  [ODispatch 1 (the_request fs2 [] []); OGoAway 1 c_FlowControlError; OExit 1 0] /\
  applied srv_dec_field srv_enc_field set_max_table_size cfgE c_init evs = 0%nat.
Proof. exact ex_settings_overflow. Qed.

(* the witness of the refutation: ONE HEADERS frame of 25011 octets *)
Example C18_ex_big_headers : hdr_lens (srv_trace (srv_run cfgE evs_big)) = [(1, 25011)].
Proof. exact big_headers_one_frame. Qed.
