(* C11 - the client honours GOAWAY; only a never-processed request is called retryable.
   Statements over the client model, phase 1 (`Definition ... : Prop` + examples by vm_compute).
   RoundTrip's loop over connections is outside the model: "retryable" is what roundTripOnce's
   error makes `retryable` say (the retry flag of COResult), which is what decides a re-send. *)
From H2V Require Import Base.Bytes Base.MachineInt Base.Result Gen.GenConsts Impl.Hpack Impl.ServerConn
     Impl.ClientConn Impl.ClientInst Proofs.CliDefs.
From Coq Require Import ZArith List Bool.
Import ListNotations.
Local Open Scope N_scope.

(* (1) after GOAWAY no further stream is opened on the connection *)
Definition c11_no_new_stream_after_goaway : Prop :=
  forall cfg first evs e,
    In e (cli_log cfg first evs) -> cc_goAway hpack_state (le_before e) = true -> headers_of (le_items e) = [].

(* the read loop takes a GOAWAY frame in (it is running, and not in the middle of a header block) *)
Definition takes_goaway (e : cli_entry) (last : N) : Prop :=
  exists fr, le_ev e = CEvRL (RFrame fr) /\ sf_kind fr = KGoAway /\ sf_sid fr = 0 /\ sf_dep fr = last
             /\ cl_rl_live hpack_state (le_before e) = true /\ cc_netClosed hpack_state (le_before e) = false.

(* (2) requests on streams above last-stream-id end at once, with an error *)
Definition c11_above_last_ends : Prop :=
  forall cfg first evs e last id tag,
    In e (cli_log cfg first evs) -> takes_goaway e last ->
    In (id, tag) (cc_reqQueued hpack_state (le_before e)) -> last < id ->
    cc_rl_stuck hpack_state (le_after e) = false ->
    exists x, cst_ctx (le_after e) tag = Some x /\ ct_finished x = true /\
              (ct_returned x = true \/ exists err, ct_err x = Some err /\ err <> CENil) /\
              cl_req_find (cc_reqQueued hpack_state (le_after e)) id = None.

(* (2') and are never reported as successful afterwards *)
Definition c11_above_last_never_nil : Prop :=
  forall cfg first evs e tag retry resp,
    In e (cli_log cfg first evs) -> In (COResult tag retry CENil resp) (le_items e) ->
    cc_goAway hpack_state (le_before e) = true ->
    cst_sid (le_before e) tag <= cc_closeRef hpack_state (le_before e).

(* (3) requests at or below it complete when the server delivers: here with the smallest complete
   response, HEADERS(:status 200, END_STREAM), whatever came before *)
Definition c11_below_last_completes : Prop :=
  forall cfg first evs id tag,
    let c := cli_run cfg first evs in
    cc_goAway hpack_state c = true -> cl_rl_live hpack_state c = true -> cc_netClosed hpack_state c = false ->
    cc_hdrStream hpack_state c = 0 ->
    In (id, tag) (cc_reqQueued hpack_state c) -> id <= cc_closeRef hpack_state c ->
    (forall x, cst_ctx c tag = Some x -> ct_done x = false /\ ct_lckStuck x = false /\ ct_err x = None /\ ct_gotStatus x = false) ->
    exists resp, results_for tag (cli_trace (cli_step cfg (cli_step cfg c (CEvRL (ex_headers id true ex_block_200))) (CEvReceive tag)))
                 = results_for tag (cli_trace c) ++ [(false, CENil, resp)] /\ cr_status resp = 200%Z.

(* the server disclaimed stream id: GOAWAY with a smaller last-stream-id, or RST_STREAM(REFUSED_STREAM) *)
Definition disclaimed (log : list cli_entry) (id : N) : Prop :=
  exists e fr, In e log /\ le_ev e = CEvRL (RFrame fr) /\ cl_rl_live hpack_state (le_before e) = true /\
    ((sf_kind fr = KGoAway /\ sf_sid fr = 0 /\ sf_dep fr < id) \/
     (sf_kind fr = KRst /\ sf_sid fr = id /\ sf_code fr = c_RefusedStreamError)).

(* (4) retryable only if the server cannot have processed the request: its HEADERS never went
   out, or the server disclaimed the stream *)
Definition c11_retry_only_if_unprocessed : Prop :=
  forall cfg first evs tag err resp,
    let tr := cli_tr cfg first evs in
    In (tag, true, err, resp) (results_of tr) ->
    let id := cst_sid (cli_run cfg first evs) tag in
    In id (header_ids tr) -> disclaimed (cli_log cfg first evs) id.

(* (4') error by error: ErrConnectionClosed, ErrNotAvailableStreams and ErrNoMoreStreamIDs are only ever
   delivered for a request whose HEADERS are not in the trace; ErrGoAway for one whose HEADERS are not in
   the trace or whose stream is above the last-stream-id of a GOAWAY the read loop has taken in *)
Definition goaway_above (log : list cli_entry) (id : N) : Prop :=
  exists e fr, In e log /\ le_ev e = CEvRL (RFrame fr) /\ cl_rl_live hpack_state (le_before e) = true /\
               sf_kind fr = KGoAway /\ sf_sid fr = 0 /\ sf_dep fr < id.
Definition c11_retryable_errors_unsent : Prop :=
  forall cfg first evs tag retry err resp,
    let tr := cli_tr cfg first evs in
    let id := cst_sid (cli_run cfg first evs) tag in
    In (tag, retry, err, resp) (results_of tr) ->
    match err with
    | CEConnClosed | CENoStreams | CENoIDs => ~ In id (header_ids tr)
    | CEGoAway => ~ In id (header_ids tr) \/ goaway_above (cli_log cfg first evs) id
    | _ => True
    end.

(* ---------- examples ---------- *)

(* GOAWAY(last = 1) with streams 1 and 3 in flight: 3 ends with the retryable ErrGoAway, 1 is
   answered when the server delivers, a request submitted afterwards opens no stream *)
Example c11_ex_goaway :
  let tr := cli_tr ex_cfg []
      [CEvSubmit 0 ex_get true; CEvWLIn; CEvSubmit 1 ex_get true; CEvWLIn;
       CEvRL (ex_goaway 1 0); CEvReceive 1;
       CEvSubmit 2 ex_get true; CEvWLIn; CEvReceive 2;
       CEvRL (ex_headers 1 true ex_block_200); CEvReceive 0] in
  (header_ids tr, map (fun r => (fst (fst r), snd (fst r))) (results_of tr))
  = ([1; 3], [(1, true, CEGoAway); (2, true, CENoStreams); (0, false, CENil)]).
Proof. vm_compute. reflexivity. Qed.

(* Close racing Write. Close has closed done but not yet the socket; Write has put the Ctx on c.in.
   If the write loop's select takes the Ctx before it takes done, the HEADERS go out; Write's
   second select then finds the Ctx has a stream and leaves the answer to the teardown: not retryable.
   (Write used to answer ErrConnectionClosed, retryable, whatever the write loop had done.) *)
Example c11_ex_close_races_write_sent :
  let evs := [CEvClose; CEvSubmit 0 ex_get true; CEvWLIn; CEvSubmitCheck 0; CEvCloseNet; CEvWLDone; CEvReceive 0] in
  let tr := cli_tr ex_cfg [] evs in
  (header_ids tr, map (fun r => (fst (fst r), snd (fst r))) (results_of tr))
  = ([1], [(0, false, CEConn)]).
Proof. vm_compute. reflexivity. Qed.

(* the other order: Write's second select comes first, takes the Ctx back and answers
   ErrConnectionClosed; the write loop then finds the Ctx done and writes nothing *)
Example c11_ex_close_races_write_unsent :
  let evs := [CEvClose; CEvSubmit 0 ex_get true; CEvSubmitCheck 0; CEvWLIn; CEvCloseNet; CEvWLDone; CEvReceive 0] in
  let tr := cli_tr ex_cfg [] evs in
  (header_ids tr, map (fun r => (fst (fst r), snd (fst r))) (results_of tr))
  = ([], [(0, true, CEConnClosed)]).
Proof. vm_compute. reflexivity. Qed.
