(* C06 - the server never sends DATA beyond the peer's flow-control windows, and finishes.
   Only statements here; every proof is one lemma of Proofs/SrvFlow*.v. All theorems are about the model of
   Impl/ServerConn.v (tied to serverConn.go by the lockstep suite), for ALL event lists, generic in the HPACK coder.

   How a run is read as a history of the peer's ledger (Spec/FlowLedger.v): `timeline` (Proofs/SrvFlowDefs.v)
   lists, step by step, the grants of the frame the STREAM LOOP handles in that step (SETTINGS_INITIAL_WINDOW_SIZE,
   HEADERS opening a stream, WINDOW_UPDATE) followed by the DATA frames the step queues. Why the stream loop and
   not the read loop: a grant is in force at the sender from the moment it applies it. For WINDOW_UPDATE that is no
   earlier than the moment the peer sent it and increments are positive, so counting them late only makes the
   claim stronger. For SETTINGS it is exactly the moment the peer can observe: C06_settings_ack_first shows that
   the SETTINGS ACK is the first output of the step that applies the setting, so every DATA frame after the ACK is
   checked against the new INITIAL_WINDOW_SIZE and every one before it against the old one (RFC 7540 6.5.3; a
   decrease may leave a window negative, 6.9.2, and then nothing is sent on that stream until it is positive again).
   With grants counted when the READ loop gets them the statement would be false, and rightly so: a lowering
   SETTINGS frame that is still waiting in sc.reader cannot bind the sender yet. *)
From Coq Require Import List NArith ZArith Bool.
From H2V Require Import Base.Bytes Base.MachineInt Base.Result Impl.Hpack Impl.ServerConn Impl.ServerInst
  Proofs.SrvBase Spec.FlowLedger Proofs.SrvFlowLedger Proofs.SrvFlowDefs Proofs.SrvFlowEff
  Proofs.SrvFlowSafeC Proofs.SrvFlowEs Proofs.SrvFlowStall Proofs.SrvFlowAck Proofs.SrvFlowDone Proofs.SrvFlowGrant
  Proofs.SrvFlowExamples
  Proofs.SrvFlowDone Proofs.SrvFlowCDecomp Proofs.SrvFlowCExactC Proofs.SrvFlowCView Proofs.SrvFlowCTrack Proofs.SrvFlowCFin
  Proofs.SrvFlowCExamples.
Import ListNotations.
Local Open Scope N_scope.

(* safety, window form: every DATA frame fits the connection window and its stream's window of the peer's ledger
   at the moment it is queued (an empty DATA frame is always allowed), on a stream the peer has opened *)
Theorem C06_safety : forall (hstate : Type) (dec_field : hstate -> N -> bytes -> dec_res hstate)
    (enc_field : hstate -> bytes -> bytes -> bool -> bytes * hstate) (enc_set_max : hstate -> N -> hstate) cfg h0 evs,
  lvalid ledger0 (timeline hstate dec_field enc_field enc_set_max cfg h0 evs).
Proof. exact ledger_safe. Qed.
Print Assumptions C06_safety.

(* safety, totals form (the property's text): whenever DATA is sent, the payload bytes sent so far on the connection
   and on that stream, this frame included, are within what has been granted: 65535 + connection WINDOW_UPDATEs;
   the initial window in force when the stream was opened + later SETTINGS deltas + the stream's WINDOW_UPDATEs *)
Theorem C06_safety_totals : forall (hstate : Type) (dec_field : hstate -> N -> bytes -> dec_res hstate)
    (enc_field : hstate -> bytes -> bytes -> bool -> bytes * hstate) (enc_set_max : hstate -> N -> hstate) cfg h0 evs,
  within_grants (timeline hstate dec_field enc_field enc_set_max cfg h0 evs).
Proof. exact ledger_within_grants. Qed.
Print Assumptions C06_safety_totals.

(* the totals form follows from the window form for every history, not only the model's *)
Theorem C06_window_form_implies_totals : forall evs, lvalid ledger0 evs -> within_grants evs.
Proof. exact lvalid_within_grants. Qed.
Print Assumptions C06_window_form_implies_totals.

(* no DATA frame is longer than 16384 bytes, the smallest SETTINGS_MAX_FRAME_SIZE a peer can announce *)
Theorem C06_frame_size : forall (hstate : Type) (dec_field : hstate -> N -> bytes -> dec_res hstate)
    (enc_field : hstate -> bytes -> bytes -> bool -> bytes * hstate) (enc_set_max : hstate -> N -> hstate) cfg h0 evs o sid es pl,
  In o (trace (run dec_field enc_field enc_set_max cfg h0 evs)) -> strip o = OData sid es pl -> len pl <= 16384.
Proof. exact data_frames_small. Qed.
Print Assumptions C06_frame_size.

(* the SETTINGS ACK is the first output of the step that applies the settings *)
Theorem C06_settings_ack_first : forall (hstate : Type) (dec_field : hstate -> N -> bytes -> dec_res hstate)
    (enc_field : hstate -> bytes -> bytes -> bool -> bytes * hstate) (enc_set_max : hstate -> N -> hstate) cfg (c : sconn hstate) fr q,
  sc_sl_done c = false -> sc_wl_dead c = false -> sc_readerQ c = fr :: q ->
  sf_sid fr = 0 -> sf_kind fr = KSettings ->
  sc_sl_done (step dec_field enc_field enc_set_max cfg c EvSL) = false ->
  exists rest, new_out hstate c (step dec_field enc_field enc_set_max cfg c EvSL) = OSettingsAck :: rest.
Proof. exact settings_ack_first. Qed.
Print Assumptions C06_settings_ack_first.

(* framing: of two response frames (HEADERS or DATA) on one stream, the earlier one has no END_STREAM; so a stream
   gets at most one END_STREAM and nothing after it *)
Theorem C06_end_stream_once : forall (hstate : Type) (dec_field : hstate -> N -> bytes -> dec_res hstate)
    (enc_field : hstate -> bytes -> bytes -> bool -> bytes * hstate) (enc_set_max : hstate -> N -> hstate) cfg h0 evs pre o1 mid o2 post sid,
  trace (run dec_field enc_field enc_set_max cfg h0 evs) = pre ++ o1 :: mid ++ o2 :: post ->
  frame_sid o1 = Some sid -> frame_sid o2 = Some sid -> is_es o1 = false.
Proof. exact end_stream_once. Qed.
Print Assumptions C06_end_stream_once.

(* progress, the no-stall invariant: after any events, while the stream loop runs, a stream of the table whose
   response has been handed over and still has bytes to send is blocked by a window that is not positive *)
Theorem C06_no_stall : forall (hstate : Type) (dec_field : hstate -> N -> bytes -> dec_res hstate)
    (enc_field : hstate -> bytes -> bytes -> bool -> bytes * hstate) (enc_set_max : hstate -> N -> hstate) cfg h0 evs s,
  let c := run dec_field enc_field enc_set_max cfg h0 evs in
  sc_sl_done c = false -> In s (sc_strms c) ->
  st_responded s && negb (st_handlerRunning s) && has_more_to_send s = true ->
  (zmin (st_window s) (sc_clientWindow c) <= 0)%Z.
Proof. exact no_stall. Qed.
Print Assumptions C06_no_stall.

(* completion, for a buffered response body: one call of sendData (the stream loop makes one whenever a window of a
   blocked stream has grown, and when the handler returns) queues exactly the next q bytes of the body,
   q = min(bytes left, stream window, connection window), in frames of at most 16384 bytes, debits both windows by q,
   and says "finished" exactly when nothing is left; END_STREAM is on the last frame of the response and only there *)
Theorem C06_send_data_buffered : forall (hstate : Type) (c : sconn hstate) s,
  st_bodyStream s = None -> st_pendingEnd s = true -> sc_wl_dead c = false -> sc_sl_done c = false ->
  let q := Z.to_N (Z.max 0 (Z.min (Z.of_N (len (st_pending s))) (Z.min (st_window s) (sc_clientWindow c)))) in
  let r := send_data c s in
  exists frames,
    sc_out (fst (fst r)) = rev (frames_out (st_id s) frames) ++ sc_out c /\
    concat (map snd frames) = takeN q (st_pending s) /\
    st_pending (snd (fst r)) = dropN q (st_pending s) /\
    Forall (fun f => 0 < len (snd f) <= 16384) frames /\
    es_shape frames (snd r && negb (match st_pending s with [] => true | _ => false end)) /\
    snd r = (q =? len (st_pending s)) /\
    st_window (snd (fst r)) = (st_window s - Z.of_N q)%Z /\
    sc_clientWindow (fst (fst r)) = (sc_clientWindow c - Z.of_N q)%Z.
Proof. exact send_data_buffered. Qed.
Print Assumptions C06_send_data_buffered.

(* so once the peer has granted enough on both windows, the whole rest of the body goes out with one END_STREAM.
   Together with C06_no_stall (a stream with bytes left is never left with both windows positive) this is the
   completion half of the property for buffered bodies, in terms of the server's own windows. What remains for the
   statement in terms of the PEER's ledger is the exactness of the bookkeeping: C06_safety shows the server's
   windows are at most the ledger's; equality (while the write loop lives) has not been proved. *)
Theorem C06_send_data_completes : forall (hstate : Type) (c : sconn hstate) s,
  st_bodyStream s = None -> st_pendingEnd s = true -> sc_wl_dead c = false -> sc_sl_done c = false ->
  st_pending s <> [] ->
  (Z.of_N (len (st_pending s)) <= st_window s)%Z -> (Z.of_N (len (st_pending s)) <= sc_clientWindow c)%Z ->
  let r := send_data c s in
  snd r = true /\ st_pending (snd (fst r)) = [] /\
  exists frames,
    sc_out (fst (fst r)) = rev (frames_out (st_id s) frames) ++ sc_out c /\
    concat (map snd frames) = st_pending s /\
    Forall (fun f => 0 < len (snd f) <= 16384) frames /\ es_shape frames true.
Proof. exact send_data_completes. Qed.
Print Assumptions C06_send_data_completes.

(* completion, one grant at a time: when the stream loop handles a WINDOW_UPDATE for a stream whose buffered
   response is waiting, it sends the next q = min(left, stream window + increment, connection window) bytes in that
   same step; if that is all of it the stream ends with one END_STREAM and leaves the table, otherwise it stays
   blocked with the rest. By induction on the peer's grants a single buffered response therefore completes as soon
   as the grants cover it. (For several streams sharing the connection window, for connection WINDOW_UPDATE /
   SETTINGS grants and for streamed bodies the same follows from C06_no_stall and C06_send_data_buffered; it has not
   been spelled out as one theorem.) *)
Theorem C06_stream_grant_resumes : forall (hstate : Type) (dec_field : hstate -> N -> bytes -> dec_res hstate)
    (enc_set_max : hstate -> N -> hstate) cfg (c : sconn hstate) fr s,
  sc_sl_done c = false -> sc_wl_dead c = false -> NoDup (map st_id (sc_strms c)) ->
  sf_kind fr = KWinUpd -> sf_sid fr <> 0 -> sf_sid fr <= sc_lastID c ->
  strms_search (sc_strms c) (sf_sid fr) = Some s -> blocked_buffered s ->
  sf_inc fr <> 0 -> (st_window s + Z.of_N (sf_inc fr) <= MAXWIN)%Z ->
  let w := (st_window s + Z.of_N (sf_inc fr))%Z in
  let q := Z.to_N (Z.max 0 (Z.min (Z.of_N (len (st_pending s))) (Z.min w (sc_clientWindow c)))) in
  let c' := fst (sl_frame dec_field enc_set_max cfg c fr) in
  exists frames rest,
    sc_out c' = rest ++ rev (frames_out (sf_sid fr) frames) ++ sc_out c /\ Forall quiet_out rest /\
    concat (map snd frames) = takeN q (st_pending s) /\
    Forall (fun f => 0 < len (snd f) <= 16384) frames /\
    sc_clientWindow c' = (sc_clientWindow c - Z.of_N q)%Z /\
    (if q =? len (st_pending s)
     then es_shape frames true /\ strms_search (sc_strms c') (sf_sid fr) = None
     else es_shape frames false /\
          exists s', strms_search (sc_strms c') (sf_sid fr) = Some s' /\ blocked_buffered s' /\
                     st_pending s' = dropN q (st_pending s) /\ st_window s' = (w - Z.of_N q)%Z).
Proof. exact stream_grant_resumes. Qed.
Print Assumptions C06_stream_grant_resumes.

(* ---------- examples (the instance with the real HPACK model) ---------- *)

(* the peer lowers INITIAL_WINDOW_SIZE to 10 while the handler runs, grants 5, lowers it to 0 (window -10),
   grants 12, then 100: the 30-byte response goes out as 10 + 5 + 2 + 13 *)
Example C06_safety_example :
  srv_timeline ex_cfg ex_send =
  [LOpen 1; LInit 10; LData 1 10; LGrant 1 5; LData 1 5; LInit 0; LGrant 1 12; LData 1 2; LGrant 1 100; LData 1 13]
  /\ srv_brief ex_cfg ex_send =
     [BDisp 1; BSA; BH 1 false; BD 1 false 10; BD 1 false 5; BSA; BD 1 false 2; BD 1 true 13; BRel 1].
Proof. split; vm_compute; reflexivity. Qed.

Example C06_safety_totals_example :
  (* just before the third DATA frame: 15 bytes sent; granted on the stream 0 (setting now in force) + 5 + 12 = 17 *)
  sent_strm 1 [LOpen 1; LInit 10; LData 1 10; LGrant 1 5; LData 1 5; LInit 0; LGrant 1 12] = 15%Z /\
  granted_strm 1 [LOpen 1; LInit 10; LData 1 10; LGrant 1 5; LData 1 5; LInit 0; LGrant 1 12] = 17%Z.
Proof. split; vm_compute; reflexivity. Qed.

Example C06_frame_size_example :
  srv_brief ex_cfg ex_big = [BDisp 1; BH 1 false; BD 1 false 16384; BD 1 true 3616; BRel 1].
Proof. vm_compute. reflexivity. Qed.

Example C06_settings_ack_first_example :
  let c := srv_run ex_cfg (firstn 3 ex_send) in
  sc_sl_done c = false /\ sc_wl_dead c = false /\ sc_readerQ c = [fSettingsWin 10] /\
  new_out hpack_state c (srv_step ex_cfg c EvSL) = [OSettingsAck].
Proof. vm_compute. repeat split. Qed.

Example C06_end_stream_once_example :
  exists pre o1 mid o2 post,
    srv_trace (srv_run ex_cfg ex_send) = pre ++ o1 :: mid ++ o2 :: post /\
    frame_sid o1 = Some 1 /\ frame_sid o2 = Some 1 /\ is_es o1 = false /\ is_es o2 = true.
Proof.
  exists (firstn 2 (srv_trace (srv_run ex_cfg ex_send))), (nth 2 (srv_trace (srv_run ex_cfg ex_send)) OSettingsAck),
         (firstn 4 (skipn 3 (srv_trace (srv_run ex_cfg ex_send)))),
         (nth 7 (srv_trace (srv_run ex_cfg ex_send)) OSettingsAck), (skipn 8 (srv_trace (srv_run ex_cfg ex_send))).
  vm_compute. repeat split.
Qed.

(* the response is blocked: 20 bytes left, stream window 0 *)
Example C06_no_stall_example :
  let c := srv_run ex_cfg ex_blocked in
  sc_sl_done c = false /\
  exists s, In s (sc_strms c) /\ st_responded s && negb (st_handlerRunning s) && has_more_to_send s = true /\
            len (st_pending s) = 20 /\ st_window s = 0%Z /\ sc_clientWindow c = 65525%Z.
Proof.
  split; [vm_compute; reflexivity|].
  exists (hd (new_stream 0 0) (sc_strms (srv_run ex_cfg ex_blocked))). vm_compute. repeat split. left. reflexivity.
Qed.

(* the blocked stream of the previous example: 20 bytes left, windows 0 / 65525; after the peer's WINDOW_UPDATE(1, 100)
   sendData would send them all: here on a copy of the stream whose window has been raised to 100 *)
Example C06_send_data_completes_example :
  let c := srv_run ex_cfg ex_blocked in
  let s := set_window (hd (new_stream 0 0) (sc_strms c)) 100 in
  st_bodyStream s = None /\ st_pendingEnd s = true /\ sc_wl_dead c = false /\ sc_sl_done c = false /\
  len (st_pending s) = 20 /\
  map brief (sc_out (fst (fst (send_data c s)))) = BD 1 true 20 :: map brief (sc_out c) /\
  snd (send_data c s) = true.
Proof. vm_compute. repeat split. Qed.

(* why grants are counted when the stream loop applies them: counted when the READ loop gets them the statement is
   false. INITIAL_WINDOW_SIZE = 0 is still in sc.reader when the handler returns; the 10-byte response goes out
   BEFORE the SETTINGS ACK, as RFC 7540 6.9.2 allows ("the sender might send data that exceeds the lower limit prior
   to processing the SETTINGS frame") *)
Example C06_read_loop_order_counterexample :
  srv_timeline_rl ex_cfg ex_inflight = [LOpen 1; LInit 0; LData 1 10] /\
  ~ lvalid ledger0 (srv_timeline_rl ex_cfg ex_inflight) /\
  srv_brief ex_cfg ex_inflight = [BDisp 1; BH 1 false; BD 1 true 10; BRel 1; BSA] /\
  lvalid ledger0 (srv_timeline ex_cfg ex_inflight).
Proof.
  assert (E : srv_timeline_rl ex_cfg ex_inflight = [LOpen 1; LInit 0; LData 1 10]) by (vm_compute; reflexivity).
  split; [exact E|]. split; [|split; [vm_compute; reflexivity | unfold srv_timeline; apply C06_safety]].
  rewrite E. cbn [lvalid]. intros (_ & _ & A & _). cbn [lallowed lstep ledger0 l_strm l_init l_conn] in A.
  unfold strm_upd in A. cbn [N.eqb Pos.eqb] in A. destruct A as (w & Hw & [X|(_ & _ & X)]); [discriminate|].
  inversion Hw; subst. unfold DEFAULT_WINDOW in X. apply Z.leb_le in X. discriminate.
Qed.

(* the blocked stream again: WINDOW_UPDATE(1, 5) lets 5 of the 20 bytes out, WINDOW_UPDATE(1, 100) all of them *)
Example C06_stream_grant_resumes_example :
  let c := srv_run ex_cfg ex_blocked in
  sc_sl_done c = false /\ sc_wl_dead c = false /\ NoDup (map st_id (sc_strms c)) /\
  (exists s, strms_search (sc_strms c) 1 = Some s /\ blocked_buffered s /\ len (st_pending s) = 20 /\ st_window s = 0%Z) /\
  map brief (sc_out (fst (sl_frame srv_dec_field set_max_table_size ex_cfg c (fWinUpd 1 5)))) = BD 1 false 5 :: map brief (sc_out c) /\
  map brief (sc_out (fst (sl_frame srv_dec_field set_max_table_size ex_cfg c (fWinUpd 1 100)))) = BRel 1 :: BD 1 true 20 :: map brief (sc_out c).
Proof.
  cbv zeta. split; [vm_compute; reflexivity|]. split; [vm_compute; reflexivity|].
  split; [vm_compute; repeat constructor; intros []|].
  split; [|split; vm_compute; reflexivity].
  eexists. split; [vm_compute; reflexivity|]. split; [|split; vm_compute; reflexivity].
  unfold blocked_buffered. vm_compute. repeat split. discriminate.
Qed.

(* ====================================================================================================
   The "and finishes" half, over whole runs, in terms of what the PEER has granted.
   `timeline evs` is the history of C06_safety: grants count when the stream loop applies them, DATA when queued;
   L = lrun ledger0 (timeline evs) is the peer's ledger after the run.
   ==================================================================================================== *)

(* exactness of the bookkeeping (C06_safety shows "at most"): after any events, while the stream loop and the write
   loop run, the connection send window and the send window of EVERY stream of the table are the windows of the ledger:
   initial window in force at opening + SETTINGS deltas + WINDOW_UPDATEs applied - DATA bytes queued *)
Theorem C06_windows_exact : forall (hstate : Type) (dec_field : hstate -> N -> bytes -> dec_res hstate)
    (enc_field : hstate -> bytes -> bytes -> bool -> bytes * hstate) (enc_set_max : hstate -> N -> hstate) cfg h0 evs,
  let c := run dec_field enc_field enc_set_max cfg h0 evs in
  let L := lrun ledger0 (timeline hstate dec_field enc_field enc_set_max cfg h0 evs) in
  sc_sl_done c = false -> sc_wl_dead c = false ->
  l_conn L = sc_clientWindow c /\ forall s, In s (sc_strms c) -> l_strm L (st_id s) = Some (st_window s).
Proof. exact windows_exact. Qed.
Print Assumptions C06_windows_exact.

(* progress in the peer's terms, for ANY kind of body (buffered or streamed) and any number of streams sharing the
   connection window: a table stream whose response has been handed over and still has bytes to send is held back by
   a window of the peer's ledger that is not positive *)
Theorem C06_waiting_blocked_by_ledger : forall (hstate : Type) (dec_field : hstate -> N -> bytes -> dec_res hstate)
    (enc_field : hstate -> bytes -> bytes -> bool -> bytes * hstate) (enc_set_max : hstate -> N -> hstate) cfg h0 evs s,
  let c := run dec_field enc_field enc_set_max cfg h0 evs in
  let L := lrun ledger0 (timeline hstate dec_field enc_field enc_set_max cfg h0 evs) in
  sc_sl_done c = false -> sc_wl_dead c = false -> In s (sc_strms c) ->
  st_responded s && negb (st_handlerRunning s) && has_more_to_send s = true ->
  l_conn L = sc_clientWindow c /\ l_strm L (st_id s) = Some (st_window s) /\
  ((st_window s <= 0)%Z \/ (l_conn L <= 0)%Z).
Proof. exact waiting_blocked_by_ledger. Qed.
Print Assumptions C06_waiting_blocked_by_ledger.

(* the whole-run theorem, for a BUFFERED body B (the restriction to buffered bodies is in this theorem only: for a
   streamed body the bytes come from scripted reads and "the rest of the body" has no closed form in the model).
   For every event list evs1 ++ EvDone sid r :: evs2 (all schedules, any number of other streams): if the handler's
   return is taken while the stream is in the table with its handler running, and at the end both loops run, the
   connection is not closing, the server has sent no RST_STREAM on sid and the stream loop has taken none from the
   peer, THEN the response frames of sid in the trace are exactly HEADERS followed by DATA frames (each 1..16384
   bytes) whose payloads concatenate, in order, to a prefix of B, and EITHER the stream has left the table with all of
   B sent and END_STREAM on the last frame and nowhere else (on the HEADERS when B is empty), OR it is in the table
   holding exactly the rest of B, no END_STREAM sent, and one of its two windows is not positive, where the windows
   are the ledger's. (`rf sid` filters the HEADERS/DATA frames of sid; `taken_from c evs` lists the frames the stream
   loop takes during evs.) *)
Theorem C06_response_progress : forall (hstate : Type) (dec_field : hstate -> N -> bytes -> dec_res hstate)
    (enc_field : hstate -> bytes -> bytes -> bool -> bytes * hstate) (enc_set_max : hstate -> N -> hstate) cfg h0
    evs1 sid r B evs2,
  let c1 := run dec_field enc_field enc_set_max cfg h0 evs1 in
  let evs := evs1 ++ EvDone sid r :: evs2 in
  let c := run dec_field enc_field enc_set_max cfg h0 evs in
  let L := lrun ledger0 (timeline hstate dec_field enc_field enc_set_max cfg h0 evs) in
  rs_body r = BBuffered B ->
  sc_sl_done c1 = false -> take_stream (sc_gone c1) sid = None ->
  (exists s, strms_search (sc_strms c1) sid = Some s /\ st_handlerRunning s = true) ->
  sc_sl_done c = false -> sc_wl_dead c = false -> sc_closing c = false ->
  (forall o code, In o (trace c) -> strip o <> ORst sid code) ->
  (forall fr, In fr (taken_from hstate dec_field enc_field enc_set_max cfg
                       (step dec_field enc_field enc_set_max cfg c1 (EvDone sid r)) evs2) ->
              sf_sid fr = sid -> sf_kind fr <> KRst) ->
  exists blk frames,
    rf sid (trace c) = OHeaders sid (isnil B) blk :: frames_out sid frames /\ Forall small frames /\
    ((strms_search (sc_strms c) sid = None /\ concat (map snd frames) = B /\ es_shape frames (negb (isnil B)))
     \/
     (exists s, strms_search (sc_strms c) sid = Some s /\ st_pending s <> [] /\ concat (map snd frames) ++ st_pending s = B /\
                st_bodyStream s = None /\ es_shape frames false /\
                ((st_window s <= 0)%Z \/ (sc_clientWindow c <= 0)%Z) /\
                l_strm L sid = Some (st_window s) /\ l_conn L = sc_clientWindow c)).
Proof. exact response_progress. Qed.
Print Assumptions C06_response_progress.

(* every response completes once the peer has granted enough: under the same hypotheses, if the grants applied so far
   leave both windows of the peer's ledger positive, all of B has been sent, in order, with END_STREAM exactly once *)
Theorem C06_completes_when_granted : forall (hstate : Type) (dec_field : hstate -> N -> bytes -> dec_res hstate)
    (enc_field : hstate -> bytes -> bytes -> bool -> bytes * hstate) (enc_set_max : hstate -> N -> hstate) cfg h0
    evs1 sid r B evs2,
  let c1 := run dec_field enc_field enc_set_max cfg h0 evs1 in
  let evs := evs1 ++ EvDone sid r :: evs2 in
  let c := run dec_field enc_field enc_set_max cfg h0 evs in
  let L := lrun ledger0 (timeline hstate dec_field enc_field enc_set_max cfg h0 evs) in
  rs_body r = BBuffered B ->
  sc_sl_done c1 = false -> take_stream (sc_gone c1) sid = None ->
  (exists s, strms_search (sc_strms c1) sid = Some s /\ st_handlerRunning s = true) ->
  sc_sl_done c = false -> sc_wl_dead c = false -> sc_closing c = false ->
  (forall o code, In o (trace c) -> strip o <> ORst sid code) ->
  (forall fr, In fr (taken_from hstate dec_field enc_field enc_set_max cfg
                       (step dec_field enc_field enc_set_max cfg c1 (EvDone sid r)) evs2) ->
              sf_sid fr = sid -> sf_kind fr <> KRst) ->
  (0 < l_conn L)%Z -> (forall w, l_strm L sid = Some w -> (0 < w)%Z) ->
  exists blk frames,
    rf sid (trace c) = OHeaders sid (isnil B) blk :: frames_out sid frames /\ Forall small frames /\
    strms_search (sc_strms c) sid = None /\ concat (map snd frames) = B /\ es_shape frames (negb (isnil B)).
Proof. exact completes_when_granted. Qed.
Print Assumptions C06_completes_when_granted.

(* ---------- examples: two responses (100000 and 70000 bytes) sharing the connection window ---------- *)

(* after: both handlers returned, WINDOW_UPDATE(0, 50000), SETTINGS_INITIAL_WINDOW_SIZE = 20000, WINDOW_UPDATE(3, 60000).
   Stream 1 sent 65535 bytes and waits with 34465, its window driven to -45535 by the SETTINGS change; stream 3 sent
   50000, has a POSITIVE window 30000 and waits on the connection window (0). Server windows = ledger windows. *)
Example C06_windows_exact_example :
  let evs := ex_two_pre ++ EvDone 1 (resp 100000) :: ex_two_mid in
  let c := srv_run ex_cfg evs in
  sc_sl_done c = false /\ sc_wl_dead c = false /\
  map (fun s => (st_id s, st_window s, len (st_pending s))) (sc_strms c) = [(1, (-45535)%Z, 34465); (3, 30000%Z, 20000)] /\
  sc_clientWindow c = 0%Z /\ l_conn (srv_ledger ex_cfg evs) = 0%Z /\
  l_strm (srv_ledger ex_cfg evs) 1 = Some (-45535)%Z /\ l_strm (srv_ledger ex_cfg evs) 3 = Some 30000%Z.
Proof. vm_compute. repeat split. Qed.

(* stream 3 of that state: bytes left, its own window positive, held back by the connection window of the ledger *)
Example C06_waiting_blocked_by_ledger_example :
  let evs := ex_two_pre ++ EvDone 1 (resp 100000) :: ex_two_mid in
  let c := srv_run ex_cfg evs in
  exists s, In s (sc_strms c) /\ st_id s = 3 /\
    st_responded s && negb (st_handlerRunning s) && has_more_to_send s = true /\
    st_window s = 30000%Z /\ l_strm (srv_ledger ex_cfg evs) 3 = Some 30000%Z /\ l_conn (srv_ledger ex_cfg evs) = 0%Z.
Proof.
  cbv zeta. exists (nth 1 (sc_strms (srv_run ex_cfg (ex_two_pre ++ EvDone 1 (resp 100000) :: ex_two_mid))) (new_stream 0 0)).
  split; [apply nth_In; vm_compute; repeat constructor|]. vm_compute. repeat split.
Qed.

(* the hypotheses of C06_response_progress hold for stream 1 in that run, and the conclusion is the WAITING branch:
   HEADERS + 16384 + 16384 + 16384 + 16383 bytes sent (a prefix of the body), 34465 left, stream window -45535 *)
Example C06_response_progress_example :
  let c1 := srv_run ex_cfg ex_two_pre in
  let evs := ex_two_pre ++ EvDone 1 (resp 100000) :: ex_two_mid in
  let c := srv_run ex_cfg evs in
  sc_sl_done c1 = false /\ take_stream (sc_gone c1) 1 = None /\
  (exists s, strms_search (sc_strms c1) 1 = Some s /\ st_handlerRunning s = true) /\
  sc_sl_done c = false /\ sc_wl_dead c = false /\ sc_closing c = false /\
  (forall o code, In o (srv_trace c) -> strip o <> ORst 1 code) /\
  (forall fr, In fr (srv_taken_from ex_cfg (srv_step ex_cfg c1 (EvDone 1 (resp 100000))) ex_two_mid) ->
              sf_sid fr = 1 -> sf_kind fr <> KRst) /\
  map brief (rf 1 (srv_trace c)) = [BH 1 false; BD 1 false 16384; BD 1 false 16384; BD 1 false 16384; BD 1 false 16383] /\
  option_map (fun s => (len (st_pending s), st_window s, st_bodyStream s)) (strms_search (sc_strms c) 1)
    = Some (34465, (-45535)%Z, None) /\
  l_strm (srv_ledger ex_cfg evs) 1 = Some (-45535)%Z /\ l_conn (srv_ledger ex_cfg evs) = sc_clientWindow c.
Proof.
  cbv zeta. split; [vm_compute; reflexivity|]. split; [vm_compute; reflexivity|].
  split; [eexists; split; vm_compute; reflexivity|].
  split; [vm_compute; reflexivity|]. split; [vm_compute; reflexivity|]. split; [vm_compute; reflexivity|].
  split; [apply no_rst_out_ok; vm_compute; reflexivity|]. split; [apply no_rst_in_ok; vm_compute; reflexivity|].
  vm_compute. repeat split.
Qed.

(* the rest of the grants arrive (WINDOW_UPDATE(0, 200000), WINDOW_UPDATE(1, 100000)): both ledger windows of
   stream 1 are positive (connection 145535, stream 20000) and the response is complete: 7 DATA frames, 100000 bytes,
   END_STREAM on the last one only; the same for stream 3 (70000 bytes) *)
Example C06_completes_when_granted_example :
  let c1 := srv_run ex_cfg ex_two_pre in
  let evs2 := ex_two_mid ++ ex_two_end in
  let evs := ex_two_pre ++ EvDone 1 (resp 100000) :: evs2 in
  let c := srv_run ex_cfg evs in
  sc_sl_done c = false /\ sc_wl_dead c = false /\ sc_closing c = false /\
  (forall o code, In o (srv_trace c) -> strip o <> ORst 1 code) /\
  (forall fr, In fr (srv_taken_from ex_cfg (srv_step ex_cfg c1 (EvDone 1 (resp 100000))) evs2) ->
              sf_sid fr = 1 -> sf_kind fr <> KRst) /\
  l_conn (srv_ledger ex_cfg evs) = 145535%Z /\ l_strm (srv_ledger ex_cfg evs) 1 = Some 20000%Z /\
  strms_search (sc_strms c) 1 = None /\
  map brief (rf 1 (srv_trace c)) =
    [BH 1 false; BD 1 false 16384; BD 1 false 16384; BD 1 false 16384; BD 1 false 16383;
     BD 1 false 16384; BD 1 false 16384; BD 1 true 1697] /\
  map brief (rf 3 (srv_trace c)) =
    [BH 3 false; BD 3 false 16384; BD 3 false 16384; BD 3 false 16384; BD 3 false 848; BD 3 false 16384; BD 3 true 3616].
Proof.
  cbv zeta. split; [vm_compute; reflexivity|]. split; [vm_compute; reflexivity|]. split; [vm_compute; reflexivity|].
  split; [apply no_rst_out_ok; vm_compute; reflexivity|]. split; [apply no_rst_in_ok; vm_compute; reflexivity|].
  vm_compute. repeat split.
Qed.
