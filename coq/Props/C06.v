(* C06 - the server never sends DATA beyond the peer's flow-control windows, and finishes.
   Only statements here; every proof is one lemma of Proofs/SrvFlow*.v. All theorems are about the model of
   Impl/ServerConn.v (tied to serverConn.go by the lockstep suite), for ALL event lists, generic in the HPACK coder.

   How a run is read as a history of the peer's ledger (Spec/FlowLedger.v): `timeline` (Proofs/SrvFlowDefs.v)
   lists, step by step, the grants of the frame the STREAM LOOP handles in that step (SETTINGS_INITIAL_WINDOW_SIZE,
   HEADERS opening a stream, WINDOW_UPDATE) followed by the DATA frames the step queues. Why the stream loop and
   not the read loop: a grant is in force at the sender from the moment it applies it. For WINDOW_UPDATE that is no
   earlier than the moment the peer sent it and increments are positive, so counting them late only makes the
   claim stronger. For SETTINGS it is exactly the moment the peer can observe: C06_settings_ack_first shows that
   the SETTINGS ACK is the first output of the step that applies the setting, so every DATA frame after the ACK is
   checked against the new INITIAL_WINDOW_SIZE and every one before it against the old one (RFC 7540 6.5.3; a
   decrease may leave a window negative, 6.9.2, and then nothing is sent on that stream until it is positive again).
   With grants counted when the READ loop gets them the statement would be false, and rightly so: a lowering
   SETTINGS frame that is still waiting in sc.reader cannot bind the sender yet. *)
From Coq Require Import List NArith ZArith Bool.
From H2V Require Import Base.Bytes Base.MachineInt Base.Result Impl.Hpack Impl.ServerConn Impl.ServerInst
  Proofs.SrvBase Spec.FlowLedger Proofs.SrvFlowLedger Proofs.SrvFlowDefs Proofs.SrvFlowEff
  Proofs.SrvFlowSafeC Proofs.SrvFlowEs Proofs.SrvFlowStall Proofs.SrvFlowAck Proofs.SrvFlowDone Proofs.SrvFlowGrant
  Proofs.SrvFlowExamples.
Import ListNotations.
Local Open Scope N_scope.

(* safety, window form: every DATA frame fits the connection window and its stream's window of the peer's ledger
   at the moment it is queued (an empty DATA frame is always allowed), on a stream the peer has opened *)
Theorem C06_safety : forall (hstate : Type) (dec_field : hstate -> N -> bytes -> dec_res hstate)
    (enc_field : hstate -> bytes -> bytes -> bool -> bytes * hstate) (enc_set_max : hstate -> N -> hstate) cfg h0 evs,
  lvalid ledger0 (timeline hstate dec_field enc_field enc_set_max cfg h0 evs).
Proof. exact ledger_safe. Qed.
Print Assumptions C06_safety.

(* safety, totals form (the property's text): whenever DATA is sent, the payload bytes sent so far on the connection
   and on that stream, this frame included, are within what has been granted: 65535 + connection WINDOW_UPDATEs;
   the initial window in force when the stream was opened + later SETTINGS deltas + the stream's WINDOW_UPDATEs *)
Theorem C06_safety_totals : forall (hstate : Type) (dec_field : hstate -> N -> bytes -> dec_res hstate)
    (enc_field : hstate -> bytes -> bytes -> bool -> bytes * hstate) (enc_set_max : hstate -> N -> hstate) cfg h0 evs,
  within_grants (timeline hstate dec_field enc_field enc_set_max cfg h0 evs).
Proof. exact ledger_within_grants. Qed.
Print Assumptions C06_safety_totals.

(* the totals form follows from the window form for every history, not only the model's *)
Theorem C06_window_form_implies_totals : forall evs, lvalid ledger0 evs -> within_grants evs.
Proof. exact lvalid_within_grants. Qed.
Print Assumptions C06_window_form_implies_totals.

(* no DATA frame is longer than 16384 bytes, the smallest SETTINGS_MAX_FRAME_SIZE a peer can announce *)
Theorem C06_frame_size : forall (hstate : Type) (dec_field : hstate -> N -> bytes -> dec_res hstate)
    (enc_field : hstate -> bytes -> bytes -> bool -> bytes * hstate) (enc_set_max : hstate -> N -> hstate) cfg h0 evs o sid es pl,
  In o (trace (run dec_field enc_field enc_set_max cfg h0 evs)) -> strip o = OData sid es pl -> len pl <= 16384.
Proof. exact data_frames_small. Qed.
Print Assumptions C06_frame_size.

(* the SETTINGS ACK is the first output of the step that applies the settings *)
Theorem C06_settings_ack_first : forall (hstate : Type) (dec_field : hstate -> N -> bytes -> dec_res hstate)
    (enc_field : hstate -> bytes -> bytes -> bool -> bytes * hstate) (enc_set_max : hstate -> N -> hstate) cfg (c : sconn hstate) fr q,
  sc_sl_done c = false -> sc_wl_dead c = false -> sc_readerQ c = fr :: q ->
  sf_sid fr = 0 -> sf_kind fr = KSettings ->
  sc_sl_done (step dec_field enc_field enc_set_max cfg c EvSL) = false ->
  exists rest, new_out hstate c (step dec_field enc_field enc_set_max cfg c EvSL) = OSettingsAck :: rest.
Proof. exact settings_ack_first. Qed.
Print Assumptions C06_settings_ack_first.

(* framing: of two response frames (HEADERS or DATA) on one stream, the earlier one has no END_STREAM; so a stream
   gets at most one END_STREAM and nothing after it *)
Theorem C06_end_stream_once : forall (hstate : Type) (dec_field : hstate -> N -> bytes -> dec_res hstate)
    (enc_field : hstate -> bytes -> bytes -> bool -> bytes * hstate) (enc_set_max : hstate -> N -> hstate) cfg h0 evs pre o1 mid o2 post sid,
  trace (run dec_field enc_field enc_set_max cfg h0 evs) = pre ++ o1 :: mid ++ o2 :: post ->
  frame_sid o1 = Some sid -> frame_sid o2 = Some sid -> is_es o1 = false.
Proof. exact end_stream_once. Qed.
Print Assumptions C06_end_stream_once.

(* progress, the no-stall invariant: after any events, while the stream loop runs, a stream of the table whose
   response has been handed over and still has bytes to send is blocked by a window that is not positive *)
Theorem C06_no_stall : forall (hstate : Type) (dec_field : hstate -> N -> bytes -> dec_res hstate)
    (enc_field : hstate -> bytes -> bytes -> bool -> bytes * hstate) (enc_set_max : hstate -> N -> hstate) cfg h0 evs s,
  let c := run dec_field enc_field enc_set_max cfg h0 evs in
  sc_sl_done c = false -> In s (sc_strms c) ->
  st_responded s && negb (st_handlerRunning s) && has_more_to_send s = true ->
  (zmin (st_window s) (sc_clientWindow c) <= 0)%Z.
Proof. exact no_stall. Qed.
Print Assumptions C06_no_stall.

(* completion, for a buffered response body: one call of sendData (the stream loop makes one whenever a window of a
   blocked stream has grown, and when the handler returns) queues exactly the next q bytes of the body,
   q = min(bytes left, stream window, connection window), in frames of at most 16384 bytes, debits both windows by q,
   and says "finished" exactly when nothing is left; END_STREAM is on the last frame of the response and only there *)
Theorem C06_send_data_buffered : forall (hstate : Type) (c : sconn hstate) s,
  st_bodyStream s = None -> st_pendingEnd s = true -> sc_wl_dead c = false -> sc_sl_done c = false ->
  let q := Z.to_N (Z.max 0 (Z.min (Z.of_N (len (st_pending s))) (Z.min (st_window s) (sc_clientWindow c)))) in
  let r := send_data c s in
  exists frames,
    sc_out (fst (fst r)) = rev (frames_out (st_id s) frames) ++ sc_out c /\
    concat (map snd frames) = takeN q (st_pending s) /\
    st_pending (snd (fst r)) = dropN q (st_pending s) /\
    Forall (fun f => 0 < len (snd f) <= 16384) frames /\
    es_shape frames (snd r && negb (match st_pending s with [] => true | _ => false end)) /\
    snd r = (q =? len (st_pending s)) /\
    st_window (snd (fst r)) = (st_window s - Z.of_N q)%Z /\
    sc_clientWindow (fst (fst r)) = (sc_clientWindow c - Z.of_N q)%Z.
Proof. exact send_data_buffered. Qed.
Print Assumptions C06_send_data_buffered.

(* so once the peer has granted enough on both windows, the whole rest of the body goes out with one END_STREAM.
   Together with C06_no_stall (a stream with bytes left is never left with both windows positive) this is the
   completion half of the property for buffered bodies, in terms of the server's own windows. What remains for the
   statement in terms of the PEER's ledger is the exactness of the bookkeeping: C06_safety shows the server's
   windows are at most the ledger's; equality (while the write loop lives) has not been proved. *)
Theorem C06_send_data_completes : forall (hstate : Type) (c : sconn hstate) s,
  st_bodyStream s = None -> st_pendingEnd s = true -> sc_wl_dead c = false -> sc_sl_done c = false ->
  st_pending s <> [] ->
  (Z.of_N (len (st_pending s)) <= st_window s)%Z -> (Z.of_N (len (st_pending s)) <= sc_clientWindow c)%Z ->
  let r := send_data c s in
  snd r = true /\ st_pending (snd (fst r)) = [] /\
  exists frames,
    sc_out (fst (fst r)) = rev (frames_out (st_id s) frames) ++ sc_out c /\
    concat (map snd frames) = st_pending s /\
    Forall (fun f => 0 < len (snd f) <= 16384) frames /\ es_shape frames true.
Proof. exact send_data_completes. Qed.
Print Assumptions C06_send_data_completes.

(* completion, one grant at a time: when the stream loop handles a WINDOW_UPDATE for a stream whose buffered
   response is waiting, it sends the next q = min(left, stream window + increment, connection window) bytes in that
   same step; if that is all of it the stream ends with one END_STREAM and leaves the table, otherwise it stays
   blocked with the rest. By induction on the peer's grants a single buffered response therefore completes as soon
   as the grants cover it. (For several streams sharing the connection window, for connection WINDOW_UPDATE /
   SETTINGS grants and for streamed bodies the same follows from C06_no_stall and C06_send_data_buffered; it has not
   been spelled out as one theorem.) *)
Theorem C06_stream_grant_resumes : forall (hstate : Type) (dec_field : hstate -> N -> bytes -> dec_res hstate)
    (enc_set_max : hstate -> N -> hstate) cfg (c : sconn hstate) fr s,
  sc_sl_done c = false -> sc_wl_dead c = false -> NoDup (map st_id (sc_strms c)) ->
  sf_kind fr = KWinUpd -> sf_sid fr <> 0 -> sf_sid fr <= sc_lastID c ->
  strms_search (sc_strms c) (sf_sid fr) = Some s -> blocked_buffered s ->
  sf_inc fr <> 0 -> (st_window s + Z.of_N (sf_inc fr) <= MAXWIN)%Z ->
  let w := (st_window s + Z.of_N (sf_inc fr))%Z in
  let q := Z.to_N (Z.max 0 (Z.min (Z.of_N (len (st_pending s))) (Z.min w (sc_clientWindow c)))) in
  let c' := fst (sl_frame dec_field enc_set_max cfg c fr) in
  exists frames rest,
    sc_out c' = rest ++ rev (frames_out (sf_sid fr) frames) ++ sc_out c /\ Forall quiet_out rest /\
    concat (map snd frames) = takeN q (st_pending s) /\
    Forall (fun f => 0 < len (snd f) <= 16384) frames /\
    sc_clientWindow c' = (sc_clientWindow c - Z.of_N q)%Z /\
    (if q =? len (st_pending s)
     then es_shape frames true /\ strms_search (sc_strms c') (sf_sid fr) = None
     else es_shape frames false /\
          exists s', strms_search (sc_strms c') (sf_sid fr) = Some s' /\ blocked_buffered s' /\
                     st_pending s' = dropN q (st_pending s) /\ st_window s' = (w - Z.of_N q)%Z).
Proof. exact stream_grant_resumes. Qed.
Print Assumptions C06_stream_grant_resumes.

(* ---------- examples (the instance with the real HPACK model) ---------- *)

(* the peer lowers INITIAL_WINDOW_SIZE to 10 while the handler runs, grants 5, lowers it to 0 (window -10),
   grants 12, then 100: the 30-byte response goes out as 10 + 5 + 2 + 13 *)
Example C06_safety_example :
  srv_timeline ex_cfg ex_send =
  [LOpen 1; LInit 10; LData 1 10; LGrant 1 5; LData 1 5; LInit 0; LGrant 1 12; LData 1 2; LGrant 1 100; LData 1 13]
  /\ srv_brief ex_cfg ex_send =
     [BDisp 1; BSA; BH 1 false; BD 1 false 10; BD 1 false 5; BSA; BD 1 false 2; BD 1 true 13; BRel 1].
Proof. split; vm_compute; reflexivity. Qed.

Example C06_safety_totals_example :
  (* just before the third DATA frame: 15 bytes sent; granted on the stream 0 (setting now in force) + 5 + 12 = 17 *)
  sent_strm 1 [LOpen 1; LInit 10; LData 1 10; LGrant 1 5; LData 1 5; LInit 0; LGrant 1 12] = 15%Z /\
  granted_strm 1 [LOpen 1; LInit 10; LData 1 10; LGrant 1 5; LData 1 5; LInit 0; LGrant 1 12] = 17%Z.
Proof. split; vm_compute; reflexivity. Qed.

Example C06_frame_size_example :
  srv_brief ex_cfg ex_big = [BDisp 1; BH 1 false; BD 1 false 16384; BD 1 true 3616; BRel 1].
Proof. vm_compute. reflexivity. Qed.

Example C06_settings_ack_first_example :
  let c := srv_run ex_cfg (firstn 3 ex_send) in
  sc_sl_done c = false /\ sc_wl_dead c = false /\ sc_readerQ c = [fSettingsWin 10] /\
  new_out hpack_state c (srv_step ex_cfg c EvSL) = [OSettingsAck].
Proof. vm_compute. repeat split. Qed.

Example C06_end_stream_once_example :
  exists pre o1 mid o2 post,
    srv_trace (srv_run ex_cfg ex_send) = pre ++ o1 :: mid ++ o2 :: post /\
    frame_sid o1 = Some 1 /\ frame_sid o2 = Some 1 /\ is_es o1 = false /\ is_es o2 = true.
Proof.
  exists (firstn 2 (srv_trace (srv_run ex_cfg ex_send))), (nth 2 (srv_trace (srv_run ex_cfg ex_send)) OSettingsAck),
         (firstn 4 (skipn 3 (srv_trace (srv_run ex_cfg ex_send)))),
         (nth 7 (srv_trace (srv_run ex_cfg ex_send)) OSettingsAck), (skipn 8 (srv_trace (srv_run ex_cfg ex_send))).
  vm_compute. repeat split.
Qed.

(* the response is blocked: 20 bytes left, stream window 0 *)
Example C06_no_stall_example :
  let c := srv_run ex_cfg ex_blocked in
  sc_sl_done c = false /\
  exists s, In s (sc_strms c) /\ st_responded s && negb (st_handlerRunning s) && has_more_to_send s = true /\
            len (st_pending s) = 20 /\ st_window s = 0%Z /\ sc_clientWindow c = 65525%Z.
Proof.
  split; [vm_compute; reflexivity|].
  exists (hd (new_stream 0 0) (sc_strms (srv_run ex_cfg ex_blocked))). vm_compute. repeat split. left. reflexivity.
Qed.

(* the blocked stream of the previous example: 20 bytes left, windows 0 / 65525; after the peer's WINDOW_UPDATE(1, 100)
   sendData would send them all: here on a copy of the stream whose window has been raised to 100 *)
Example C06_send_data_completes_example :
  let c := srv_run ex_cfg ex_blocked in
  let s := set_window (hd (new_stream 0 0) (sc_strms c)) 100 in
  st_bodyStream s = None /\ st_pendingEnd s = true /\ sc_wl_dead c = false /\ sc_sl_done c = false /\
  len (st_pending s) = 20 /\
  map brief (sc_out (fst (fst (send_data c s)))) = BD 1 true 20 :: map brief (sc_out c) /\
  snd (send_data c s) = true.
Proof. vm_compute. repeat split. Qed.

(* why grants are counted when the stream loop applies them: counted when the READ loop gets them the statement is
   false. INITIAL_WINDOW_SIZE = 0 is still in sc.reader when the handler returns; the 10-byte response goes out
   BEFORE the SETTINGS ACK, as RFC 7540 6.9.2 allows ("the sender might send data that exceeds the lower limit prior
   to processing the SETTINGS frame") *)
Example C06_read_loop_order_counterexample :
  srv_timeline_rl ex_cfg ex_inflight = [LOpen 1; LInit 0; LData 1 10] /\
  ~ lvalid ledger0 (srv_timeline_rl ex_cfg ex_inflight) /\
  srv_brief ex_cfg ex_inflight = [BDisp 1; BH 1 false; BD 1 true 10; BRel 1; BSA] /\
  lvalid ledger0 (srv_timeline ex_cfg ex_inflight).
Proof.
  assert (E : srv_timeline_rl ex_cfg ex_inflight = [LOpen 1; LInit 0; LData 1 10]) by (vm_compute; reflexivity).
  split; [exact E|]. split; [|split; [vm_compute; reflexivity | unfold srv_timeline; apply C06_safety]].
  rewrite E. cbn [lvalid]. intros (_ & _ & A & _). cbn [lallowed lstep ledger0 l_strm l_init l_conn] in A.
  unfold strm_upd in A. cbn [N.eqb Pos.eqb] in A. destruct A as (w & Hw & [X|(_ & _ & X)]); [discriminate|].
  inversion Hw; subst. unfold DEFAULT_WINDOW in X. apply Z.leb_le in X. discriminate.
Qed.

(* the blocked stream again: WINDOW_UPDATE(1, 5) lets 5 of the 20 bytes out, WINDOW_UPDATE(1, 100) all of them *)
Example C06_stream_grant_resumes_example :
  let c := srv_run ex_cfg ex_blocked in
  sc_sl_done c = false /\ sc_wl_dead c = false /\ NoDup (map st_id (sc_strms c)) /\
  (exists s, strms_search (sc_strms c) 1 = Some s /\ blocked_buffered s /\ len (st_pending s) = 20 /\ st_window s = 0%Z) /\
  map brief (sc_out (fst (sl_frame srv_dec_field set_max_table_size ex_cfg c (fWinUpd 1 5)))) = BD 1 false 5 :: map brief (sc_out c) /\
  map brief (sc_out (fst (sl_frame srv_dec_field set_max_table_size ex_cfg c (fWinUpd 1 100)))) = BRel 1 :: BD 1 true 20 :: map brief (sc_out c).
Proof.
  cbv zeta. split; [vm_compute; reflexivity|]. split; [vm_compute; reflexivity|].
  split; [vm_compute; repeat constructor; intros []|].
  split; [|split; vm_compute; reflexivity].
  eexists. split; [vm_compute; reflexivity|]. split; [|split; vm_compute; reflexivity].
  unfold blocked_buffered. vm_compute. repeat split. discriminate.
Qed.
