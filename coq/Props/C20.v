(* Property C20, server half: the server dispatches a request to the handler if and only if it is well formed under
   RFC 7540 8.1.2 (Spec/Http2Messages.v: wf_request); otherwise the handler never runs and that stream alone is refused.
   Statements only; proofs in Proofs/SrvMsg*.v.

   Vocabulary
     request frames   req_frames sid hfrags chunks tfrags (Proofs/SrvMsgDefs.v):
                      HEADERS CONTINUATION* DATA* [HEADERS(END_STREAM) CONTINUATION*] on stream sid; the header block cut
                      into the fragments hfrags, the body into chunks, the optional trailer block into tfrags;
                      END_STREAM on the trailers, else on the last DATA frame, else on the HEADERS frame.
                      lockstep: each frame is taken by the read loop, then by the stream loop.
     request_decodes  the (abstract) HPACK decoder, started in the connection's decoder state and run over the fragments,
                      yields the header list fs and the trailer list tr, ends in d2, and `carries` is what each frame
                      boundary cut off a field (Proofs/SrvMsgDefs.v frag_dec / block_dec).  For the real decoder this
                      is C03's business (block_decode_frames = spec_decode_block, split invariance).
     ready cfg c sid  the position in the connection's history (Proofs/SrvMsgStream.v): sid is odd and above every id the
                      peer has used, not in the table nor in the ring of closed ids, no discard in progress on it; the other
                      HEADERS-opened streams have complete header blocks; a slot is free; the connection is not closing;
                      both loops run, nothing is queued between them, no header block is open.  No condition on how the
                      state was reached: any mix of earlier requests, responses in progress, refusals, SETTINGS, ...
     within_limits    the size policy: header list (trailers included) <= cf_maxHeaderList, every carried-over partial
                      field <= cf_maxHeaderList, body <= cf_maxBody  (a limit <= 0 means none).
     dispatched c0 c' sid   an `ODispatch sid _` is among the outputs between c0 and c'.

   Scope decisions
     - The header-list limit is enforced by handleHeaderFrame with GOAWAY(ENHANCE_YOUR_CALM), not with a stream error.  It is
       a size policy (RFC 7540 6.5.2 / 10.5.1), not 8.1.2 malformedness, and C20's text leaves policy limits out: here it is
       the hypothesis within_limits / header_limits.  C20_server_over_limits says such requests are never dispatched;
       that the connection is given up for them is recorded as a finding-level observation (see the report), not hidden.
     - The body limit (cf_maxBody, on the DATA received or on a declared content-length) is enforced with
       RST_STREAM(ENHANCE_YOUR_CALM): C20_server_refuses covers it ("or a 4xx response" in the property's words; this
       server always resets).
     - content-length values above 2^63-1 are refused (parseUint); the theorems assume the body itself is at most
       2^63-1 octets, which no connection can exceed. *)
From H2V Require Import Base.Bytes Base.MachineInt Base.Result Gen.GenConsts Impl.Hpack Impl.ServerConn Impl.ServerInst
     Spec.Http2Messages
     Proofs.SrvBase Proofs.SrvMsgDefs Proofs.SrvMsgPure Proofs.SrvMsgStream Proofs.SrvMsgC20 Proofs.SrvMsgCheck
     Proofs.SrvMsgExamples Proofs.HpackDefs Proofs.SrvIsoInst Proofs.SrvMsgInst.
From Coq Require Import ZArith.
Local Open Scope N_scope.

(* ---- (a) the validation, as a pure function ---- *)

(* parseUint is 1*DIGIT, at most 2^63-1 *)
Theorem C20_parse_uint_decimal : forall v,
  parse_uint v = match decimal v with
                 | Some n => if (Z.of_N n <=? MAXINT)%Z then Some (Z.of_N n) else None
                 | None => None
                 end.
Proof. exact parse_uint_decimal. Qed.
Print Assumptions C20_parse_uint_decimal.

(* one field: the header-list size check, then an automaton over eight flags (Proofs/SrvMsgDefs.v vstep) *)
Theorem C20_header_field : forall cfg h k v,
  header_field cfg h k v =
  let size := (hd_headerListSize h + Z.of_N (len k) + Z.of_N (len v) + 32)%Z in
  if list_over cfg size then inl (EGoAway c_EnhanceYourCalm)
  else match vstep cfg (vabs h) (classify k) v with
       | inl code => inl (EReset code)
       | inr st' => inr (hdr_of h st' size (hd_blockFields h + 1) (req_step (hd_req h) (k, v)))
       end.
Proof. exact header_field_vstep. Qed.
Print Assumptions C20_header_field.

(* header_field folded over a decoded field list, within the header-list limit *)
Theorem C20_fields_loop : forall cfg fs h,
  list_over cfg (hd_headerListSize h + fsize fs) = false ->
  fields_loop cfg h fs =
  match vrun cfg (vabs h) fs with
  | inl code => inl (EReset code)
  | inr st' => inr (hdr_of h st' (hd_headerListSize h + fsize fs) (hd_blockFields h + N.of_nat (length fs)) (req_fold (hd_req h) fs))
  end.
Proof. exact fields_loop_vrun. Qed.
Print Assumptions C20_fields_loop.

(* ... over the limit some field is refused *)
Theorem C20_fields_loop_over : forall cfg fs h,
  list_over cfg (hd_headerListSize h) = false ->
  list_over cfg (hd_headerListSize h + fsize fs) = true -> exists e, fields_loop cfg h fs = inl e.
Proof. exact fields_loop_over. Qed.
Print Assumptions C20_fields_loop_over.

(* the verdict of the automaton on header list, trailer list (which starts with "regular field seen") and the final
   content-length check IS RFC 7540 8.1.2 well-formedness *)
Theorem C20_validation_is_wf : forall cfg n,
  body_over cfg (Z.of_N n) = false -> (Z.of_N n <= MAXINT)%Z ->
  forall fs tr, vacc2 cfg v0 fs tr n = wf_request fs tr n.
Proof. exact vacc2_wf. Qed.
Print Assumptions C20_validation_is_wf.

(* ---- (a) lifted to the connection, (c) at any position of its history ---- *)
Theorem C20_server_iff :
  forall (hstate : Type) (dec_field : hstate -> N -> bytes -> dec_res hstate)
         (enc_field : hstate -> bytes -> bytes -> bool -> bytes * hstate) (enc_set_max : hstate -> N -> hstate)
         (cfg : config) (c0 : sconn hstate) (sid : N),
  ready cfg c0 sid ->
  forall (hfrags chunks : list bytes) (tfrags : option (list bytes)) (fs tr : list field) (d2 : hstate) (carries : list bytes),
  request_decodes dec_field (sc_dec c0) hfrags tfrags fs tr d2 carries ->
  (Z.of_N (len (concat chunks)) <= MAXINT)%Z ->
  within_limits cfg fs tr carries (len (concat chunks)) = true ->
  (dispatched c0 (run_from dec_field enc_field enc_set_max cfg c0 (lockstep (req_frames sid hfrags chunks tfrags))) sid
   <-> wf_request fs tr (len (concat chunks)) = true).
Proof. exact server_iff. Qed.
Print Assumptions C20_server_iff.

Theorem C20_server_over_limits :
  forall (hstate : Type) (dec_field : hstate -> N -> bytes -> dec_res hstate)
         (enc_field : hstate -> bytes -> bytes -> bool -> bytes * hstate) (enc_set_max : hstate -> N -> hstate)
         (cfg : config) (c0 : sconn hstate) (sid : N),
  ready cfg c0 sid ->
  forall (hfrags chunks : list bytes) (tfrags : option (list bytes)) (fs tr : list field) (d2 : hstate) (carries : list bytes),
  request_decodes dec_field (sc_dec c0) hfrags tfrags fs tr d2 carries ->
  within_limits cfg fs tr carries (len (concat chunks)) = false ->
  ~ dispatched c0 (run_from dec_field enc_field enc_set_max cfg c0 (lockstep (req_frames sid hfrags chunks tfrags))) sid.
Proof. exact server_over_limits. Qed.
Print Assumptions C20_server_over_limits.

(* a well-formed request, in full: ONE dispatch, with the request the peer sent (pseudo-header values, the regular fields
   of header list and trailers in order, the body), after nothing but window updates; the stream stays in the table with
   its handler running; the decoder is where the peer's encoder is; nothing else moves *)
Theorem C20_server_accepts :
  forall (hstate : Type) (dec_field : hstate -> N -> bytes -> dec_res hstate)
         (enc_field : hstate -> bytes -> bytes -> bool -> bytes * hstate) (enc_set_max : hstate -> N -> hstate)
         (cfg : config) (c0 : sconn hstate) (sid : N),
  ready cfg c0 sid ->
  forall (hfrags chunks : list bytes) (tfrags : option (list bytes)) (fs tr : list field) (d2 : hstate) (carries : list bytes),
  request_decodes dec_field (sc_dec c0) hfrags tfrags fs tr d2 carries ->
  (Z.of_N (len (concat chunks)) <= MAXINT)%Z ->
  within_limits cfg fs tr carries (len (concat chunks)) = true ->
  wf_request fs tr (len (concat chunks)) = true ->
  let c' := run_from dec_field enc_field enc_set_max cfg c0 (lockstep (req_frames sid hfrags chunks tfrags)) in
  exists (l : list outev) (s' : stream),
    since c0 c' (ODispatch sid (the_request fs chunks tr) :: l) /\ Forall is_winupd l /\
    sc_strms c' = sc_strms c0 ++ [s'] /\ st_id s' = sid /\ st_handlerRunning s' = true /\ st_state s' = SHalfClosed /\
    st_req s' = the_request fs chunks tr /\
    sc_dec c' = d2 /\ sc_ring c' = sc_ring c0 /\ sc_open c' = (sc_open c0 + 1)%Z /\
    sc_lastID c' = sid /\ sc_highestID c' = sid /\ untouched c0 c'.
Proof. exact server_accepts. Qed.
Print Assumptions C20_server_accepts.

(* ---- (b) a request that is not dispatched (malformed, or over the body limit), within the header-list policy:
   RST_STREAM(PROTOCOL_ERROR or ENHANCE_YOUR_CALM) on that stream, its release and window updates are ALL that is
   emitted (no GOAWAY, no dispatch, nothing on other streams); the stream is out of the table and remembered as reset;
   the whole request has been decoded (the decoder is where the peer's encoder is); the connection is not closing, both
   loops run, every other stream and every other field is as before ---- *)
Theorem C20_server_refuses :
  forall (hstate : Type) (dec_field : hstate -> N -> bytes -> dec_res hstate)
         (enc_field : hstate -> bytes -> bytes -> bool -> bytes * hstate) (enc_set_max : hstate -> N -> hstate)
         (cfg : config) (c0 : sconn hstate) (sid : N),
  ready cfg c0 sid ->
  forall (hfrags chunks : list bytes) (tfrags : option (list bytes)) (fs tr : list field) (d2 : hstate) (carries : list bytes),
  request_decodes dec_field (sc_dec c0) hfrags tfrags fs tr d2 carries ->
  header_limits cfg fs tr carries = true ->
  (Z.of_N (len (concat chunks)) <= MAXINT)%Z ->
  within_limits cfg fs tr carries (len (concat chunks)) && wf_request fs tr (len (concat chunks)) = false ->
  let c' := run_from dec_field enc_field enc_set_max cfg c0 (lockstep (req_frames sid hfrags chunks tfrags)) in
  exists (code : N) (l : list outev),
    (code = c_ProtocolError \/ code = c_EnhanceYourCalm) /\
    since c0 c' l /\ In (ORst sid code) l /\ Forall (refusal_out sid code) l /\
    sc_strms c' = sc_strms c0 /\ ring_find c' sid = Some true /\
    sc_dec c' = d2 /\ sc_open c' = sc_open c0 /\
    sc_lastID c' = sid /\ sc_highestID c' = sid /\ untouched c0 c'.
Proof. exact server_refuses. Qed.
Print Assumptions C20_server_refuses.

(* ---- (c) positions: a new connection is one; `ready` is a condition on the state alone (example 4 below: a
   request after a dispatched one whose handler still runs and after a refused one) ---- *)
Theorem C20_ready_init : forall (hstate : Type) (cfg : config) (h0 : hstate) (sid : N),
  N.land sid 1 = 1 -> (0 < cf_maxStreams cfg)%Z -> ready cfg (init_conn cfg h0) sid.
Proof. exact ready_init. Qed.
Print Assumptions C20_ready_init.

(* in a state reached by any history the table part of `ready` is an invariant (C13's structural invariant) *)
Theorem C20_ready_reachable :
  forall (hstate : Type) (dec_field : hstate -> N -> bytes -> dec_res hstate)
         (enc_field : hstate -> bytes -> bytes -> bool -> bytes * hstate) (enc_set_max : hstate -> N -> hstate)
         (cfg : config) (h0 : hstate) (c : sconn hstate) (sid : N),
  reachable dec_field enc_field enc_set_max cfg h0 c ->
  N.land sid 1 = 1 -> sc_highestID c < sid ->
  in_ring c sid = false -> sc_oldest c < closedStrmsCap -> sc_discardID c <> sid ->
  Forall quiet (sc_strms c) -> (sc_open c < cf_maxStreams cfg)%Z -> sc_closing c = false ->
  sc_sl_done c = false -> sc_wl_dead c = false -> sc_rl_done c = false -> sc_readerQ c = [] -> sc_expectCont c = 0 ->
  ready cfg c sid.
Proof. exact ready_reachable. Qed.
Print Assumptions C20_ready_reachable.

(* the decoding hypothesis can be checked by running the decoder (any decoder) *)
Theorem C20_decodes_by_computation :
  forall (hstate : Type) (dec_field : hstate -> N -> bytes -> dec_res hstate) frags d n prev fs d' carries,
  block_run_f hstate dec_field d n prev frags = Some (fs, d', carries) -> block_dec dec_field d n prev frags fs d' carries.
Proof. exact block_run_f_sound. Qed.
Print Assumptions C20_decodes_by_computation.

(* ... and for the real HPACK model it is what Impl/Hpack.v's header-block loop computes, which C03 proves to be RFC 7541's
   decoding of the concatenated block however the block is cut into frames (C03_split_invariance, C03_dec_refines_spec) *)
Theorem C20_decodes_from_hpack : forall hp frags fs hp',
  frags <> [] -> block_decode_frames hp (frames_of true frags) = Ok (fs, hp') ->
  exists carries, decodes srv_dec_field hp frags (map kv_of fs) hp' carries.
Proof. exact decodes_of_hpack. Qed.
Print Assumptions C20_decodes_from_hpack.

(* ---- examples, on the server instantiated with the real HPACK model (Proofs/SrvMsgExamples.v) ---- *)
(* 1. a well-formed POST: the header block cut in the middle of a field, two DATA frames, a trailer block *)
Example C20_ex_wellformed :
  ready cfgE c_init 1 /\
  request_decodes srv_dec_field (sc_dec c_init) hfrags1 tfrags1 fs1 tr1 d_after1 carries1 /\
  within_limits cfgE fs1 tr1 carries1 5 = true /\ wf_request fs1 tr1 5 = true /\
  trace (run_from srv_dec_field srv_enc_field set_max_table_size cfgE c_init (lockstep (req_frames 1 hfrags1 chunks1 tfrags1))) =
  [OWinUpd 1 2; OWinUpd 1 3; ODispatch 1 (the_request fs1 chunks1 tr1)].
Proof. exact (conj ex1_ready (conj ex1_decodes (conj (proj1 ex1_hyps) (conj (proj2 ex1_hyps) ex1_trace)))). Qed.

(* 2. malformed: a pseudo-header field in the trailers; two content-length fields that disagree; an upper-case name
   in the first of two fragments; a declared length over the body limit *)
Example C20_ex_pseudo_in_trailers :
  request_decodes srv_dec_field (sc_dec c_init) [blk fs2] (Some [blk tr2]) fs2 tr2 srv_init_hpack [] /\
  header_limits cfgE fs2 tr2 [] = true /\ within_limits cfgE fs2 tr2 [] 0 && wf_request fs2 tr2 0 = false /\
  trace (run_from srv_dec_field srv_enc_field set_max_table_size cfgE c_init (lockstep (req_frames 1 [blk fs2] [] (Some [blk tr2])))) =
  [ORst 1 c_ProtocolError; ORelease 1 true].
Proof. exact (conj (proj1 ex2_hyps) (conj (proj1 (proj2 ex2_hyps)) (conj (proj2 (proj2 ex2_hyps)) ex2_trace))). Qed.

Example C20_ex_conflicting_lengths :
  request_decodes srv_dec_field (sc_dec c_init) [blk fs3] None fs3 [] srv_init_hpack [] /\
  header_limits cfgE fs3 [] [] = true /\ within_limits cfgE fs3 [] [] 5 && wf_request fs3 [] 5 = false /\
  trace (run_from srv_dec_field srv_enc_field set_max_table_size cfgE c_init (lockstep (req_frames 1 [blk fs3] body_hello None))) =
  [ORst 1 c_ProtocolError; ORelease 1 true].
Proof. exact (conj (proj1 ex3_hyps) (conj (proj1 (proj2 ex3_hyps)) (conj (proj2 (proj2 ex3_hyps)) ex3_trace))). Qed.

Example C20_ex_uppercase_then_continuation :
  request_decodes srv_dec_field (sc_dec c_init) hfrags4 None fs4 [] srv_init_hpack carries4 /\
  header_limits cfgE fs4 [] carries4 = true /\ within_limits cfgE fs4 [] carries4 2 && wf_request fs4 [] 2 = false /\
  trace (run_from srv_dec_field srv_enc_field set_max_table_size cfgE c_init (lockstep (req_frames 1 hfrags4 body_hi None))) =
  [ORst 1 c_ProtocolError; ORelease 1 true].
Proof. exact (conj (proj1 ex4_hyps) (conj (proj1 (proj2 ex4_hyps)) (conj (proj2 (proj2 ex4_hyps)) ex4_trace))). Qed.

Example C20_ex_declared_length_over_limit :
  request_decodes srv_dec_field (sc_dec c_init) [blk fs5] None fs5 [] srv_init_hpack [] /\
  header_limits cfgE fs5 [] [] = true /\ within_limits cfgE fs5 [] [] 1 && wf_request fs5 [] 1 = false /\
  trace (run_from srv_dec_field srv_enc_field set_max_table_size cfgE c_init (lockstep (req_frames 1 [blk fs5] body_x None))) =
  [ORst 1 c_EnhanceYourCalm; ORelease 1 true].
Proof. exact (conj (proj1 ex5_hyps) (conj (proj1 (proj2 ex5_hyps)) (conj (proj2 (proj2 ex5_hyps)) ex5_trace))). Qed.

(* 3. over the header-list limit (100 octets): never dispatched; this server answers with GOAWAY(ENHANCE_YOUR_CALM) *)
Example C20_ex_over_header_list_limit :
  request_decodes srv_dec_field srv_init_hpack [blk fs1] None fs1 [] srv_init_hpack [] /\
  within_limits cfgS fs1 [] [] 0 = false /\
  trace (run_from srv_dec_field srv_enc_field set_max_table_size cfgS (init_conn cfgS srv_init_hpack)
                  (lockstep (req_frames 1 [blk fs1] [] None))) =
  [OGoAway 1 c_EnhanceYourCalm; OExit 1 0].
Proof. exact (conj (proj1 ex6_hyps) (conj (proj2 ex6_hyps) ex6_trace)). Qed.

(* 4. another position in the history: stream 1 dispatched and its handler still running, stream 3 refused;
   the request on stream 5 is dispatched and the trace so far is untouched *)
Example C20_ex_later_position :
  ready cfgE c_mid 5 /\
  request_decodes srv_dec_field (sc_dec c_mid) [blk fs2] None fs2 [] srv_init_hpack [] /\
  within_limits cfgE fs2 [] [] 0 = true /\ wf_request fs2 [] 0 = true /\
  trace (run_from srv_dec_field srv_enc_field set_max_table_size cfgE c_mid (lockstep (req_frames 5 [blk fs2] [] None))) =
  trace c_mid ++ [ODispatch 5 (the_request fs2 [] [])].
Proof. exact (conj ex7_ready (conj ex7_decodes (conj (proj1 ex7_hyps) (conj (proj2 ex7_hyps) ex7_trace)))). Qed.
