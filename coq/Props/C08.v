(* C08 - the server reacts to each frame as its stream's RFC 7540 state prescribes.
   Only statements here; every proof is one lemma of Proofs/SrvRfcThm.v.

   The specification is Spec/Rfc7540Streams.v (states, reactions, `allowed`, `spec_next`, `legal`,
   `complete_request`).  How the model (Impl/ServerInst.v) is observed against it is Proofs/SrvRfcDefs.v:
     feed / run_items   the lockstep schedule: per input `EvRL i; EvSL`, handler completions `EvDone`,
                        and the local events EvClock, EvIdle, EvCloser in between;
     reaction_of        what the model answered to an input, read off the outputs of its two steps;
     spec_feed          the specification state following the model;
     R                  the abstraction relation (DESIGN.md Appendix F);
     known_deviation    the places where the model is known to differ from the RFC (D1, D3, D6, D7);
     in_scope           what the theorems leave out (see below). *)
From Coq Require Import List NArith ZArith Bool.
From H2V Require Import Base.Bytes Base.MachineInt Base.Result Gen.GenConsts Impl.Hpack Impl.ServerConn Impl.ServerInst.
From H2V Require Import Proofs.SrvBase Proofs.SrvRfcDefs Proofs.SrvRfcThm
  Proofs.SrvRfcExamples.   (* compiled with the property so that the examples are checked too *)
Import ListNotations.
Local Open Scope N_scope.

Notation srv_feed := (feed hpack_state srv_dec_field srv_enc_field set_max_table_size).
Notation srv_item_ok := (item_ok hpack_state srv_dec_field srv_enc_field set_max_table_size).
Notation srv_run_items := (run_items hpack_state srv_dec_field srv_enc_field set_max_table_size).
Notation srv_scope_from := (scope_from hpack_state srv_dec_field srv_enc_field set_max_table_size).

(* (a) For every lockstep schedule from the initial state - any inputs (frames of every type with any
   flags on any stream id, unknown types, malformed frames, end of input), any handler completions, clock
   ticks, idle shutdown - in scope (SETTINGS / WINDOW_UPDATE on stream 0 only while no response is waiting
   for send window; no request timer):
   - the abstraction relation R holds between the model state and the specification state reached on the
     same schedule;
   - every input fed while the stream loop runs gets a reaction the specification allows in the
     specification state reached on the prefix before it, or falls under a known deviation. *)
Theorem C08_reactions_allowed : forall cfg its,
  srv_scope_from cfg (init_conn cfg srv_init_hpack) RS.init its = true ->
  R hpack_state (fst (srv_run_items cfg (init_conn cfg srv_init_hpack) RS.init its))
                (snd (srv_run_items cfg (init_conn cfg srv_init_hpack) RS.init its)) /\
  forall pre it post, its = pre ++ it :: post ->
    let c := fst (srv_run_items cfg (init_conn cfg srv_init_hpack) RS.init pre) in
    let s := snd (srv_run_items cfg (init_conn cfg srv_init_hpack) RS.init pre) in
    sc_sl_done c = false ->
    match it with
    | IIn i => srv_item_ok cfg c it s = true \/ known_deviation hpack_state c s i = true
    | _ => True
    end.
Proof. intros cfg. exact (reactions_allowed hpack_state srv_dec_field srv_enc_field set_max_table_size cfg srv_init_hpack). Qed.
Print Assumptions C08_reactions_allowed.

(* (c) On such a schedule, if a request was dispatched on stream sid, then at some point of the schedule
   the frames received on sid so far were exactly a complete request: HEADERS CONTINUATION* DATA*
   [HEADERS(END_STREAM) CONTINUATION*], END_STREAM on the last DATA or on the HEADERS of the last block,
   END_HEADERS closing each block, nothing else but PRIORITY / WINDOW_UPDATE frames in between. *)
Theorem C08_dispatch_only_legal : forall cfg its sid rq,
  srv_scope_from cfg (init_conn cfg srv_init_hpack) RS.init its = true ->
  In (ODispatch sid rq) (trace (fst (srv_run_items cfg (init_conn cfg srv_init_hpack) RS.init its))) ->
  exists pre post, its = pre ++ post /\ RS.complete_request (frames_on sid pre) = true.
Proof. intros cfg. exact (dispatch_only_legal hpack_state srv_dec_field srv_enc_field set_max_table_size cfg srv_init_hpack). Qed.
Print Assumptions C08_dispatch_only_legal.

(* Examples: a sixteen-item schedule (request in four frames with trailers, responses, a stream reset
   by the peer, PRIORITY / WINDOW_UPDATE on open, closed and idle streams, PING and SETTINGS in between)
   is in scope, gets allowed reactions throughout and dispatches stream 1 with its body. *)
Example C08_example_in_scope : srv_scope_from ex_cfg ex_init RS.init ex_run = true.
Proof. exact ex_run_in_scope. Qed.

Example C08_example_dispatch :
  exists rq, In (ODispatch 1 rq) (trace (fst (srv_run_items ex_cfg ex_init RS.init ex_run))) /\ rq_body rq = [104; 105].
Proof. exact ex_run_dispatches_1. Qed.

Example C08_example_complete : RS.complete_request (frames_on 1 ex_run) = true.
Proof. exact ex_run_frames_on_1_complete. Qed.

(* The known deviations are real (each confirmed by computation on the model). *)
Example C08_deviation_D1_priority_on_even_id :
  srv_item_ok ex_cfg ex_init ex_D1 RS.init = false /\
  trace (srv_feed ex_cfg ex_init ex_D1) = [OGoAway 0 c_ProtocolError; OExit 0 1; OExit 1 1].
Proof. exact (conj ex_D1_not_allowed ex_D1_trace). Qed.

Example C08_deviation_D3_window_update_after_peer_reset :
  let '(c, s) := srv_run_items ex_cfg ex_init RS.init ex_D3_pre in
  srv_item_ok ex_cfg c ex_D3 s = false /\ sc_out (srv_feed ex_cfg c ex_D3) = sc_out c.
Proof. exact (conj ex_D3_not_allowed ex_D3_nothing_sent). Qed.

Example C08_deviation_D6_settings_on_closed_stream :
  let '(c, s) := srv_run_items ex_cfg ex_init RS.init ex_D3_pre in
  srv_item_ok ex_cfg c ex_D6 s = false /\
  reaction_of hpack_state c (RFrame (mkSFrame KSettings 0 1 0 [] 0 0 0 false 0 false 0)) (srv_feed ex_cfg c ex_D6)
    = RS.ConnErr c_StreamClosedError.
Proof. exact (conj ex_D6_not_allowed ex_D6_goaway_code). Qed.

(* (b) NOT PROVED.  The statement: a legal frame sequence (RS.legal), with any handler completions
   interleaved, during which the server decides no reset of its own and meets no limit or decoding error
   (no RST_STREAM and no GOAWAY(COMPRESSION_ERROR | ENHANCE_YOUR_CALM | INTERNAL_ERROR | FLOW_CONTROL_ERROR)
   in the trace), on odd stream ids and with at most 256 streams (the ring never forgets), is served
   without any error: no GOAWAY at all and no loop exit. *)
Definition frame_of_item (it : item) : list sframe := match it with IIn (RFrame f) => [f] | _ => [] end.
Definition only_frames_and_completions (its : list item) : bool :=
  forallb (fun it => match it with IIn (RFrame f) => N.odd (sf_sid f) || (sf_sid f =? 0) | IDone _ _ => true | _ => false end) its.
Definition no_policy_error (o : outev) : bool :=
  match strip_late o with
  | ORst _ _ => false
  | OGoAway _ code => negb ((code =? c_CompressionError) || (code =? c_EnhanceYourCalm) || (code =? c_InternalError) || (code =? c_FlowControlError))
  | _ => true
  end.
Definition no_error_at_all (o : outev) : bool :=
  match strip_late o with ORst _ _ | OGoAway _ _ | OExit _ _ | OPanic _ _ => false | _ => true end.

Definition C08_legal_no_error_statement : Prop := forall cfg its,
  srv_scope_from cfg (init_conn cfg srv_init_hpack) RS.init its = true ->
  only_frames_and_completions its = true ->
  RS.legal (map abs_frame (flat_map frame_of_item its)) = true ->
  (length (filter (fun f => match sf_kind f with KHeaders => true | _ => false end) (flat_map frame_of_item its)) <= 256)%nat ->
  let tr := trace (fst (srv_run_items cfg (init_conn cfg srv_init_hpack) RS.init its)) in
  forallb no_policy_error tr = true -> forallb no_error_at_all tr = true.
