(* C08 - the server reacts to each frame as its stream's RFC 7540 state prescribes.
   Only statements here; every proof is one lemma of Proofs/SrvRfcThm.v or Proofs/SrvRfcLegal.v.

   The specification is Spec/Rfc7540Streams.v (states, reactions, `allowed`, `spec_next`, `legal`,
   `complete_request`).  How the model (Impl/ServerInst.v) is observed against it is Proofs/SrvRfcDefs.v:
     feed / run_items   the lockstep schedule: per input `EvRL i; EvSL`, handler completions `EvDone`,
                        and the local events EvClock, EvTimer, EvIdle, EvCloser in between;
     reaction_of        what the model answered to an input, read off the outputs of its two steps;
     spec_feed          the specification state following the model;
     R                  the abstraction relation (DESIGN.md Appendix F);
     known_deviation    the places where the model is known to differ from the RFC (D1, D3, D6, D7);
     (Proofs/SrvRfcLegal.v: `mild`, the error classes the RFC leaves to the server's discretion.) *)
From Coq Require Import List NArith ZArith Bool.
From H2V Require Import Base.Bytes Base.MachineInt Base.Result Gen.GenConsts Impl.Hpack Impl.ServerConn Impl.ServerInst.
From H2V Require Import Proofs.SrvBase Proofs.SrvRfcDefs Proofs.SrvRfcThm Proofs.SrvRfcLegal
  Proofs.SrvRfcExamples.   (* compiled with the property so that the examples are checked too *)
Import ListNotations.
Local Open Scope N_scope.

Notation srv_feed := (feed hpack_state srv_dec_field srv_enc_field set_max_table_size).
Notation srv_item_ok := (item_ok hpack_state srv_dec_field srv_enc_field set_max_table_size).
Notation srv_run_items := (run_items hpack_state srv_dec_field srv_enc_field set_max_table_size).
Notation srv_check_from := (check_from hpack_state srv_dec_field srv_enc_field set_max_table_size).

(* (a) For every lockstep schedule from the initial state - any inputs (frames of every type with any
   flags on any stream id, unknown types, malformed frames, end of input), any handler completions, clock
   ticks, the request timer, idle shutdown, the closer channel:
   - the abstraction relation R holds between the model state and the specification state reached on the
     same schedule;
   - every input fed while the stream loop runs gets a reaction the specification allows in the
     specification state reached on the prefix before it, or falls under a known deviation. *)
Theorem C08_reactions_allowed : forall cfg its,
  R hpack_state (fst (srv_run_items cfg (init_conn cfg srv_init_hpack) RS.init its))
                (snd (srv_run_items cfg (init_conn cfg srv_init_hpack) RS.init its)) /\
  forall pre it post, its = pre ++ it :: post ->
    let c := fst (srv_run_items cfg (init_conn cfg srv_init_hpack) RS.init pre) in
    let s := snd (srv_run_items cfg (init_conn cfg srv_init_hpack) RS.init pre) in
    sc_sl_done c = false ->
    match it with
    | IIn i => srv_item_ok cfg c it s = true \/ known_deviation hpack_state c s i = true
    | _ => True
    end.
Proof. intros cfg. exact (reactions_allowed hpack_state srv_dec_field srv_enc_field set_max_table_size cfg srv_init_hpack). Qed.
Print Assumptions C08_reactions_allowed.

(* Other schedules.  (a) is stated for lockstep schedules because only there "the reaction to frame k" is a
   well-defined part of the trace: the outputs of the two steps that deal with it.  What carries over, and what does
   not, when the read loop runs ahead of the stream loop:
   - the read loop's verdict on a frame (forward / GOAWAY / close) depends on the frame and on sc_expectCont, which
     only the read loop writes (C19_read_loop_frame, C19_stream_loop_event_frame): it is the same on every schedule;
   - the stream loop sees the forwarded frames in the same order, and everything it reads but sc_closing/sc_closeRef
     is written by itself only (C19_stream_loop_frame_frame, C19_read_loop_frame): with the same frames and the same
     handler completions in between, it reacts the same as long as sc_closing is the same;
   - sc_closing is shared: when the read loop has already answered a LATER frame with GOAWAY, the stream loop refuses
     the new streams of EARLIER frames still in its queue (REFUSED_STREAM).  The table allows that too (RS.policy, and
     6.8 after GOAWAY), but saying so needs a specification state with a queue of frames received and not yet reacted
     to; that simulation has not been done, so no all-schedules version is stated. *)

(* (c) On such a schedule, if a request was dispatched on stream sid, then at some point of the schedule
   the frames received on sid so far were exactly a complete request: HEADERS CONTINUATION* DATA*
   [HEADERS(END_STREAM) CONTINUATION*], END_STREAM on the last DATA or on the HEADERS of the last block,
   END_HEADERS closing each block, nothing else but PRIORITY / WINDOW_UPDATE frames in between. *)
Theorem C08_dispatch_only_legal : forall cfg its sid rq,
  In (ODispatch sid rq) (trace (fst (srv_run_items cfg (init_conn cfg srv_init_hpack) RS.init its))) ->
  exists pre post, its = pre ++ post /\ RS.complete_request (frames_on sid pre) = true.
Proof. intros cfg. exact (dispatch_only_legal hpack_state srv_dec_field srv_enc_field set_max_table_size cfg srv_init_hpack). Qed.
Print Assumptions C08_dispatch_only_legal.

(* Examples: a sixteen-item schedule (request in four frames with trailers, responses, a stream reset
   by the peer, PRIORITY / WINDOW_UPDATE on open, closed and idle streams, PING and SETTINGS in between)
   gets allowed reactions throughout (the executable check of Proofs/SrvRfcDefs.v says 0) and dispatches stream 1
   with its body. *)
Example C08_example_checks : srv_check_from ex_cfg ex_ids 0 ex_init RS.init ex_run = 0%nat.
Proof. exact ex_run_checks. Qed.

Example C08_example_dispatch :
  exists rq, In (ODispatch 1 rq) (trace (fst (srv_run_items ex_cfg ex_init RS.init ex_run))) /\ rq_body rq = [104; 105].
Proof. exact ex_run_dispatches_1. Qed.

Example C08_example_complete : RS.complete_request (frames_on 1 ex_run) = true.
Proof. exact ex_run_frames_on_1_complete. Qed.

(* ... and one where a SETTINGS frame lets two waiting responses finish in the same step *)
Example C08_example_flush : srv_check_from ex_cfg ex_ids 0 ex_init RS.init ex_flush = 0%nat.
Proof. exact ex_flush_checks. Qed.

(* ... and one where the request timer resets a stream whose handler runs and one whose header block is still arriving *)
Example C08_example_timer : srv_check_from ex_tcfg ex_ids 0 (init_conn ex_tcfg srv_init_hpack) RS.init ex_timer = 0%nat.
Proof. exact ex_timer_checks. Qed.

(* The known deviations are real (each confirmed by computation on the model). *)
Example C08_deviation_D1_priority_on_even_id :
  srv_item_ok ex_cfg ex_init ex_D1 RS.init = false /\
  trace (srv_feed ex_cfg ex_init ex_D1) = [OGoAway 0 c_ProtocolError; OExit 0 1; OExit 1 1].
Proof. exact (conj ex_D1_not_allowed ex_D1_trace). Qed.

Example C08_deviation_D3_window_update_after_peer_reset :
  let '(c, s) := srv_run_items ex_cfg ex_init RS.init ex_D3_pre in
  srv_item_ok ex_cfg c ex_D3 s = false /\ sc_out (srv_feed ex_cfg c ex_D3) = sc_out c.
Proof. exact (conj ex_D3_not_allowed ex_D3_nothing_sent). Qed.

Example C08_deviation_D6_settings_on_closed_stream :
  let '(c, s) := srv_run_items ex_cfg ex_init RS.init ex_D3_pre in
  srv_item_ok ex_cfg c ex_D6 s = false /\
  reaction_of hpack_state c (RFrame (mkSFrame KSettings 0 1 0 [] 0 0 0 false 0 false 0)) (srv_feed ex_cfg c ex_D6)
    = RS.ConnErr c_StreamClosedError.
Proof. exact (conj ex_D6_not_allowed ex_D6_goaway_code). Qed.

(* (b) PARTIAL.  What is proved (a corollary of (a) and of the table): along a lockstep run, a frame that the table
   lets take effect in the specification state reached so far (RS.may_process: what RS.legal asks of every frame) is -
   outside the known deviations, while the connection is neither in error nor shutting down - processed (a PRIORITY
   frame may be ignored), or answered with one of the few errors the table lists next to "process" (`mild`,
   Proofs/SrvRfcLegal.v):
   - RST_STREAM with a code of the server's own reasons (REFUSED_STREAM, ENHANCE_YOUR_CALM, CANCEL, INTERNAL_ERROR,
     PROTOCOL_ERROR for a malformed message), or FLOW_CONTROL_ERROR on DATA / WINDOW_UPDATE; never in answer to
     RST_STREAM;
   - GOAWAY or closing only on HEADERS / CONTINUATION (what decoding the block can end in: COMPRESSION_ERROR,
     ENHANCE_YOUR_CALM, INTERNAL_ERROR, PROTOCOL_ERROR), FLOW_CONTROL_ERROR on DATA / WINDOW_UPDATE / SETTINGS, and when
     the peer itself says GOAWAY;
   so never STREAM_CLOSED or FRAME_SIZE_ERROR, and no connection error at all on RST_STREAM, PRIORITY or PING.
   (The specification does not let the server escalate a reset of its own to a connection error, RS.PE; (a) shows the
   model never does.) *)
Theorem C08_legal_no_error_partial : forall cfg its,
  forall pre fr post, its = pre ++ IIn (RFrame fr) :: post ->
    let c := fst (srv_run_items cfg (init_conn cfg srv_init_hpack) RS.init pre) in
    let s := snd (srv_run_items cfg (init_conn cfg srv_init_hpack) RS.init pre) in
    sc_sl_done c = false -> RS.dead s = false -> RS.goaway s = false ->
    RS.may_process s (RS.Frame (abs_frame fr)) = true -> known_deviation hpack_state c s (RFrame fr) = false ->
    mild (abs_frame fr)
         (resolve s (RS.Frame (abs_frame fr)) (reaction_of hpack_state c (RFrame fr) (srv_feed cfg c (IIn (RFrame fr))))) = true.
Proof. intros cfg. exact (legal_reaction_class hpack_state srv_dec_field srv_enc_field set_max_table_size cfg srv_init_hpack). Qed.
Print Assumptions C08_legal_no_error_partial.

Example C08_example_legal_partial :
  let pre := firstn 4 ex_run in
  let c := fst (srv_run_items ex_cfg ex_init RS.init pre) in
  let s := snd (srv_run_items ex_cfg ex_init RS.init pre) in
  let i := RFrame (fr KData 0 1 [104; 105] 0 0 0) in
  nth_error ex_run 4 = Some (IIn i) /\ RS.may_process s (abs_input i) = true /\
  resolve s (abs_input i) (reaction_of hpack_state c i (srv_feed ex_cfg c (IIn i))) = RS.Process.
Proof. exact ex_run_item4_legal. Qed.

(* The full statement, NOT PROVED: a legal frame sequence (RS.legal: every frame may take effect in the state the
   earlier frames produced) on odd stream ids below 512 (so that the 256-entry ring of closed streams never forgets)
   and without a GOAWAY frame, with any handler completions interleaved, during which the server raises no error of
   the discretionary classes, is served without any error at all: no RST_STREAM, no GOAWAY, no loop exit.
   (only_frames_and_completions, no_limit_error, no_error_at_all: Proofs/SrvRfcLegal.v.)  Checked by bounded
   exhaustive search (no counterexample among the legal sequences of length <= 5..7 over 2-3 streams), and see the
   example below; what a proof still needs:
   1. RS.legal follows the frames alone, (a) and the theorem above follow the specification state that also sees what
      the server sent (responses finished, the ring forgetting).  Linking the two needs the fact that with ids below
      512 the ring never evicts (ring entries are odd ids <= sc_highestID: an invariant not part of Proofs/SrvRfcSim.v)
      and a simulation between the two specification states.
   2. (a) bounds the reaction by the table, and the table lets a stream error the peer caused be escalated to a
      connection error or to closing (5.4.1), and lists FLOW_CONTROL_ERROR next to "process" for DATA and
      WINDOW_UPDATE.  That the model answers a legal frame with nothing of the kind has to be read off each of the
      model's error sites (about 30 leaves of Proofs/SrvRfcSl.v / SrvRfcFrame.v); GOAWAY(PROTOCOL_ERROR) is also what
      the header decoder answers a malformed message with, on a perfectly legal frame sequence, which is why the
      statement counts it among the server's own errors.
   3. The outputs of a step on OTHER streams than the frame's (flushStreams after a window grows) are described by
      Proofs/SrvRfcBatch.v only as far as stream states go: that their RST_STREAMs are INTERNAL_ERROR is known to
      Proofs/SrvRfcSend.v but not carried to the theorems. *)
Definition C08_legal_no_error_statement : Prop := forall cfg its,
  only_frames_and_completions its = true ->
  RS.legal (map abs_frame (flat_map frame_of_item its)) = true ->
  let tr := trace (fst (srv_run_items cfg (init_conn cfg srv_init_hpack) RS.init its)) in
  forallb no_limit_error tr = true -> forallb no_error_at_all tr = true.

(* an instance of the statement: a legal sequence on three streams, served without any error *)
Example C08_example_legal_run :
  only_frames_and_completions ex_legal = true /\
  RS.legal (map abs_frame (flat_map frame_of_item ex_legal)) = true /\
  forallb no_error_at_all (trace (fst (srv_run_items ex_cfg ex_init RS.init ex_legal))) = true.
Proof. exact ex_legal_served. Qed.
