(* C12 - every client request resolves exactly once, whatever the server does.
   Theorems over the client model (Impl/ClientConn.v), for ALL event lists: every schedule of callers, write loop, read
   loop, timers, Close, write failures, and every server behaviour (frames, garbage, EOF) is an event list; an event that
   is not enabled is a no-op of cl_step. `cli_run cfg first evs` is the state after evs, `cli_tr` the trace
   (frames written, results delivered to callers, pool items, parked goroutines, panics).
   Only statements here; every proof is one lemma of Proofs/CliRes*.v (invariant `inv` of Proofs/CliResInv.v/CliResStep.v:
   "whoever lets go of a request answers it", proved generically in the HPACK coder; instance lemmas in Proofs/CliResInst.v).
   What the model cannot say: "within its configured timeout" and "its goroutines exit" are real-time / blocking
   statements (Teardown LTS, Props/Teardown.v); their functional halves are C12_timeout_answers, C12_rl_exit_closes,
   C12_wl_done_enabled, C12_check_answers below.
   Statement of Props/C12_statements.v that was WRONG and is corrected here (counterexample as an Example):
   c12_no_stranding (a caller between the two selects of Conn.Write is not answered yet: its second select does it).
   c12_nil_means_response (200 <= status) used to be false on the code (a 1xx block with END_STREAM was delivered as nil,
   status 100); that defect is fixed (/repo aaab76f) and C12_nil_complete now says a FINAL status was seen. *)
From H2V Require Import Base.Bytes Base.MachineInt Base.Result Gen.GenConsts Impl.Hpack Impl.ServerConn Impl.ClientConn
     Impl.ClientInst Proofs.CliBase Proofs.CliDefs Proofs.CliResInv Proofs.CliResStep Proofs.CliResMoves Proofs.CliResThms
     Proofs.CliResGoAway Proofs.CliResNil Proofs.CliResInst.
From Coq Require Import ZArith List Bool.
Import ListNotations.
Local Open Scope N_scope.

(* ---------- (a) exactly once ---------- *)

(* the number of results delivered for a request is 1 if its roundTripOnce has returned, 0 otherwise: never 2 *)
Theorem C12_results_exact : forall cfg first evs tag,
  length (results_for tag (cli_tr cfg first evs)) =
  match cst_ctx (cli_run cfg first evs) tag with Some x => if ct_returned x then 1%nat else 0%nat | None => 0%nat end.
Proof. exact i_results_exact. Qed.
Print Assumptions C12_results_exact.

Theorem C12_at_most_one_result : forall cfg first evs tag, (length (results_for tag (cli_tr cfg first evs)) <= 1)%nat.
Proof. exact i_at_most_one_result. Qed.
Print Assumptions C12_at_most_one_result.

(* the same for every HPACK coder (the instance plays no part) *)
Theorem C12_at_most_one_result_generic : forall hstate dec_field enc_field enc_set_max cfg (h0 : hstate) first evs t,
  (res_count (cl_run dec_field enc_field enc_set_max cfg h0 first evs) t <= 1)%nat.
Proof. exact @results_at_most_once. Qed.
Print Assumptions C12_at_most_one_result_generic.

(* once roundTripOnce has returned nothing waits in Err, and the Ctx is taken back (done, resolved): a later resolve
   by either loop or by the timer is a no-op *)
Theorem C12_no_delivery_after_return : forall cfg first evs tag x,
  cst_ctx (cli_run cfg first evs) tag = Some x -> ct_returned x = true ->
  ct_err x = None /\ ct_resolved x = true /\ ct_done x = true.
Proof. exact i_no_delivery_after_return. Qed.
Print Assumptions C12_no_delivery_after_return.

(* where a request is: in every reachable state the Ctx objects have distinct tags, the queue `in` and the request table
   hold each tag at most once and never both, they only hold Ctx the connection knows, and a request that is in neither
   is answered (its result delivered, or waiting in Err): queued / on the table / answered, nothing else *)
Theorem C12_request_position : forall cfg first evs, let c := cli_run cfg first evs in
  NoDup (map ct_tag (cc_ctxs c)) /\ NoDup (cc_inQ c) /\ NoDup (map snd (cc_reqQueued c)) /\ NoDup (map fst (cc_reqQueued c)) /\
  (forall t, In t (cc_inQ c) -> ~ In t (map snd (cc_reqQueued c))) /\
  (forall t, In t (cc_inQ c) \/ In t (map snd (cc_reqQueued c)) -> cl_ctx_get c t <> None) /\
  (forall x, In x (cc_ctxs c) -> ~ In (ct_tag x) (cc_inQ c) -> ~ In (ct_tag x) (map snd (cc_reqQueued c)) -> answered x = true).
Proof. exact i_request_position. Qed.
Print Assumptions C12_request_position.

(* c12_dropped_means_answered, without its hypothesis on the write loop (no loop is ever parked: C12_never_stuck) *)
Theorem C12_dropped_means_answered : forall cfg first evs x, let c := cli_run cfg first evs in
  In x (cc_ctxs c) -> cst_refers c (ct_tag x) = false -> answered x = true.
Proof. exact i_dropped_means_answered. Qed.
Print Assumptions C12_dropped_means_answered.

(* no stranding: once the write loop has returned (it is the one that drains the table and the queue) the connection is
   closed, the table is empty, and every request ever handed to the connection is answered - except a request whose
   caller is still between the two selects of Conn.Write (ct_writing): it is in the queue and his second select answers
   it (C12_check_answers). The statement of C12_statements.v forgot that exception: C12_ex_stranding_statement_was_false *)
Theorem C12_no_stranding : forall cfg first evs, let c := cli_run cfg first evs in cc_wl_done c = true ->
  cc_closed c = true /\ cc_reqQueued c = [] /\
  forall x, In x (cc_ctxs c) -> answered x = true \/ (ct_writing x = true /\ In (ct_tag x) (cc_inQ c)).
Proof. exact i_no_stranding. Qed.
Print Assumptions C12_no_stranding.

(* Write's second select on a closed connection: the Ctx is taken back and answered unless the write loop has already
   given it a stream (then it is on the table: C12_request_position, and the teardown answers it: C12_no_stranding) *)
Theorem C12_check_answers : forall cfg first evs t x, let c := cli_run cfg first evs in
  cst_ctx c t = Some x -> ct_writing x = true -> cc_closed c = true ->
  exists x', cst_ctx (cli_step cfg c (CEvSubmitCheck t)) t = Some x' /\ ct_writing x' = false /\
             (ct_sid x = 0 -> answered x' = true) /\ (ct_sid x <> 0 -> x' = ctu_writing x false).
Proof. exact i_check_answers. Qed.
Print Assumptions C12_check_answers.

(* the loops go (functional half; that the enabled step is eventually taken is the Teardown LTS): when the read loop has
   returned the connection is closed, and on a closed connection the write loop's `case <-c.done` is enabled and ends it *)
Theorem C12_rl_exit_closes : forall cfg first evs,
  cc_rl_done (cli_run cfg first evs) = true -> cc_closed (cli_run cfg first evs) = true.
Proof. exact i_rl_exit_closes. Qed.
Print Assumptions C12_rl_exit_closes.

Theorem C12_wl_done_enabled : forall cfg (c : cst),
  cc_closed c = true -> cl_wl_live c = true -> cc_wl_done (cli_step cfg c CEvWLDone) = true.
Proof. exact i_wl_done_enabled. Qed.
Print Assumptions C12_wl_done_enabled.

(* the functional half of "within its configured timeout": when the cancel timer of a request runs out the request is
   answered, with ErrRequestCanceled if nothing had answered it before *)
Theorem C12_timeout_answers : forall cfg first evs t x, let c := cli_run cfg first evs in
  cst_ctx c t = Some x -> ct_armed x = true -> ct_fired x = false ->
  exists x', cst_ctx (cli_step cfg c (CEvTimeout t)) t = Some x' /\ answered x' = true /\
             (ct_returned x = false -> ct_err x = None -> ct_err x' = Some CETimeout).
Proof. exact i_timeout_answers. Qed.
Print Assumptions C12_timeout_answers.

(* (e) after Close, or after a loop has died (closed is set by both), a request handed to Conn.Write is answered by
   Write itself, whichever case its first select takes (q), and is never given a stream *)
Theorem C12_write_after_close : forall cfg first evs tag rq q,
  cc_closed (cli_run cfg first evs) = true -> cst_ctx (cli_run cfg first evs) tag = None ->
  exists x, cst_ctx (cli_run cfg first (evs ++ [CEvSubmit tag rq q; CEvSubmitCheck tag])) tag = Some x /\
            ct_err x <> None /\ ct_returned x = false /\ ct_sid x = 0.
Proof. exact i_write_after_close. Qed.
Print Assumptions C12_write_after_close.

(* ---------- (b) nil only for a response the server completed ---------- *)

(* a nil result for tag: the request had a stream (sid <> 0), and at some point of the history (evs = pre ++ frame :: post)
   the running read loop, on the open socket, took in a frame fr of that stream, then on the request table, such that
   - END_STREAM was seen (es_seen): fr is a DATA frame with END_STREAM, or a HEADERS frame with END_HEADERS and
     END_STREAM, or the CONTINUATION frame with END_HEADERS of a block whose HEADERS frame had END_STREAM;
   - a FINAL status was seen (status_seen): earlier (gotStatus of the request's Ctx), or the header block fr completes
     carries a :status >= 200 (the connection's hdrStatus register after readStream); an interim 1xx block cannot be
     what ends the stream.
   (That it is that step which put nil into Err, and that nothing else in the model ever does, is the proof: nil_inv_run.) *)
Theorem C12_nil_complete : forall cfg first evs tag retry resp,
  In (tag, retry, CENil, resp) (results_of (cli_tr cfg first evs)) ->
  exists x, cst_ctx (cli_run cfg first evs) tag = Some x /\ ct_sid x <> 0 /\
    exists pre fr post, evs = pre ++ CEvRL (RFrame fr) :: post /\ sf_sid fr = ct_sid x /\
      cl_rl_live (cli_run cfg first pre) = true /\ cc_netClosed (cli_run cfg first pre) = false /\
      es_seen (cli_run cfg first pre) fr /\
      exists t0 x0, In (ct_sid x, t0) (cc_reqQueued (cli_run cfg first pre)) /\ cst_ctx (cli_run cfg first pre) t0 = Some x0 /\
                    ct_done x0 = false /\ status_seen cli_dec_field (cli_run cfg first pre) fr x0.
Proof. exact i_nil_complete. Qed.
Print Assumptions C12_nil_complete.

(* NOT PROVED (C12_nil_complete is its partial): the same in terms of the Response handed back. What is missing is the
   link, across the frames of one header block, between the connection's hdrStatus register and the status stored in the
   request's Response (readHeaderField sets both together, under the Ctx taken by dispatch), and that the Response is
   not touched between finish and the caller's receive. *)
Definition C12_nil_status_statement : Prop :=
  forall cfg first evs tag retry resp,
    In (tag, retry, CENil, resp) (results_of (cli_tr cfg first evs)) -> (200 <= cr_status resp <= 999)%Z.

(* ---------- (c) no self-deadlock, no goroutine parked for ever, no panic ---------- *)
Theorem C12_no_self_deadlock : forall cfg first evs, existsb is_deadlock (cli_tr cfg first evs) = false.
Proof. exact i_no_self_deadlock. Qed.
Print Assumptions C12_no_self_deadlock.

Theorem C12_never_stuck : forall cfg first evs, let c := cli_run cfg first evs in
  cc_rl_stuck c = false /\ cc_wl_stuck c = false /\ forall x, In x (cc_ctxs c) -> ct_lckStuck x = false.
Proof. exact i_never_stuck. Qed.
Print Assumptions C12_never_stuck.

(* the read loop's recover never runs: the only panic of the model is the HPACK decoder's, which C03 excludes *)
Theorem C12_no_panic : forall cfg first evs, existsb is_panic_item (cli_tr cfg first evs) = false.
Proof. exact i_no_panic. Qed.
Print Assumptions C12_no_panic.

(* for every coder: no parked goroutine, and a panic item only if the decoder can panic *)
Theorem C12_trace_safe_generic : forall hstate dec_field enc_field enc_set_max cfg (h0 : hstate) first evs o,
  In o (cc_out (cl_run dec_field enc_field enc_set_max cfg h0 first evs)) ->
  dl_item o = false /\ (pn_item o = true -> ~ no_panic_dec dec_field).
Proof. exact @trace_safe. Qed.
Print Assumptions C12_trace_safe_generic.

(* ---------- (d) the pool ---------- *)

(* markFinished only after the connection has let go: nothing of the connection refers to a Ctx marked finished - not
   the queue `in`, not the request table, not the pending bodies (cst_refers) *)
Theorem C12_finished_not_referred : forall cfg first evs t x,
  cst_ctx (cli_run cfg first evs) t = Some x -> ct_finished x = true -> cst_refers (cli_run cfg first evs) t = false.
Proof. exact i_finished_not_held. Qed.
Print Assumptions C12_finished_not_referred.

(* c12_pool_safe and more: a pool item (releaseCtx) only comes out of the caller's receive, and only for a Ctx the
   connection has marked finished and whose cancel timer is stopped (not armed, or armed and not run out) - `reusable`;
   after the step nothing of the connection refers to it, it is taken back (done, resolved: any later resolve is a no-op,
   acquireFor refuses) and its timer is disarmed (a later CEvTimeout is a no-op): no loop and no timer can resolve it *)
Theorem C12_pool_safe : forall cfg first evs e tag,
  In e (cli_log cfg first evs) -> In (COPoolPut tag) (le_items e) ->
  le_ev e = CEvReceive tag /\ cst_refers (le_after e) tag = false /\
  exists x, cst_ctx (le_before e) tag = Some x /\ ct_finished x = true /\ (ct_armed x = true -> ct_fired x = false) /\
            cst_ctx (le_after e) tag = Some (recv_ctx x) /\ ct_pooled (recv_ctx x) = true /\
            ct_armed (recv_ctx x) = false /\ ct_done (recv_ctx x) = true /\ ct_resolved (recv_ctx x) = true.
Proof. exact i_pool_put_safe. Qed.
Print Assumptions C12_pool_safe.

(* ---------- examples ---------- *)

(* two requests, the second answered first; then a double receive: one result each *)
Example C12_ex_two_requests :
  let evs := [CEvSubmit 0 ex_get true; CEvWLIn; CEvSubmit 1 ex_get true; CEvWLIn;
              CEvRL (ex_headers 3 true ex_block_404); CEvRL (ex_headers 1 true ex_block_200);
              CEvReceive 0; CEvReceive 1; CEvReceive 0; CEvReceive 1] in
  (length (results_for 0 (cli_tr ex_cfg [] evs)), length (results_for 1 (cli_tr ex_cfg [] evs)),
   map (fun r => (fst (fst (fst r)), snd (fst r))) (results_of (cli_tr ex_cfg [] evs)))
  = (1%nat, 1%nat, [(0, CENil); (1, CENil)]).
Proof. vm_compute. reflexivity. Qed.

(* the statement of C12_statements.v (every Ctx answered once both loops are gone) is false: the caller of tag 0 is
   between the two selects of Conn.Write; C12_no_stranding's exception applies and his second select answers *)
Example C12_ex_stranding_statement_was_false :
  let evs := [CEvRL RLEof; CEvWLDone; CEvSubmit 0 ex_get true] in
  let c := cli_run ex_cfg [] evs in
  let c' := cli_run ex_cfg [] (evs ++ [CEvSubmitCheck 0]) in
  (cc_rl_done c, cc_wl_done c, map answered (cc_ctxs c), map ct_writing (cc_ctxs c), cc_inQ c, map answered (cc_ctxs c'))
  = (true, true, [false], [true], [0], [true]).
Proof. vm_compute. reflexivity. Qed.

(* the connection is cut under a request in flight; a request arriving afterwards is answered by Write *)
Example C12_ex_cut :
  let c := cli_run ex_cfg [] [CEvSubmit 0 ex_get true; CEvWLIn; CEvWriteFail; CEvRL RLEof; CEvWLDone;
                             CEvSubmit 1 ex_get true; CEvSubmitCheck 1] in
  (cc_wl_done c, cc_reqQueued c, map answered (cc_ctxs c), map ct_err (cc_ctxs c))
  = (true, [], [true; true], [Some CEConn; Some CEConn]).
Proof. vm_compute. reflexivity. Qed.

(* Write racing Close, both orders of the write loop's select and Write's second select *)
Example C12_ex_close_race :
  (map (fun r => (fst (fst r), snd (fst r)))
       (results_of (cli_tr ex_cfg [] [CEvClose; CEvSubmit 0 ex_get true; CEvWLIn; CEvSubmitCheck 0; CEvCloseNet; CEvWLDone; CEvReceive 0])),
   map (fun r => (fst (fst r), snd (fst r)))
       (results_of (cli_tr ex_cfg [] [CEvClose; CEvSubmit 0 ex_get true; CEvSubmitCheck 0; CEvWLIn; CEvCloseNet; CEvWLDone; CEvReceive 0])))
  = ([(0, false, CEConn)], [(0, true, CEConnClosed)]).
Proof. vm_compute. reflexivity. Qed.

(* a streamed body and a failing HEADERS write: the path that used to lock Ctx.lck twice *)
Example C12_ex_write_failure_streamed :
  let tr := cli_tr ex_cfg [] [CEvWriteFail; CEvSubmit 0 (ex_post (CStream [([1; 2], RNil)] 2)) true; CEvWLIn; CEvReceive 0] in
  (existsb is_deadlock tr, existsb is_panic_item tr, map (fun r => snd (fst r)) (results_of tr)) = (false, false, [CEWrite]).
Proof. vm_compute. reflexivity. Qed.

(* a body reader that fails: the write loop takes the request off the table, answers it (the Ctx is finished: it goes
   back to the pool), and writes the RST_STREAM(INTERNAL_ERROR) itself - nothing is left on c.out for it to wait for *)
Example C12_ex_reader_failure :
  let c := cli_run ex_cfg [] [CEvSubmit 0 (ex_post (CStream [([1; 2], RNil); ([], RFail)] (-1))) true; CEvWLIn; CEvReceive 0] in
  (map (fun o => match o with COHeaders _ _ _ => 1 | COData _ _ _ => 2 | CORst _ code => 10 + code | COResult _ _ _ _ => 3
                             | COPoolPut _ => 4 | COBodyClosed _ => 5 | _ => 0 end) (cli_trace c),
   map (fun r => snd (fst r)) (results_of (cli_trace c)), cc_reqQueued c, cc_outQ c, cc_open c)
  = ([1; 2; 5; 12; 3; 4], [CEBody], [], [], 0%Z).
Proof. vm_compute. reflexivity. Qed.

(* the timer answers a request the server never answers *)
Example C12_ex_timeout :
  map (fun r => snd (fst r))
      (results_of (cli_tr ex_cfg_armed [] [CEvSubmit 0 ex_get true; CEvWLIn; CEvTimeout 0; CEvTimeoutCancel 0; CEvReceive 0]))
  = [CETimeout].
Proof. vm_compute. reflexivity. Qed.

(* nil needs the status: DATA with END_STREAM on a stream that has had no HEADERS is answered with an error *)
Example C12_ex_data_before_headers :
  map (fun r => (snd (fst r), cr_status (snd r)))
      (results_of (cli_tr ex_cfg [] [CEvSubmit 0 ex_get true; CEvWLIn; CEvRL (ex_data 1 true [97; 98]); CEvReceive 0]))
  = [(CEMalformed, 0%Z)].
Proof. vm_compute. reflexivity. Qed.

(* the pool: a completed request goes back to the pool; one answered by the timer while still on the table does not *)
Example C12_ex_pool :
  (filter (fun o => match o with COPoolPut _ => true | _ => false end)
          (cli_tr ex_cfg_armed [] [CEvSubmit 0 ex_get true; CEvWLIn; CEvRL (ex_headers 1 true ex_block_200); CEvReceive 0]),
   filter (fun o => match o with COPoolPut _ => true | _ => false end)
          (cli_tr ex_cfg_armed [] [CEvSubmit 0 ex_get true; CEvWLIn; CEvTimeout 0; CEvReceive 0; CEvTimeoutCancel 0]))
  = ([COPoolPut 0], []).
Proof. vm_compute. reflexivity. Qed.

(* a 1xx header block carrying END_STREAM is malformed (it used to be delivered as a success with status 100: fixed);
   a 1xx block followed by the final response is fine *)
Example C12_ex_1xx_end_stream :
  (map (fun r => (snd (fst r), cr_status (snd r)))
       (results_of (cli_tr ex_cfg [] [CEvSubmit 0 ex_get true; CEvWLIn; CEvRL (ex_headers 1 true [8; 3; 49; 48; 48]); CEvReceive 0])),
   map (fun r => (snd (fst r), cr_status (snd r)))
       (results_of (cli_tr ex_cfg [] [CEvSubmit 0 ex_get true; CEvWLIn; CEvRL (ex_headers 1 false [8; 3; 49; 48; 48]);
                                      CEvRL (ex_headers 1 true ex_block_200); CEvReceive 0])))
  = ([(CEMalformed, 100%Z)], [(CENil, 200%Z)]).
Proof. vm_compute. reflexivity. Qed.
