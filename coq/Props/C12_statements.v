(* C12 - every client request resolves exactly once, whatever the server does.
   Statements over the client model (Impl/ClientConn.v, instance Impl/ClientInst.v), phase 1:
   each is a `Definition ... : Prop`; the examples run the model on concrete event lists.
   The quantifier "all interleavings, all server behaviours" is "all event lists": an event
   that is not enabled is a no-op of cl_step. Partial: "within its timeout", goroutine exit and
   freedom from cross-goroutine deadlock are outside what the model can exhibit (DESIGN 6, C12). *)
From H2V Require Import Base.Bytes Base.MachineInt Base.Result Gen.GenConsts Impl.Hpack Impl.ServerConn
     Impl.ClientConn Impl.ClientInst Proofs.CliDefs.
From Coq Require Import ZArith List Bool.
Import ListNotations.
Local Open Scope N_scope.

(* (1) at most one result per request: roundTripOnce returns once per Ctx *)
Definition c12_at_most_one_result : Prop :=
  forall cfg first evs tag, (length (results_for tag (cli_tr cfg first evs)) <= 1)%nat.

(* (2) a Ctx's Err never holds a second value: what is delivered was put there by exactly one resolve.
   In the model Err is `ct_err : option`, so the statement is about resolved: once roundTripOnce
   has returned nothing is sent on Err any more *)
Definition c12_no_delivery_after_return : Prop :=
  forall cfg first evs tag x,
    cst_ctx (cli_run cfg first evs) tag = Some x -> ct_returned x = true -> ct_err x = None.

(* (3) no goroutine locks a mutex it holds, and none waits on a mutex held for ever *)
Definition c12_no_self_deadlock : Prop :=
  forall cfg first evs, existsb is_deadlock (cli_tr cfg first evs) = false.

(* (4) no loop panics (the read loop's recover included) *)
Definition c12_no_panic : Prop :=
  forall cfg first evs, existsb is_panic_item (cli_tr cfg first evs) = false.

(* (5) nil only with a complete response: a final status has arrived *)
Definition c12_nil_means_response : Prop :=
  forall cfg first evs tag retry resp,
    In (tag, retry, CENil, resp) (results_of (cli_tr cfg first evs)) -> (200 <= cr_status resp)%Z.

(* (6) nothing is stranded: once both loops have gone, every request handed to the connection
   has its answer (delivered, or waiting in Err), and so has every request handed to it afterwards *)
Definition cst_dead (c : cst) : bool := cc_rl_done hpack_state c && cc_wl_done hpack_state c.
Definition ctx_answered (x : cctx) : bool := ct_returned x || match ct_err x with Some _ => true | None => false end.
Definition c12_no_stranding : Prop :=
  forall cfg first evs,
    let c := cli_run cfg first evs in
    cst_dead c = true -> forallb ctx_answered (cc_ctxs hpack_state c) = true.

(* (6') and without waiting for the loops: a request the connection has dropped from all its
   tables and queues has been answered *)
Definition c12_dropped_means_answered : Prop :=
  forall cfg first evs x,
    let c := cli_run cfg first evs in
    In x (cc_ctxs hpack_state c) -> cst_refers c (ct_tag x) = false -> cc_wl_stuck hpack_state c = false ->
    ctx_answered x = true.

(* (7) a Ctx goes back to the pool only when nothing of the connection refers to it any more *)
Definition c12_pool_safe : Prop :=
  forall cfg first evs e tag,
    In e (cli_log cfg first evs) -> In (COPoolPut tag) (le_items e) -> cst_refers (le_after e) tag = false.

(* (8) after Close (or the death of a loop) every later request is answered by Write itself *)
Definition c12_write_after_close : Prop :=
  forall cfg first evs tag rq q x,
    cc_closed hpack_state (cli_run cfg first evs) = true ->
    cst_ctx (cli_run cfg first evs) tag = None ->
    cst_ctx (cli_run cfg first (evs ++ [CEvSubmit tag rq q; CEvSubmitCheck tag])) tag = Some x ->
    ct_err x <> None.

(* ---------- examples ---------- *)

(* two requests, the second answered first; each caller gets one result, its own *)
Example c12_ex_two_requests :
  map (fun r => (fst (fst (fst r)), snd (fst r)))
      (results_of (cli_tr ex_cfg []
         [CEvSubmit 0 ex_get true; CEvWLIn; CEvSubmit 1 ex_get true; CEvWLIn;
          CEvRL (ex_headers 3 true ex_block_404); CEvRL (ex_headers 1 true ex_block_200);
          CEvReceive 0; CEvReceive 1; CEvReceive 0; CEvReceive 1]))
  = [(0, CENil); (1, CENil)].
Proof. vm_compute. reflexivity. Qed.

(* the server goes silent and the connection is cut: the request in flight is answered with an
   error, a request handed over afterwards is answered by Write *)
Example c12_ex_cut :
  let c := cli_run ex_cfg [] [CEvSubmit 0 ex_get true; CEvWLIn; CEvWriteFail; CEvRL RLEof; CEvWLDone; CEvSubmit 1 ex_get true; CEvSubmitCheck 1] in
  (cst_dead c, forallb ctx_answered (cc_ctxs hpack_state c)) = (true, true).
Proof. vm_compute. reflexivity. Qed.

(* a streamed body and a failing HEADERS write: the path that used to lock Ctx.lck twice *)
Example c12_ex_write_failure_streamed :
  let tr := cli_tr ex_cfg [] [CEvWriteFail; CEvSubmit 0 (ex_post (CStream [([1; 2], RNil)] 2)) true; CEvWLIn; CEvReceive 0] in
  (existsb is_deadlock tr, map (fun r => snd (fst r)) (results_of tr)) = (false, [CEWrite]).
Proof. vm_compute. reflexivity. Qed.

(* DATA with END_STREAM on a stream that has had no HEADERS is not a response (this used to be
   delivered as a success) *)
Example c12_ex_data_before_headers :
  map (fun r => (snd (fst r), cr_status (snd r)))
      (results_of (cli_tr ex_cfg [] [CEvSubmit 0 ex_get true; CEvWLIn; CEvRL (ex_data 1 true [97; 98]); CEvReceive 0]))
  = [(CEMalformed, 0%Z)].
Proof. vm_compute. reflexivity. Qed.

(* a body reader that fails: the stream is reset and the request answered at once (it used to
   stay queued for the cancel timer, if any, to end) *)
Example c12_ex_reader_failure :
  let c := cli_run ex_cfg [] [CEvSubmit 0 (ex_post (CStream [([1; 2], RNil); ([], RFail)] (-1))) true; CEvWLIn; CEvWLOut; CEvReceive 0] in
  (map (fun o => match o with COHeaders _ _ _ => 1 | COData _ _ _ => 2 | CORst _ code => 10 + code | _ => 0 end) (cli_trace c),
   map (fun r => snd (fst r)) (results_of (cli_trace c)), cc_reqQueued hpack_state c, cc_open hpack_state c)
  = ([1; 2; 0; 12; 0; 0], [CEBody], [], 0%Z).
Proof. vm_compute. reflexivity. Qed.
