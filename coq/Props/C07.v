(* C07 - the client never sends DATA beyond the server's windows, and finishes.
   Only statements here; every proof is one lemma of Proofs/CliFlow*.v. All theorems are about the model of
   Impl/ClientConn.v (tied to conn.go by the lockstep suite "client"), for ALL event lists, generic in the HPACK coder.

   How a run is read as a history of the server's ledger (Spec/FlowLedger.v): `g_ledger` (Proofs/CliFlowSafe.v;
   `cli_ledger` is its instance with the real HPACK coder) lists the SETTINGS_INITIAL_WINDOW_SIZE values of the
   handshake SETTINGS, then, step by step, the grants of the frame the READ LOOP takes in in that step (WINDOW_UPDATE,
   SETTINGS_INITIAL_WINDOW_SIZE) followed by the streams the step opens (HEADERS) and the DATA payload bytes it writes.
   The read loop applies a grant itself, under sendLck (addWindow / applyInitialWindow), and queues the SETTINGS ACK only
   AFTER that (handleSettings; C18_client_settings_ack_step): the ACK is written by the write loop, the only writer of
   DATA, in a later select case, so every DATA frame behind the ACK on the wire was decided with the new value, and a
   frame decided with the old, higher value is on the wire before the ACK (RFC 7540 6.9.2 allows exactly that). For an
   increase the client may use the new value before the ACK is out; the server announced it, so it holds from the
   moment the server sent the frame.

   Atomicity. One select case of the write loop is one step: a sendLck critical section of sendPending subtracts
   n = min(len body, stream window, connection window) under the lock and the DATA run of exactly those n bytes is
   written right after it by the same goroutine (flushData), before the write loop can write anything else. In Go the
   read loop can run between the two: a SETTINGS frame that lowers INITIAL_WINDOW_SIZE then applies its delta to the
   window that has already been debited (the ledger's LData stands for the critical section), and one that changes
   MAX_FRAME_SIZE is read by writeData when it cuts the frames: the value in force when a frame is written binds, which
   is at most as old as the one the model uses (the step's start).

   Hypothesis of the safety theorems, `GOK ledger0 h`: after every prefix of the history no window of the ledger is
   above 2^31-1, i.e. the server keeps its own side of 6.9.1. Without it the int32 sums of addWindow wrap
   (C07_int32_wrap_observation): the client then sends LESS than it may, never more, but the ledger form as stated
   needs the hypothesis. *)
From Coq Require Import List NArith ZArith Bool.
From H2V Require Import Base.Bytes Base.MachineInt Base.Result Gen.GenConsts Impl.Hpack Impl.ServerConn Impl.ServerInst
  Impl.ClientConn Impl.ClientInst Proofs.CliDefs Spec.FlowLedger Proofs.SrvFlowLedger
  Proofs.CliFlowMoves Proofs.CliFlowOut Proofs.CliFlowSettings Proofs.CliFlowSafe Proofs.CliFlowEs Proofs.CliFlowExamples.
Import ListNotations.
Local Open Scope N_scope.

(* (a) safety, window form: every DATA frame fits the connection window and its stream's window of the server's
   ledger at the moment it is written (an empty DATA frame is always allowed), on a stream the client has opened *)
Theorem C07_ledger_valid : forall (hstate : Type) (dec_field : hstate -> N -> bytes -> dec_res hstate)
    (enc_field : hstate -> bytes -> bytes -> bool -> bytes * hstate) (enc_set_max : hstate -> N -> hstate)
    (cfg : cl_config) (h0 : hstate) (first : bytes) (evs : list cevent),
  cl_settings_deserialize false first <> None ->
  GOK ledger0 (g_ledger hstate dec_field enc_field enc_set_max cfg h0 first evs) ->
  lvalid ledger0 (g_ledger hstate dec_field enc_field enc_set_max cfg h0 first evs).
Proof. exact ledger_safe. Qed.
Print Assumptions C07_ledger_valid.

(* (a) safety, totals form (the property's text): whenever DATA is written, the payload bytes sent so far on the
   connection and on that stream, this frame included, are within what has been granted *)
Theorem C07_within_grants : forall (hstate : Type) (dec_field : hstate -> N -> bytes -> dec_res hstate)
    (enc_field : hstate -> bytes -> bytes -> bool -> bytes * hstate) (enc_set_max : hstate -> N -> hstate)
    (cfg : cl_config) (h0 : hstate) (first : bytes) (evs : list cevent),
  cl_settings_deserialize false first <> None ->
  GOK ledger0 (g_ledger hstate dec_field enc_field enc_set_max cfg h0 first evs) ->
  within_grants (g_ledger hstate dec_field enc_field enc_set_max cfg h0 first evs).
Proof. exact ledger_within_grants. Qed.
Print Assumptions C07_within_grants.

(* (a) no DATA frame is larger than the SETTINGS_MAX_FRAME_SIZE in force when the step that writes it starts
   (cc_maxFrame: 16384 until the server says otherwise, then the last value merged, always within 2^14 .. 2^24-1 so
   that writeData's fallback to the default never applies), and DATA is written only on a stream whose body is pending
   when the step starts or that the step itself opens: nothing after finish / cancel / reset has dropped the body *)
Theorem C07_frame_size : forall (hstate : Type) (dec_field : hstate -> N -> bytes -> dec_res hstate)
    (enc_field : hstate -> bytes -> bytes -> bool -> bytes * hstate) (enc_set_max : hstate -> N -> hstate)
    (cfg : cl_config) (h0 : hstate) (first : bytes) (evs : list cevent) (e : cevent) (sid : N) (es : bool) (p : bytes),
  cl_settings_deserialize false first <> None ->
  In (COData sid es p) (g_new hstate (cl_run dec_field enc_field enc_set_max cfg h0 first evs)
                              (cl_step dec_field enc_field enc_set_max cfg (cl_run dec_field enc_field enc_set_max cfg h0 first evs) e)) ->
  len p <= cc_maxFrame (cl_run dec_field enc_field enc_set_max cfg h0 first evs) /\
  16384 <= cc_maxFrame (cl_run dec_field enc_field enc_set_max cfg h0 first evs) <= 16777215 /\
  (In sid (map pb_id (cc_pending (cl_run dec_field enc_field enc_set_max cfg h0 first evs))) \/
   cc_nextID (cl_run dec_field enc_field enc_set_max cfg h0 first evs) <= sid).
Proof. exact data_frames_small. Qed.
Print Assumptions C07_frame_size.

(* (a) one call of writeData: the frames carry exactly the bytes it was given, in order, each at most the step
   (maxFrameSize, or 16384 if that is 0 or above 2^24-1), END_STREAM on the last frame and only there; an empty body
   gives one empty frame when it ends the stream and nothing otherwise *)
Theorem C07_data_run : forall (mf sid : N) (body : bytes) (endb : bool),
  exists l : list (bool * bytes),
    cl_write_data mf sid body endb = frames_of sid l /\ concat (map snd l) = body /\
    Forall (fun x => len (snd x) <= wd_step mf) l /\ es_shape l endb /\ (l = [] <-> body = [] /\ endb = false).
Proof. exact write_data_shape. Qed.
Print Assumptions C07_data_run.

(* (b) END_STREAM exactly once: of two frames (HEADERS or DATA) the client writes on one stream, the earlier one has no
   END_STREAM; so a stream gets at most one END_STREAM and no HEADERS or DATA after it (RST_STREAM from a cancel is
   not such a frame) *)
Theorem C07_end_stream_once : forall (hstate : Type) (dec_field : hstate -> N -> bytes -> dec_res hstate)
    (enc_field : hstate -> bytes -> bytes -> bool -> bytes * hstate) (enc_set_max : hstate -> N -> hstate)
    (cfg : cl_config) (h0 : hstate) (first : bytes) (evs : list cevent) pre o1 mid o2 post sid,
  cl_trace (cl_run dec_field enc_field enc_set_max cfg h0 first evs) = pre ++ o1 :: mid ++ o2 :: post ->
  frame_sid o1 = Some sid -> frame_sid o2 = Some sid -> is_es o1 = false.
Proof. exact end_stream_once. Qed.
Print Assumptions C07_end_stream_once.

(* (b) every DATA frame comes after a HEADERS frame without END_STREAM on its stream *)
Theorem C07_data_after_headers : forall (hstate : Type) (dec_field : hstate -> N -> bytes -> dec_res hstate)
    (enc_field : hstate -> bytes -> bytes -> bool -> bytes * hstate) (enc_set_max : hstate -> N -> hstate)
    (cfg : cl_config) (h0 : hstate) (first : bytes) (evs : list cevent) pre sid es p post,
  cl_trace (cl_run dec_field enc_field enc_set_max cfg h0 first evs) = pre ++ COData sid es p :: post ->
  exists blk, In (COHeaders sid false blk) pre.
Proof. exact data_after_headers. Qed.
Print Assumptions C07_data_after_headers.

(* ---------- examples (the instance with the real HPACK model) ---------- *)

(* initial window 10, a 25-byte body: 10 + 7 + 8 bytes as the grants come in; the history satisfies the hypothesis *)
Example C07_ledger_valid_example :
  cl_settings_deserialize false ex_first_w10 <> None /\
  cli_ledger ex_cfg ex_first_w10 ex_upload =
    [LInit 10; LOpen 1; LData 1 10; LGrant 0 1000; LGrant 1 7; LData 1 7; LGrant 1 100; LData 1 8] /\
  GOK ledger0 (cli_ledger ex_cfg ex_first_w10 ex_upload).
Proof.
  split; [vm_compute; discriminate|]. split; [vm_compute; reflexivity|]. apply gokb_sound. vm_compute. reflexivity.
Qed.

Example C07_within_grants_example :
  (* just before the last DATA frame: 17 bytes sent on the stream; granted 10 + 7 + 100 *)
  sent_strm 1 [LInit 10; LOpen 1; LData 1 10; LGrant 0 1000; LGrant 1 7; LData 1 7; LGrant 1 100] = 17%Z /\
  granted_strm 1 [LInit 10; LOpen 1; LData 1 10; LGrant 0 1000; LGrant 1 7; LData 1 7; LGrant 1 100] = 117%Z /\
  granted_conn [LInit 10; LOpen 1; LData 1 10; LGrant 0 1000; LGrant 1 7; LData 1 7; LGrant 1 100] = 66535%Z.
Proof. vm_compute. repeat split. Qed.

(* a 40000-byte body under the default MAX_FRAME_SIZE, and after the server has raised it to 32768 *)
Example C07_frame_size_example :
  map brief (cli_step_items ex_cfg [] [CEvSubmit 0 (ex_post (CBuf (repeat 7 (N.to_nat 40000)))) true] CEvWLIn)
    = [COHeaders 1 false []; COData 1 false [16384]; COData 1 false [16384]; COData 1 true [7232]] /\
  map brief (cli_step_items ex_cfg [] [CEvRL (RFrame ex_settings_frame); CEvSubmit 0 (ex_post (CBuf (repeat 7 (N.to_nat 40000)))) true] CEvWLIn)
    = [COHeaders 1 false []; COData 1 false [32768]; COData 1 true [7232]] /\
  cc_maxFrame (cli_run ex_cfg [] [CEvRL (RFrame ex_settings_frame)]) = 32768.
Proof. vm_compute. repeat split. Qed.

Example C07_data_run_example :
  map brief (cl_write_data 16384 1 (repeat 7 (N.to_nat 40000)) true) = [COData 1 false [16384]; COData 1 false [16384]; COData 1 true [7232]] /\
  cl_write_data 0 1 [] true = [COData 1 true []] /\ cl_write_data 16384 1 [] false = [].
Proof. vm_compute. repeat split. Qed.

Example C07_end_stream_once_example :
  map brief (cli_tr ex_cfg ex_first_w10 ex_upload) = [COHeaders 1 false []; COData 1 false [10]; COData 1 false [7]; COData 1 true [8]] /\
  exists pre o1 mid o2 post,
    cli_tr ex_cfg ex_first_w10 ex_upload = pre ++ o1 :: mid ++ o2 :: post /\
    frame_sid o1 = Some 1 /\ frame_sid o2 = Some 1 /\ is_es o1 = false /\ is_es o2 = true.
Proof.
  split; [vm_compute; reflexivity|].
  exists (firstn 1 (cli_tr ex_cfg ex_first_w10 ex_upload)), (nth 1 (cli_tr ex_cfg ex_first_w10 ex_upload) COPing),
         (firstn 1 (skipn 2 (cli_tr ex_cfg ex_first_w10 ex_upload))), (nth 3 (cli_tr ex_cfg ex_first_w10 ex_upload) COPing),
         (skipn 4 (cli_tr ex_cfg ex_first_w10 ex_upload)).
  vm_compute. repeat split.
Qed.

Example C07_data_after_headers_example :
  exists pre es p post blk, cli_tr ex_cfg ex_first_w10 ex_upload = pre ++ COData 1 es p :: post /\ In (COHeaders 1 false blk) pre.
Proof.
  exists (firstn 1 (cli_tr ex_cfg ex_first_w10 ex_upload)), false, (firstn 10 ex_body25), (skipn 2 (cli_tr ex_cfg ex_first_w10 ex_upload)).
  eexists. split; [vm_compute; reflexivity|]. vm_compute. left. reflexivity.
Qed.

(* observation (recorded, not a theorem of conformance): WINDOW_UPDATE increments whose sum with the window is above
   2^31-1 wrap the int32 negative: the client sends nothing more although the server has granted everything. The
   server has broken 6.9.1 first (the hypothesis GOK fails), and the client should answer with FLOW_CONTROL_ERROR
   rather than stall. SETTINGS lowered in the middle of an upload drive the window negative the intended way: the
   same amount granted back does not yet let anything out *)
Example C07_int32_wrap_observation :
  map brief (cli_tr ex_cfg ex_first_w10 ex_wrap) = [COHeaders 1 false []; COData 1 false [10]] /\
  map pb_window (cc_pending (cli_run ex_cfg ex_first_w10 ex_wrap)) = [(-2147483549)%Z] /\
  gokb (cli_ledger ex_cfg ex_first_w10 ex_wrap) = false.
Proof. vm_compute. repeat split. Qed.

Example C07_negative_window_example :
  let evs := [CEvSubmit 0 (ex_post (CBuf ex_body25)) true; CEvWLIn;
              CEvRL (ex_settings 4 3); CEvWLWin []; CEvWLOut;
              CEvRL (ex_winupd 1 7); CEvWLWin []] in
  map pb_window (cc_pending (cli_run ex_cfg ex_first_w10 evs)) = [0%Z] /\
  map brief (cli_tr ex_cfg ex_first_w10 evs) = [COHeaders 1 false []; COData 1 false [10]; COSettingsAck] /\
  GOK ledger0 (cli_ledger ex_cfg ex_first_w10 evs).
Proof. cbv zeta. split; [vm_compute; reflexivity|]. split; [vm_compute; reflexivity|]. apply gokb_sound. vm_compute. reflexivity. Qed.
