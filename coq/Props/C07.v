(* C07 - the client never sends DATA beyond the server's windows, and finishes.
   Only statements here; every proof is one lemma of Proofs/CliFlow*.v. All theorems are about the model of
   Impl/ClientConn.v (tied to conn.go by the lockstep suite "client"), for ALL event lists, generic in the HPACK coder.

   How a run is read as a history of the server's ledger (Spec/FlowLedger.v): `g_ledger` (Proofs/CliFlowSafe.v;
   `cli_ledger` is its instance with the real HPACK coder) lists the SETTINGS_INITIAL_WINDOW_SIZE values of the
   handshake SETTINGS, then, step by step, the grants of the frame the READ LOOP takes in in that step (WINDOW_UPDATE,
   SETTINGS_INITIAL_WINDOW_SIZE) followed by the streams the step opens (HEADERS) and the DATA payload bytes it writes.
   The read loop applies a grant itself, under sendLck (addWindow / applyInitialWindow), and queues the SETTINGS ACK only
   AFTER that (handleSettings; C18_client_settings_ack_step): the ACK is written by the write loop, the only writer of
   DATA, in a later select case, so every DATA frame behind the ACK on the wire was decided with the new value, and a
   frame decided with the old, higher value is on the wire before the ACK (RFC 7540 6.9.2 allows exactly that). For an
   increase the client may use the new value before the ACK is out; the server announced it, so it holds from the
   moment the server sent the frame.

   Atomicity. One select case of the write loop is one step: a sendLck critical section of sendPending subtracts
   n = min(len body, stream window, connection window) under the lock and the DATA run of exactly those n bytes is
   written right after it by the same goroutine (flushData), before the write loop can write anything else. In Go the
   read loop can run between the two: a SETTINGS frame that lowers INITIAL_WINDOW_SIZE then applies its delta to the
   window that has already been debited (the ledger's LData stands for the critical section), and one that changes
   MAX_FRAME_SIZE is read by writeData when it cuts the frames: the value in force when a frame is written binds, which
   is at most as old as the one the model uses (the step's start).

   Hypothesis of the safety theorems, `GOK ledger0 h`: after every prefix of the history no window of the ledger is
   above 2^31-1, i.e. the server keeps its own side of 6.9.1. Without it the int32 sums of addWindow wrap
   (C07_int32_wrap_observation): the client then sends LESS than it may, never more, but the ledger form as stated
   needs the hypothesis. *)
From Coq Require Import List NArith ZArith Bool.
From H2V Require Import Base.Bytes Base.MachineInt Base.Result Gen.GenConsts Impl.Hpack Impl.ServerConn Impl.ServerInst
  Impl.ClientConn Impl.ClientInst Proofs.CliDefs Spec.FlowLedger Proofs.SrvFlowLedger
  Proofs.CliFlowMoves Proofs.CliFlowOut Proofs.CliFlowSettings Proofs.CliFlowSafe Proofs.CliFlowEs Proofs.CliFlowStall Proofs.CliFlowExamples.
Import ListNotations.
Local Open Scope N_scope.

(* (a) safety, window form: every DATA frame fits the connection window and its stream's window of the server's
   ledger at the moment it is written (an empty DATA frame is always allowed), on a stream the client has opened *)
Theorem C07_ledger_valid : forall (hstate : Type) (dec_field : hstate -> N -> bytes -> dec_res hstate)
    (enc_field : hstate -> bytes -> bytes -> bool -> bytes * hstate) (enc_set_max : hstate -> N -> hstate)
    (cfg : cl_config) (h0 : hstate) (first : bytes) (evs : list cevent),
  cl_settings_deserialize false first <> None ->
  GOK ledger0 (g_ledger hstate dec_field enc_field enc_set_max cfg h0 first evs) ->
  lvalid ledger0 (g_ledger hstate dec_field enc_field enc_set_max cfg h0 first evs).
Proof. exact ledger_safe. Qed.
Print Assumptions C07_ledger_valid.

(* (a) safety, totals form (the property's text): whenever DATA is written, the payload bytes sent so far on the
   connection and on that stream, this frame included, are within what has been granted *)
Theorem C07_within_grants : forall (hstate : Type) (dec_field : hstate -> N -> bytes -> dec_res hstate)
    (enc_field : hstate -> bytes -> bytes -> bool -> bytes * hstate) (enc_set_max : hstate -> N -> hstate)
    (cfg : cl_config) (h0 : hstate) (first : bytes) (evs : list cevent),
  cl_settings_deserialize false first <> None ->
  GOK ledger0 (g_ledger hstate dec_field enc_field enc_set_max cfg h0 first evs) ->
  within_grants (g_ledger hstate dec_field enc_field enc_set_max cfg h0 first evs).
Proof. exact ledger_within_grants. Qed.
Print Assumptions C07_within_grants.

(* (a) no DATA frame is larger than the SETTINGS_MAX_FRAME_SIZE in force when the step that writes it starts
   (cc_maxFrame: 16384 until the server says otherwise, then the last value merged, always within 2^14 .. 2^24-1 so
   that writeData's fallback to the default never applies), and DATA is written only on a stream whose body is pending
   when the step starts or that the step itself opens: nothing after finish / cancel / reset has dropped the body *)
Theorem C07_frame_size : forall (hstate : Type) (dec_field : hstate -> N -> bytes -> dec_res hstate)
    (enc_field : hstate -> bytes -> bytes -> bool -> bytes * hstate) (enc_set_max : hstate -> N -> hstate)
    (cfg : cl_config) (h0 : hstate) (first : bytes) (evs : list cevent) (e : cevent) (sid : N) (es : bool) (p : bytes),
  cl_settings_deserialize false first <> None ->
  In (COData sid es p) (g_new hstate (cl_run dec_field enc_field enc_set_max cfg h0 first evs)
                              (cl_step dec_field enc_field enc_set_max cfg (cl_run dec_field enc_field enc_set_max cfg h0 first evs) e)) ->
  len p <= cc_maxFrame (cl_run dec_field enc_field enc_set_max cfg h0 first evs) /\
  16384 <= cc_maxFrame (cl_run dec_field enc_field enc_set_max cfg h0 first evs) <= 16777215 /\
  (In sid (map pb_id (cc_pending (cl_run dec_field enc_field enc_set_max cfg h0 first evs))) \/
   cc_nextID (cl_run dec_field enc_field enc_set_max cfg h0 first evs) <= sid).
Proof. exact data_frames_small. Qed.
Print Assumptions C07_frame_size.

(* (a) one call of writeData: the frames carry exactly the bytes it was given, in order, each at most the step
   (maxFrameSize, or 16384 if that is 0 or above 2^24-1), END_STREAM on the last frame and only there; an empty body
   gives one empty frame when it ends the stream and nothing otherwise *)
Theorem C07_data_run : forall (mf sid : N) (body : bytes) (endb : bool),
  exists l : list (bool * bytes),
    cl_write_data mf sid body endb = frames_of sid l /\ concat (map snd l) = body /\
    Forall (fun x => len (snd x) <= wd_step mf) l /\ es_shape l endb /\ (l = [] <-> body = [] /\ endb = false).
Proof. exact write_data_shape. Qed.
Print Assumptions C07_data_run.

(* (b) END_STREAM exactly once: of two frames (HEADERS or DATA) the client writes on one stream, the earlier one has no
   END_STREAM; so a stream gets at most one END_STREAM and no HEADERS or DATA after it (RST_STREAM from a cancel is
   not such a frame) *)
Theorem C07_end_stream_once : forall (hstate : Type) (dec_field : hstate -> N -> bytes -> dec_res hstate)
    (enc_field : hstate -> bytes -> bytes -> bool -> bytes * hstate) (enc_set_max : hstate -> N -> hstate)
    (cfg : cl_config) (h0 : hstate) (first : bytes) (evs : list cevent) pre o1 mid o2 post sid,
  cl_trace (cl_run dec_field enc_field enc_set_max cfg h0 first evs) = pre ++ o1 :: mid ++ o2 :: post ->
  frame_sid o1 = Some sid -> frame_sid o2 = Some sid -> is_es o1 = false.
Proof. exact end_stream_once. Qed.
Print Assumptions C07_end_stream_once.

(* (b) every DATA frame comes after a HEADERS frame without END_STREAM on its stream *)
Theorem C07_data_after_headers : forall (hstate : Type) (dec_field : hstate -> N -> bytes -> dec_res hstate)
    (enc_field : hstate -> bytes -> bytes -> bool -> bytes * hstate) (enc_set_max : hstate -> N -> hstate)
    (cfg : cl_config) (h0 : hstate) (first : bytes) (evs : list cevent) pre sid es p post,
  cl_trace (cl_run dec_field enc_field enc_set_max cfg h0 first evs) = pre ++ COData sid es p :: post ->
  exists blk, In (COHeaders sid false blk) pre.
Proof. exact data_after_headers. Qed.
Print Assumptions C07_data_after_headers.

(* (c) no stall: after any events, while the write loop runs and no winCh token is waiting for it, every body still
   pending has bytes buffered and is blocked by a window that is not positive. So whenever a pending body could go
   on, the token is set and the write loop will run flushPending (or the write loop has ended, with the connection) *)
Theorem C07_no_stall : forall (hstate : Type) (dec_field : hstate -> N -> bytes -> dec_res hstate)
    (enc_field : hstate -> bytes -> bytes -> bool -> bytes * hstate) (enc_set_max : hstate -> N -> hstate)
    (cfg : cl_config) (h0 : hstate) (first : bytes) (evs : list cevent) (pb : cpending),
  let c := cl_run dec_field enc_field enc_set_max cfg h0 first evs in
  cl_wl_live c = true -> cc_winCh c = false -> In pb (cc_pending c) ->
  pb_body pb <> [] /\ (cl_zmin (pb_window pb) (cc_connWindow c) <= 0)%Z.
Proof. exact no_stall. Qed.
Print Assumptions C07_no_stall.

(* (c) every step in which the read loop applies a grant (WINDOW_UPDATE, SETTINGS with INITIAL_WINDOW_SIZE) ends with
   the winCh token set (signalWindow) *)
Theorem C07_window_opening_signals : forall (hstate : Type) (dec_field : hstate -> N -> bytes -> dec_res hstate)
    (enc_field : hstate -> bytes -> bytes -> bool -> bytes * hstate) (enc_set_max : hstate -> N -> hstate)
    (cfg : cl_config) (c : cconn hstate) (e : cevent),
  g_ledger_in hstate c e <> [] -> cc_winCh (cl_step dec_field enc_field enc_set_max cfg c e) = true.
Proof. exact window_opening_signals. Qed.
Print Assumptions C07_window_opening_signals.

(* (c) sendPending, run to its end by the write loop (the fuel the model gives it is enough), leaves the body it was
   called for gone or blocked, touches no other body, never raises the connection window, leaves winCh alone *)
Theorem C07_send_pending_runs_dry : forall (hstate : Type) (dec_field : hstate -> N -> bytes -> dec_res hstate)
    (enc_field : hstate -> bytes -> bytes -> bool -> bytes * hstate) (enc_set_max : hstate -> N -> hstate)
    (cfg : cl_config) (h0 : hstate) (first : bytes) (evs : list cevent) (id : N),
  let c := cl_run dec_field enc_field enc_set_max cfg h0 first evs in
  let res := cl_send_pending (cl_send_fuel c id) c id in
  snd res = CSPOk ->
  (cl_pend_get (cc_pending (fst res)) id = None \/
   exists pb', cl_pend_get (cc_pending (fst res)) id = Some pb' /\ pb_body pb' <> [] /\
               (cl_zmin (pb_window pb') (cc_connWindow (fst res)) <= 0)%Z) /\
  (forall x, x <> id -> cl_pend_get (cc_pending (fst res)) x = cl_pend_get (cc_pending c) x) /\
  (cc_connWindow (fst res) <= cc_connWindow c)%Z /\ cc_winCh (fst res) = cc_winCh c.
Proof. exact send_pending_runs_dry. Qed.
Print Assumptions C07_send_pending_runs_dry.

(* (a), (d) one call of sendPending for a buffered body whose request is still the caller's to send: the critical
   section subtracts exactly q = min(bytes left, stream window, connection window) (0 if that is not positive) from
   both windows and the DATA run written right after it carries exactly the next q bytes of the body; if that was all
   of it END_STREAM is on the last frame and the body leaves c.pending, otherwise the rest stays, blocked *)
Theorem C07_send_pending_buffered : forall (hstate : Type) (c : cconn hstate) (id : N) (pb : cpending) (fuel : nat),
  RNG hstate c -> cl_pend_get (cc_pending c) id = Some pb -> pb_stream pb = None -> pb_body pb <> [] ->
  cl_acquire_for [] (cs_conn c pb id) (pb_tag pb) id = CLOk -> cl_can_write c = true ->
  let q := cs_n c pb in
  let done := (q =? Z.of_N (len (pb_body pb)))%Z in
  let res := cl_send_pending (S (S fuel)) c id in
  snd res = CSPOk /\
  cc_out (fst res) = rev (cl_write_data (cc_maxFrame c) id (takeN (Z.to_N q) (pb_body pb)) done) ++ cc_out c /\
  cc_connWindow (fst res) = (cc_connWindow c - q)%Z /\
  (if done then cl_pend_get (cc_pending (fst res)) id = None
   else exists pb', cl_pend_get (cc_pending (fst res)) id = Some pb' /\ pb_body pb' = dropN (Z.to_N q) (pb_body pb) /\
                    pb_window pb' = (pb_window pb - q)%Z /\ pb_stream pb' = None /\ blocked hstate (fst res) pb').
Proof. exact send_pending_buffered. Qed.
Print Assumptions C07_send_pending_buffered.

(* (d) completion, one grant at a time: WINDOW_UPDATE for a stream whose buffered body is waiting raises its window
   and sets the winCh token; the sendPending the write loop then runs sends the next
   q = min(bytes left, window + increment, connection window) bytes. By induction on the server's grants one buffered
   body is sent completely, with one END_STREAM, as soon as the grants cover it. (Several bodies sharing the connection
   window, and streamed bodies, follow from C07_no_stall and C07_send_pending_runs_dry; not spelled out as one theorem.) *)
Theorem C07_stream_grant_resumes : forall (hstate : Type) (c : cconn hstate) (id : N) (pb : cpending) (inc : Z) (fuel : nat),
  RNG hstate c -> cl_pend_get (cc_pending c) id = Some pb -> pb_stream pb = None -> pb_body pb <> [] -> id <> 0 ->
  (0 <= inc)%Z -> (pb_window pb + inc <= 2147483647)%Z ->
  let c1 := cl_add_window c id inc in
  let pb1 := pbu_window pb (pb_window pb + inc)%Z in
  cl_acquire_for [] (cs_conn c1 pb1 id) (pb_tag pb) id = CLOk -> cl_can_write c = true ->
  cc_winCh c1 = true /\ cl_pend_get (cc_pending c1) id = Some pb1 /\
  let q := cs_n c1 pb1 in
  let done := (q =? Z.of_N (len (pb_body pb)))%Z in
  let res := cl_send_pending (S (S fuel)) c1 id in
  snd res = CSPOk /\
  cc_out (fst res) = rev (cl_write_data (cc_maxFrame c) id (takeN (Z.to_N q) (pb_body pb)) done) ++ cc_out c /\
  cc_connWindow (fst res) = (cc_connWindow c - q)%Z /\
  (if done then cl_pend_get (cc_pending (fst res)) id = None
   else exists pb', cl_pend_get (cc_pending (fst res)) id = Some pb' /\ pb_body pb' = dropN (Z.to_N q) (pb_body pb) /\
                    pb_window pb' = (pb_window pb + inc - q)%Z /\ pb_stream pb' = None /\ blocked hstate (fst res) pb').
Proof. exact stream_grant_resumes. Qed.
Print Assumptions C07_stream_grant_resumes.

(* ---------- examples (the instance with the real HPACK model) ---------- *)

(* initial window 10, a 25-byte body: 10 + 7 + 8 bytes as the grants come in; the history satisfies the hypothesis *)
Example C07_ledger_valid_example :
  cl_settings_deserialize false ex_first_w10 <> None /\
  cli_ledger ex_cfg ex_first_w10 ex_upload =
    [LInit 10; LOpen 1; LData 1 10; LGrant 0 1000; LGrant 1 7; LData 1 7; LGrant 1 100; LData 1 8] /\
  GOK ledger0 (cli_ledger ex_cfg ex_first_w10 ex_upload).
Proof.
  split; [vm_compute; discriminate|]. split; [vm_compute; reflexivity|]. apply gokb_sound. vm_compute. reflexivity.
Qed.

Example C07_within_grants_example :
  (* just before the last DATA frame: 17 bytes sent on the stream; granted 10 + 7 + 100 *)
  sent_strm 1 [LInit 10; LOpen 1; LData 1 10; LGrant 0 1000; LGrant 1 7; LData 1 7; LGrant 1 100] = 17%Z /\
  granted_strm 1 [LInit 10; LOpen 1; LData 1 10; LGrant 0 1000; LGrant 1 7; LData 1 7; LGrant 1 100] = 117%Z /\
  granted_conn [LInit 10; LOpen 1; LData 1 10; LGrant 0 1000; LGrant 1 7; LData 1 7; LGrant 1 100] = 66535%Z.
Proof. vm_compute. repeat split. Qed.

(* a 40000-byte body under the default MAX_FRAME_SIZE, and after the server has raised it to 32768 *)
Example C07_frame_size_example :
  map brief (cli_step_items ex_cfg [] [CEvSubmit 0 (ex_post (CBuf (repeat 7 (N.to_nat 40000)))) true] CEvWLIn)
    = [COHeaders 1 false []; COData 1 false [16384]; COData 1 false [16384]; COData 1 true [7232]] /\
  map brief (cli_step_items ex_cfg [] [CEvRL (RFrame ex_settings_frame); CEvSubmit 0 (ex_post (CBuf (repeat 7 (N.to_nat 40000)))) true] CEvWLIn)
    = [COHeaders 1 false []; COData 1 false [32768]; COData 1 true [7232]] /\
  cc_maxFrame (cli_run ex_cfg [] [CEvRL (RFrame ex_settings_frame)]) = 32768.
Proof. vm_compute. repeat split. Qed.

Example C07_data_run_example :
  map brief (cl_write_data 16384 1 (repeat 7 (N.to_nat 40000)) true) = [COData 1 false [16384]; COData 1 false [16384]; COData 1 true [7232]] /\
  cl_write_data 0 1 [] true = [COData 1 true []] /\ cl_write_data 16384 1 [] false = [].
Proof. vm_compute. repeat split. Qed.

Example C07_end_stream_once_example :
  map brief (cli_tr ex_cfg ex_first_w10 ex_upload) = [COHeaders 1 false []; COData 1 false [10]; COData 1 false [7]; COData 1 true [8]] /\
  exists pre o1 mid o2 post,
    cli_tr ex_cfg ex_first_w10 ex_upload = pre ++ o1 :: mid ++ o2 :: post /\
    frame_sid o1 = Some 1 /\ frame_sid o2 = Some 1 /\ is_es o1 = false /\ is_es o2 = true.
Proof.
  split; [vm_compute; reflexivity|].
  exists (firstn 1 (cli_tr ex_cfg ex_first_w10 ex_upload)), (nth 1 (cli_tr ex_cfg ex_first_w10 ex_upload) COPing),
         (firstn 1 (skipn 2 (cli_tr ex_cfg ex_first_w10 ex_upload))), (nth 3 (cli_tr ex_cfg ex_first_w10 ex_upload) COPing),
         (skipn 4 (cli_tr ex_cfg ex_first_w10 ex_upload)).
  vm_compute. repeat split.
Qed.

Example C07_data_after_headers_example :
  exists pre es p post blk, cli_tr ex_cfg ex_first_w10 ex_upload = pre ++ COData 1 es p :: post /\ In (COHeaders 1 false blk) pre.
Proof.
  exists (firstn 1 (cli_tr ex_cfg ex_first_w10 ex_upload)), false, (firstn 10 ex_body25), (skipn 2 (cli_tr ex_cfg ex_first_w10 ex_upload)).
  eexists. split; [vm_compute; reflexivity|]. vm_compute. left. reflexivity.
Qed.

(* observation (recorded, not a theorem of conformance): WINDOW_UPDATE increments whose sum with the window is above
   2^31-1 wrap the int32 negative: the client sends nothing more although the server has granted everything. The
   server has broken 6.9.1 first (the hypothesis GOK fails), and the client should answer with FLOW_CONTROL_ERROR
   rather than stall. SETTINGS lowered in the middle of an upload drive the window negative the intended way: the
   same amount granted back does not yet let anything out *)
Example C07_int32_wrap_observation :
  map brief (cli_tr ex_cfg ex_first_w10 ex_wrap) = [COHeaders 1 false []; COData 1 false [10]] /\
  map pb_window (cc_pending (cli_run ex_cfg ex_first_w10 ex_wrap)) = [(-2147483549)%Z] /\
  gokb (cli_ledger ex_cfg ex_first_w10 ex_wrap) = false.
Proof. vm_compute. repeat split. Qed.

Example C07_negative_window_example :
  let evs := [CEvSubmit 0 (ex_post (CBuf ex_body25)) true; CEvWLIn;
              CEvRL (ex_settings 4 3); CEvWLWin []; CEvWLOut;
              CEvRL (ex_winupd 1 7); CEvWLWin []] in
  map pb_window (cc_pending (cli_run ex_cfg ex_first_w10 evs)) = [0%Z] /\
  map brief (cli_tr ex_cfg ex_first_w10 evs) = [COHeaders 1 false []; COData 1 false [10]; COSettingsAck] /\
  GOK ledger0 (cli_ledger ex_cfg ex_first_w10 evs).
Proof. cbv zeta. split; [vm_compute; reflexivity|]. split; [vm_compute; reflexivity|]. apply gokb_sound. vm_compute. reflexivity. Qed.

(* the upload after its first 10 bytes: the write loop runs, no token, the body is blocked by its stream window *)
Example C07_no_stall_example :
  let c := cli_run ex_cfg ex_first_w10 (firstn 2 ex_upload) in
  cl_wl_live c = true /\ cc_winCh c = false /\
  map (fun pb => (len (pb_body pb), pb_window pb)) (cc_pending c) = [(15, 0%Z)] /\ cc_connWindow c = 65525%Z.
Proof. vm_compute. repeat split. Qed.

Example C07_window_opening_signals_example :
  let c := cli_run ex_cfg ex_first_w10 (firstn 4 ex_upload) in
  g_ledger_in hpack_state c (CEvRL (ex_winupd 1 7)) = [LGrant 1 7] /\
  cc_winCh c = false /\ cc_winCh (cli_step ex_cfg c (CEvRL (ex_winupd 1 7))) = true.
Proof. vm_compute. repeat split. Qed.

Example C07_send_pending_runs_dry_example :
  let c := cli_run ex_cfg ex_first_w10 (firstn 5 ex_upload) in
  let res := cl_send_pending (cl_send_fuel c 1) c 1 in
  snd res = CSPOk /\ map (fun pb => (len (pb_body pb), pb_window pb)) (cc_pending (fst res)) = [(8, 0%Z)].
Proof. vm_compute. repeat split. Qed.

(* 15 bytes left, stream window 0 + 7 granted: 7 bytes go out, 8 stay *)
Example C07_send_pending_buffered_example :
  let c := cli_run ex_cfg ex_first_w10 (firstn 5 ex_upload) in
  exists pb, cl_pend_get (cc_pending c) 1 = Some pb /\ pb_stream pb = None /\ len (pb_body pb) = 15 /\ pb_window pb = 7%Z /\
             cl_acquire_for [] (cs_conn c pb 1) (pb_tag pb) 1 = CLOk /\ cl_can_write c = true /\ cs_n c pb = 7%Z /\
             map brief (cc_out (fst (cl_send_pending 2 c 1))) = COData 1 false [7] :: map brief (cc_out c).
Proof. cbv zeta. eexists. split; [vm_compute; reflexivity|]. vm_compute. repeat split. Qed.

(* the last grant: WINDOW_UPDATE(1, 100) on the state with 8 bytes left lets them out with END_STREAM *)
Example C07_stream_grant_resumes_example :
  let c := cli_run ex_cfg ex_first_w10 (firstn 6 ex_upload) in
  exists pb, cl_pend_get (cc_pending c) 1 = Some pb /\ pb_stream pb = None /\ len (pb_body pb) = 8 /\ pb_window pb = 0%Z /\
             let c1 := cl_add_window c 1 100 in
             cc_winCh c1 = true /\
             map brief (cc_out (fst (cl_send_pending 2 c1 1))) = COData 1 true [8] :: map brief (cc_out c) /\
             cc_pending (fst (cl_send_pending 2 c1 1)) = [].
Proof. cbv zeta. eexists. split; [vm_compute; reflexivity|]. vm_compute. repeat split. Qed.
