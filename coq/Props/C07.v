(* C07 - the client never sends DATA beyond the server's windows, and finishes.
   Only statements here; every proof is one lemma of Proofs/CliFlow*.v. All theorems are about the model of
   Impl/ClientConn.v (tied to conn.go by the lockstep suite "client"), for ALL event lists, generic in the HPACK coder.

   How a run is read as a history of the server's ledger (Spec/FlowLedger.v): `g_ledger` (Proofs/CliFlowSafe.v;
   `cli_ledger` is its instance with the real HPACK coder) lists the SETTINGS_INITIAL_WINDOW_SIZE values of the
   handshake SETTINGS, then, step by step, the grants of the frame the READ LOOP takes in in that step (WINDOW_UPDATE,
   SETTINGS_INITIAL_WINDOW_SIZE) followed by the streams the step opens (HEADERS) and the DATA payload bytes it writes.
   The read loop applies a grant itself, under sendLck (addWindow / applyInitialWindow), and queues the SETTINGS ACK only
   AFTER that (handleSettings; C18_client_settings_ack_step): the ACK is written by the write loop, the only writer of
   DATA, in a later select case, so every DATA frame behind the ACK on the wire was decided with the new value, and a
   frame decided with the old, higher value is on the wire before the ACK (RFC 7540 6.9.2 allows exactly that). For an
   increase the client may use the new value before the ACK is out; the server announced it, so it holds from the
   moment the server sent the frame.

   Atomicity. One select case of the write loop is one step: a sendLck critical section of sendPending subtracts
   n = min(len body, stream window, connection window) under the lock and the DATA run of exactly those n bytes is
   written right after it by the same goroutine (flushData), before the write loop can write anything else. In Go the
   read loop can run between the two: a SETTINGS frame that lowers INITIAL_WINDOW_SIZE then applies its delta to the
   window that has already been debited (the ledger's LData stands for the critical section), and one that changes
   MAX_FRAME_SIZE is read by writeData when it cuts the frames: the value in force when a frame is written binds, which
   is at most as old as the one the model uses (the step's start).

   Hypothesis of the safety theorems, `GOK ledger0 h`: after every prefix of the history no window of the ledger is
   above 2^31-1, i.e. the server keeps its own side of 6.9.1. Without it the int32 sums of addWindow wrap
   (C07_int32_wrap_observation): the client then sends LESS than it may, never more, but the ledger form as stated
   needs the hypothesis. *)
From Coq Require Import List NArith ZArith Bool.
From H2V Require Import Base.Bytes Base.MachineInt Base.Result Gen.GenConsts Impl.Hpack Impl.ServerConn Impl.ServerInst
  Impl.ClientConn Impl.ClientInst Proofs.CliDefs Spec.FlowLedger Proofs.SrvFlowLedger
  Proofs.CliFlowMoves Proofs.CliFlowOut Proofs.CliFlowSettings Proofs.CliFlowSafe Proofs.CliFlowEs Proofs.CliFlowStall Proofs.CliFlowExamples.
Import ListNotations.
Local Open Scope N_scope.

(* (a) safety, window form: every DATA frame fits the connection window and its stream's window of the server's
   ledger at the moment it is written (an empty DATA frame is always allowed), on a stream the client has opened *)
Theorem C07_ledger_valid : forall (hstate : Type) (dec_field : hstate -> N -> bytes -> dec_res hstate)
    (enc_field : hstate -> bytes -> bytes -> bool -> bytes * hstate) (enc_set_max : hstate -> N -> hstate)
    (cfg : cl_config) (h0 : hstate) (first : bytes) (evs : list cevent),
  cl_settings_deserialize false first <> None ->
  GOK ledger0 (g_ledger hstate dec_field enc_field enc_set_max cfg h0 first evs) ->
  lvalid ledger0 (g_ledger hstate dec_field enc_field enc_set_max cfg h0 first evs).
Proof. exact ledger_safe. Qed.
Print Assumptions C07_ledger_valid.

(* (a) safety, totals form (the property's text): whenever DATA is written, the payload bytes sent so far on the
   connection and on that stream, this frame included, are within what has been granted *)
Theorem C07_within_grants : forall (hstate : Type) (dec_field : hstate -> N -> bytes -> dec_res hstate)
    (enc_field : hstate -> bytes -> bytes -> bool -> bytes * hstate) (enc_set_max : hstate -> N -> hstate)
    (cfg : cl_config) (h0 : hstate) (first : bytes) (evs : list cevent),
  cl_settings_deserialize false first <> None ->
  GOK ledger0 (g_ledger hstate dec_field enc_field enc_set_max cfg h0 first evs) ->
  within_grants (g_ledger hstate dec_field enc_field enc_set_max cfg h0 first evs).
Proof. exact ledger_within_grants. Qed.
Print Assumptions C07_within_grants.

(* (a) no DATA frame is larger than the SETTINGS_MAX_FRAME_SIZE in force when the step that writes it starts
   (cc_maxFrame: 16384 until the server says otherwise, then the last value merged, always within 2^14 .. 2^24-1 so
   that writeData's fallback to the default never applies), and DATA is written only on a stream whose body is pending
   when the step starts or that the step itself opens: nothing after finish / cancel / reset has dropped the body *)
Theorem C07_frame_size : forall (hstate : Type) (dec_field : hstate -> N -> bytes -> dec_res hstate)
    (enc_field : hstate -> bytes -> bytes -> bool -> bytes * hstate) (enc_set_max : hstate -> N -> hstate)
    (cfg : cl_config) (h0 : hstate) (first : bytes) (evs : list cevent) (e : cevent) (sid : N) (es : bool) (p : bytes),
  cl_settings_deserialize false first <> None ->
  In (COData sid es p) (g_new hstate (cl_run dec_field enc_field enc_set_max cfg h0 first evs)
                              (cl_step dec_field enc_field enc_set_max cfg (cl_run dec_field enc_field enc_set_max cfg h0 first evs) e)) ->
  len p <= cc_maxFrame (cl_run dec_field enc_field enc_set_max cfg h0 first evs) /\
  16384 <= cc_maxFrame (cl_run dec_field enc_field enc_set_max cfg h0 first evs) <= 16777215 /\
  (In sid (map pb_id (cc_pending (cl_run dec_field enc_field enc_set_max cfg h0 first evs))) \/
   cc_nextID (cl_run dec_field enc_field enc_set_max cfg h0 first evs) <= sid).
Proof. exact data_frames_small. Qed.
Print Assumptions C07_frame_size.

(* (a) one call of writeData: the frames carry exactly the bytes it was given, in order, each at most the step
   (maxFrameSize, or 16384 if that is 0 or above 2^24-1), END_STREAM on the last frame and only there; an empty body
   gives one empty frame when it ends the stream and nothing otherwise *)
Theorem C07_data_run : forall (mf sid : N) (body : bytes) (endb : bool),
  exists l : list (bool * bytes),
    cl_write_data mf sid body endb = frames_of sid l /\ concat (map snd l) = body /\
    Forall (fun x => len (snd x) <= wd_step mf) l /\ es_shape l endb /\ (l = [] <-> body = [] /\ endb = false).
Proof. exact write_data_shape. Qed.
Print Assumptions C07_data_run.

(* (b) END_STREAM exactly once: of two frames (HEADERS or DATA) the client writes on one stream, the earlier one has no
   END_STREAM; so a stream gets at most one END_STREAM and no HEADERS or DATA after it (RST_STREAM from a cancel is
   not such a frame) *)
Theorem C07_end_stream_once : forall (hstate : Type) (dec_field : hstate -> N -> bytes -> dec_res hstate)
    (enc_field : hstate -> bytes -> bytes -> bool -> bytes * hstate) (enc_set_max : hstate -> N -> hstate)
    (cfg : cl_config) (h0 : hstate) (first : bytes) (evs : list cevent) pre o1 mid o2 post sid,
  cl_trace (cl_run dec_field enc_field enc_set_max cfg h0 first evs) = pre ++ o1 :: mid ++ o2 :: post ->
  frame_sid o1 = Some sid -> frame_sid o2 = Some sid -> is_es o1 = false.
Proof. exact end_stream_once. Qed.
Print Assumptions C07_end_stream_once.

(* (b) every DATA frame comes after a HEADERS frame without END_STREAM on its stream *)
Theorem C07_data_after_headers : forall (hstate : Type) (dec_field : hstate -> N -> bytes -> dec_res hstate)
    (enc_field : hstate -> bytes -> bytes -> bool -> bytes * hstate) (enc_set_max : hstate -> N -> hstate)
    (cfg : cl_config) (h0 : hstate) (first : bytes) (evs : list cevent) pre sid es p post,
  cl_trace (cl_run dec_field enc_field enc_set_max cfg h0 first evs) = pre ++ COData sid es p :: post ->
  exists blk, In (COHeaders sid false blk) pre.
Proof. exact data_after_headers. Qed.
Print Assumptions C07_data_after_headers.

(* (c) no stall: after any events, while the write loop runs and no winCh token is waiting for it, every body still
   pending has bytes buffered and is blocked by a window that is not positive. So whenever a pending body could go
   on, the token is set and the write loop will run flushPending (or the write loop has ended, with the connection) *)
Theorem C07_no_stall : forall (hstate : Type) (dec_field : hstate -> N -> bytes -> dec_res hstate)
    (enc_field : hstate -> bytes -> bytes -> bool -> bytes * hstate) (enc_set_max : hstate -> N -> hstate)
    (cfg : cl_config) (h0 : hstate) (first : bytes) (evs : list cevent) (pb : cpending),
  let c := cl_run dec_field enc_field enc_set_max cfg h0 first evs in
  cl_wl_live c = true -> cc_winCh c = false -> In pb (cc_pending c) ->
  pb_body pb <> [] /\ (cl_zmin (pb_window pb) (cc_connWindow c) <= 0)%Z.
Proof. exact no_stall. Qed.
Print Assumptions C07_no_stall.

(* (c) every step in which the read loop applies a grant (WINDOW_UPDATE, SETTINGS with INITIAL_WINDOW_SIZE) ends with
   the winCh token set (signalWindow) *)
Theorem C07_window_opening_signals : forall (hstate : Type) (dec_field : hstate -> N -> bytes -> dec_res hstate)
    (enc_field : hstate -> bytes -> bytes -> bool -> bytes * hstate) (enc_set_max : hstate -> N -> hstate)
    (cfg : cl_config) (c : cconn hstate) (e : cevent),
  g_ledger_in hstate c e <> [] -> cc_winCh (cl_step dec_field enc_field enc_set_max cfg c e) = true.
Proof. exact window_opening_signals. Qed.
Print Assumptions C07_window_opening_signals.

(* (c) sendPending, run to its end by the write loop (the fuel the model gives it is enough), leaves the body it was
   called for gone or blocked, touches no other body, never raises the connection window, never takes the winCh token
   away. (Until /repo 35b3178 it left winCh alone; it now sets the token when it hands the chunk of a request that was
   taken back to the connection window again, addWindow(0, n): the last clause was an equation before) *)
Theorem C07_send_pending_runs_dry : forall (hstate : Type) (dec_field : hstate -> N -> bytes -> dec_res hstate)
    (enc_field : hstate -> bytes -> bytes -> bool -> bytes * hstate) (enc_set_max : hstate -> N -> hstate)
    (cfg : cl_config) (h0 : hstate) (first : bytes) (evs : list cevent) (id : N),
  let c := cl_run dec_field enc_field enc_set_max cfg h0 first evs in
  let res := cl_send_pending (cl_send_fuel c id) c id in
  snd res = CSPOk ->
  (cl_pend_get (cc_pending (fst res)) id = None \/
   exists pb', cl_pend_get (cc_pending (fst res)) id = Some pb' /\ pb_body pb' <> [] /\
               (cl_zmin (pb_window pb') (cc_connWindow (fst res)) <= 0)%Z) /\
  (forall x, x <> id -> cl_pend_get (cc_pending (fst res)) x = cl_pend_get (cc_pending c) x) /\
  (cc_connWindow (fst res) <= cc_connWindow c)%Z /\ (cc_winCh c = true -> cc_winCh (fst res) = true).
Proof. exact send_pending_runs_dry. Qed.
Print Assumptions C07_send_pending_runs_dry.

(* (a), (d) one call of sendPending for a buffered body whose request is still the caller's to send: the critical
   section subtracts exactly q = min(bytes left, stream window, connection window) (0 if that is not positive) from
   both windows and the DATA run written right after it carries exactly the next q bytes of the body; if that was all
   of it END_STREAM is on the last frame and the body leaves c.pending, otherwise the rest stays, blocked *)
Theorem C07_send_pending_buffered : forall (hstate : Type) (c : cconn hstate) (id : N) (pb : cpending) (fuel : nat),
  RNG hstate c -> cl_pend_get (cc_pending c) id = Some pb -> pb_stream pb = None -> pb_body pb <> [] ->
  cl_acquire_for [] (cs_conn c pb id) (pb_tag pb) id = CLOk -> cl_can_write c = true ->
  let q := cs_n c pb in
  let done := (q =? Z.of_N (len (pb_body pb)))%Z in
  let res := cl_send_pending (S (S fuel)) c id in
  snd res = CSPOk /\
  cc_out (fst res) = rev (cl_write_data (cc_maxFrame c) id (takeN (Z.to_N q) (pb_body pb)) done) ++ cc_out c /\
  cc_connWindow (fst res) = (cc_connWindow c - q)%Z /\
  (if done then cl_pend_get (cc_pending (fst res)) id = None
   else exists pb', cl_pend_get (cc_pending (fst res)) id = Some pb' /\ pb_body pb' = dropN (Z.to_N q) (pb_body pb) /\
                    pb_window pb' = (pb_window pb - q)%Z /\ pb_stream pb' = None /\ blocked hstate (fst res) pb').
Proof. exact send_pending_buffered. Qed.
Print Assumptions C07_send_pending_buffered.

(* (d) completion, one grant at a time: WINDOW_UPDATE for a stream whose buffered body is waiting raises its window
   and sets the winCh token; the sendPending the write loop then runs sends the next
   q = min(bytes left, window + increment, connection window) bytes. By induction on the server's grants one buffered
   body is sent completely, with one END_STREAM, as soon as the grants cover it. (Several bodies sharing the connection
   window, and streamed bodies, follow from C07_no_stall and C07_send_pending_runs_dry; not spelled out as one theorem.) *)
Theorem C07_stream_grant_resumes : forall (hstate : Type) (c : cconn hstate) (id : N) (pb : cpending) (inc : Z) (fuel : nat),
  RNG hstate c -> cl_pend_get (cc_pending c) id = Some pb -> pb_stream pb = None -> pb_body pb <> [] -> id <> 0 ->
  (0 <= inc)%Z -> (pb_window pb + inc <= 2147483647)%Z ->
  let c1 := cl_add_window c id inc in
  let pb1 := pbu_window pb (pb_window pb + inc)%Z in
  cl_acquire_for [] (cs_conn c1 pb1 id) (pb_tag pb) id = CLOk -> cl_can_write c = true ->
  cc_winCh c1 = true /\ cl_pend_get (cc_pending c1) id = Some pb1 /\
  let q := cs_n c1 pb1 in
  let done := (q =? Z.of_N (len (pb_body pb)))%Z in
  let res := cl_send_pending (S (S fuel)) c1 id in
  snd res = CSPOk /\
  cc_out (fst res) = rev (cl_write_data (cc_maxFrame c) id (takeN (Z.to_N q) (pb_body pb)) done) ++ cc_out c /\
  cc_connWindow (fst res) = (cc_connWindow c - q)%Z /\
  (if done then cl_pend_get (cc_pending (fst res)) id = None
   else exists pb', cl_pend_get (cc_pending (fst res)) id = Some pb' /\ pb_body pb' = dropN (Z.to_N q) (pb_body pb) /\
                    pb_window pb' = (pb_window pb + inc - q)%Z /\ pb_stream pb' = None /\ blocked hstate (fst res) pb').
Proof. exact stream_grant_resumes. Qed.
Print Assumptions C07_stream_grant_resumes.

(* ---------- examples (the instance with the real HPACK model) ---------- *)

(* initial window 10, a 25-byte body: 10 + 7 + 8 bytes as the grants come in; the history satisfies the hypothesis *)
Example C07_ledger_valid_example :
  cl_settings_deserialize false ex_first_w10 <> None /\
  cli_ledger ex_cfg ex_first_w10 ex_upload =
    [LInit 10; LOpen 1; LData 1 10; LGrant 0 1000; LGrant 1 7; LData 1 7; LGrant 1 100; LData 1 8] /\
  GOK ledger0 (cli_ledger ex_cfg ex_first_w10 ex_upload).
Proof.
  split; [vm_compute; discriminate|]. split; [vm_compute; reflexivity|]. apply gokb_sound. vm_compute. reflexivity.
Qed.

Example C07_within_grants_example :
  (* just before the last DATA frame: 17 bytes sent on the stream; granted 10 + 7 + 100 *)
  sent_strm 1 [LInit 10; LOpen 1; LData 1 10; LGrant 0 1000; LGrant 1 7; LData 1 7; LGrant 1 100] = 17%Z /\
  granted_strm 1 [LInit 10; LOpen 1; LData 1 10; LGrant 0 1000; LGrant 1 7; LData 1 7; LGrant 1 100] = 117%Z /\
  granted_conn [LInit 10; LOpen 1; LData 1 10; LGrant 0 1000; LGrant 1 7; LData 1 7; LGrant 1 100] = 66535%Z.
Proof. vm_compute. repeat split. Qed.

(* a 40000-byte body under the default MAX_FRAME_SIZE, and after the server has raised it to 32768 *)
Example C07_frame_size_example :
  map brief (cli_step_items ex_cfg [] [CEvSubmit 0 (ex_post (CBuf (repeat 7 (N.to_nat 40000)))) true] CEvWLIn)
    = [COHeaders 1 false []; COData 1 false [16384]; COData 1 false [16384]; COData 1 true [7232]] /\
  map brief (cli_step_items ex_cfg [] [CEvRL (RFrame ex_settings_frame); CEvSubmit 0 (ex_post (CBuf (repeat 7 (N.to_nat 40000)))) true] CEvWLIn)
    = [COHeaders 1 false []; COData 1 false [32768]; COData 1 true [7232]] /\
  cc_maxFrame (cli_run ex_cfg [] [CEvRL (RFrame ex_settings_frame)]) = 32768.
Proof. vm_compute. repeat split. Qed.

Example C07_data_run_example :
  map brief (cl_write_data 16384 1 (repeat 7 (N.to_nat 40000)) true) = [COData 1 false [16384]; COData 1 false [16384]; COData 1 true [7232]] /\
  cl_write_data 0 1 [] true = [COData 1 true []] /\ cl_write_data 16384 1 [] false = [].
Proof. vm_compute. repeat split. Qed.

Example C07_end_stream_once_example :
  map brief (cli_tr ex_cfg ex_first_w10 ex_upload) = [COHeaders 1 false []; COData 1 false [10]; COData 1 false [7]; COData 1 true [8]] /\
  exists pre o1 mid o2 post,
    cli_tr ex_cfg ex_first_w10 ex_upload = pre ++ o1 :: mid ++ o2 :: post /\
    frame_sid o1 = Some 1 /\ frame_sid o2 = Some 1 /\ is_es o1 = false /\ is_es o2 = true.
Proof.
  split; [vm_compute; reflexivity|].
  exists (firstn 1 (cli_tr ex_cfg ex_first_w10 ex_upload)), (nth 1 (cli_tr ex_cfg ex_first_w10 ex_upload) COPing),
         (firstn 1 (skipn 2 (cli_tr ex_cfg ex_first_w10 ex_upload))), (nth 3 (cli_tr ex_cfg ex_first_w10 ex_upload) COPing),
         (skipn 4 (cli_tr ex_cfg ex_first_w10 ex_upload)).
  vm_compute. repeat split.
Qed.

Example C07_data_after_headers_example :
  exists pre es p post blk, cli_tr ex_cfg ex_first_w10 ex_upload = pre ++ COData 1 es p :: post /\ In (COHeaders 1 false blk) pre.
Proof.
  exists (firstn 1 (cli_tr ex_cfg ex_first_w10 ex_upload)), false, (firstn 10 ex_body25), (skipn 2 (cli_tr ex_cfg ex_first_w10 ex_upload)).
  eexists. split; [vm_compute; reflexivity|]. vm_compute. left. reflexivity.
Qed.

(* observation (recorded, not a theorem of conformance): WINDOW_UPDATE increments whose sum with the window is above
   2^31-1 wrap the int32 negative: the client sends nothing more although the server has granted everything. The
   server has broken 6.9.1 first (the hypothesis GOK fails), and the client should answer with FLOW_CONTROL_ERROR
   rather than stall. SETTINGS lowered in the middle of an upload drive the window negative the intended way: the
   same amount granted back does not yet let anything out *)
Example C07_int32_wrap_observation :
  map brief (cli_tr ex_cfg ex_first_w10 ex_wrap) = [COHeaders 1 false []; COData 1 false [10]] /\
  map pb_window (cc_pending (cli_run ex_cfg ex_first_w10 ex_wrap)) = [(-2147483549)%Z] /\
  gokb (cli_ledger ex_cfg ex_first_w10 ex_wrap) = false.
Proof. vm_compute. repeat split. Qed.

Example C07_negative_window_example :
  let evs := [CEvSubmit 0 (ex_post (CBuf ex_body25)) true; CEvWLIn;
              CEvRL (ex_settings 4 3); CEvWLWin []; CEvWLOut;
              CEvRL (ex_winupd 1 7); CEvWLWin []] in
  map pb_window (cc_pending (cli_run ex_cfg ex_first_w10 evs)) = [0%Z] /\
  map brief (cli_tr ex_cfg ex_first_w10 evs) = [COHeaders 1 false []; COData 1 false [10]; COSettingsAck] /\
  GOK ledger0 (cli_ledger ex_cfg ex_first_w10 evs).
Proof. cbv zeta. split; [vm_compute; reflexivity|]. split; [vm_compute; reflexivity|]. apply gokb_sound. vm_compute. reflexivity. Qed.

(* the upload after its first 10 bytes: the write loop runs, no token, the body is blocked by its stream window *)
Example C07_no_stall_example :
  let c := cli_run ex_cfg ex_first_w10 (firstn 2 ex_upload) in
  cl_wl_live c = true /\ cc_winCh c = false /\
  map (fun pb => (len (pb_body pb), pb_window pb)) (cc_pending c) = [(15, 0%Z)] /\ cc_connWindow c = 65525%Z.
Proof. vm_compute. repeat split. Qed.

Example C07_window_opening_signals_example :
  let c := cli_run ex_cfg ex_first_w10 (firstn 4 ex_upload) in
  g_ledger_in hpack_state c (CEvRL (ex_winupd 1 7)) = [LGrant 1 7] /\
  cc_winCh c = false /\ cc_winCh (cli_step ex_cfg c (CEvRL (ex_winupd 1 7))) = true.
Proof. vm_compute. repeat split. Qed.

Example C07_send_pending_runs_dry_example :
  let c := cli_run ex_cfg ex_first_w10 (firstn 5 ex_upload) in
  let res := cl_send_pending (cl_send_fuel c 1) c 1 in
  snd res = CSPOk /\ map (fun pb => (len (pb_body pb), pb_window pb)) (cc_pending (fst res)) = [(8, 0%Z)].
Proof. vm_compute. repeat split. Qed.

(* 15 bytes left, stream window 0 + 7 granted: 7 bytes go out, 8 stay *)
Example C07_send_pending_buffered_example :
  let c := cli_run ex_cfg ex_first_w10 (firstn 5 ex_upload) in
  exists pb, cl_pend_get (cc_pending c) 1 = Some pb /\ pb_stream pb = None /\ len (pb_body pb) = 15 /\ pb_window pb = 7%Z /\
             cl_acquire_for [] (cs_conn c pb 1) (pb_tag pb) 1 = CLOk /\ cl_can_write c = true /\ cs_n c pb = 7%Z /\
             map brief (cc_out (fst (cl_send_pending 2 c 1))) = COData 1 false [7] :: map brief (cc_out c).
Proof. cbv zeta. eexists. split; [vm_compute; reflexivity|]. vm_compute. repeat split. Qed.

(* the last grant: WINDOW_UPDATE(1, 100) on the state with 8 bytes left lets them out with END_STREAM *)
Example C07_stream_grant_resumes_example :
  let c := cli_run ex_cfg ex_first_w10 (firstn 6 ex_upload) in
  exists pb, cl_pend_get (cc_pending c) 1 = Some pb /\ pb_stream pb = None /\ len (pb_body pb) = 8 /\ pb_window pb = 0%Z /\
             let c1 := cl_add_window c 1 100 in
             cc_winCh c1 = true /\
             map brief (cc_out (fst (cl_send_pending 2 c1 1))) = COData 1 true [8] :: map brief (cc_out c) /\
             cc_pending (fst (cl_send_pending 2 c1 1)) = [].
Proof. cbv zeta. eexists. split; [vm_compute; reflexivity|]. vm_compute. repeat split. Qed.

(* ====================================================================================================================
   (d) "... and finishes", over all event lists: streamed bodies, any number of uploads sharing the connection window.
   Proofs/CliFlowC*.v.

   The body of a request as the connection will see it is `rq_body rq = (B, ok)` (Proofs/CliFlowCBody.v): a buffered body
   is its bytes; a streamed one is the chunks its scripted reader answers with, as refillPending consumes them, up to
   EOF, to the declared length being reached, or to the reader failing / answering (0, nil) (ok = false: the body cannot
   be finished). What is left of it in a pending body pb is `pb_all pb` (the buffered rest, then what the reader will
   still deliver). `data_bytes sid tr` / `end_streams sid tr` (Proofs/CliDefs.v): the DATA payload written on the stream,
   in order; the END_STREAM flags written on it (HEADERS or DATA).

   The caveat of the header applies: one select case of the write loop is one step. *)
From H2V Require Import Proofs.CliFlowCBody Proofs.CliFlowCInv Proofs.CliFlowCWin Proofs.CliFlowCExact Proofs.CliFlowCThm Proofs.CliFlowCEx.

(* the Request a Ctx carries is the one its caller submitted under that tag (tags name Ctx objects) *)
Theorem C07_request_is_submitted : forall (hstate : Type) (dec_field : hstate -> N -> bytes -> dec_res hstate)
    (enc_field : hstate -> bytes -> bytes -> bool -> bytes * hstate) (enc_set_max : hstate -> N -> hstate)
    (cfg : cl_config) (h0 : hstate) (first : bytes) (evs : list cevent) (tag : N) (x : cctx),
  cl_ctx_get (cl_run dec_field enc_field enc_set_max cfg h0 first evs) tag = Some x ->
  exists pre rq q post, evs = pre ++ CEvSubmit tag rq q :: post /\
    cl_ctx_get (cl_run dec_field enc_field enc_set_max cfg h0 first pre) tag = None /\ ct_req x = rq.
Proof. exact ctx_submitted. Qed.
Print Assumptions C07_request_is_submitted.

(* after ANY events, for every request that writeRequest has given a stream (ct_conn; the stream is ct_sid):
   - the DATA payloads written on its stream are, in order, a prefix of its body;
   - END_STREAM has been written on the stream at most once, and if it has, all of the body is out, its reader ended
     well, and nothing of it is pending;
   - while the write loop runs, a body still pending holds exactly the rest (no END_STREAM yet), and if no winCh token is
     waiting it has bytes buffered and is blocked by a send window that is not positive (C07_no_stall);
   - while the write loop runs, the request is on the request table and its caller has not taken the Ctx back, the body
     is pending or END_STREAM is out: nobody drops the body of a live request.
   (Frame sizes: C07_frame_size. No frame after END_STREAM: C07_end_stream_once.) *)
Theorem C07_upload_whole_run : forall (hstate : Type) (dec_field : hstate -> N -> bytes -> dec_res hstate)
    (enc_field : hstate -> bytes -> bytes -> bool -> bytes * hstate) (enc_set_max : hstate -> N -> hstate)
    (cfg : cl_config) (h0 : hstate) (first : bytes) (evs : list cevent) (tag : N) (x : cctx),
  let c := cl_run dec_field enc_field enc_set_max cfg h0 first evs in
  cl_ctx_get c tag = Some x -> ct_conn x = true ->
  let id := ct_sid x in
  let B := fst (rq_body (ct_req x)) in
  let ok := snd (rq_body (ct_req x)) in
  (exists rest, data_bytes id (cl_trace c) ++ rest = B) /\
  (end_streams id (cl_trace c) <= 1)%nat /\
  (end_streams id (cl_trace c) = 1%nat -> data_bytes id (cl_trace c) = B /\ ok = true /\ cl_pend_get (cc_pending c) id = None) /\
  (cl_wl_live c = true -> forall pb, cl_pend_get (cc_pending c) id = Some pb ->
     end_streams id (cl_trace c) = 0%nat /\ data_bytes id (cl_trace c) ++ pb_all pb = B /\ pb_ok pb = ok /\
     (cc_winCh c = false -> pb_body pb <> [] /\ (cl_zmin (pb_window pb) (cc_connWindow c) <= 0)%Z)) /\
  (cl_wl_live c = true -> In (id, tag) (cc_reqQueued c) -> ct_done x = false ->
     cl_pend_get (cc_pending c) id <> None \/ end_streams id (cl_trace c) = 1%nat).
Proof. exact upload_whole_run. Qed.
Print Assumptions C07_upload_whole_run.

(* the same as one alternative. The write loop runs and has caught up (no winCh token), the request is on the request
   table (not answered, reset, cancelled, refused by GOAWAY) and its caller has not taken the Ctx back: EITHER all of the
   body is out and END_STREAM was written, exactly once, OR the rest of the body is pending, with bytes buffered, and one
   of the two send windows (the body's, the connection's) is not positive *)
Theorem C07_upload_dichotomy : forall (hstate : Type) (dec_field : hstate -> N -> bytes -> dec_res hstate)
    (enc_field : hstate -> bytes -> bytes -> bool -> bytes * hstate) (enc_set_max : hstate -> N -> hstate)
    (cfg : cl_config) (h0 : hstate) (first : bytes) (evs : list cevent) (tag : N) (x : cctx),
  let c := cl_run dec_field enc_field enc_set_max cfg h0 first evs in
  cl_ctx_get c tag = Some x -> cl_wl_live c = true -> cc_winCh c = false ->
  In (ct_sid x, tag) (cc_reqQueued c) -> ct_done x = false ->
  let id := ct_sid x in
  let B := fst (rq_body (ct_req x)) in
  (data_bytes id (cl_trace c) = B /\ end_streams id (cl_trace c) = 1%nat /\ snd (rq_body (ct_req x)) = true /\
   cl_pend_get (cc_pending c) id = None) \/
  (exists pb, cl_pend_get (cc_pending c) id = Some pb /\ data_bytes id (cl_trace c) ++ pb_all pb = B /\
              end_streams id (cl_trace c) = 0%nat /\ pb_body pb <> [] /\ (cl_zmin (pb_window pb) (cc_connWindow c) <= 0)%Z).
Proof. exact upload_dichotomy. Qed.
Print Assumptions C07_upload_dichotomy.

(* the client's send windows against the server's ledger (the ledger of C07_ledger_valid) after any events, whether the
   write loop runs or not: never above it (the safety theorem), and a pending body's window is below its ledger window
   by at most what the connection window is below the ledger's. The only thing that takes them below is a critical
   section of sendPending whose bytes are debited and then neither written nor handed back: it debits both windows by
   the same amount (and ends the write loop: C07_windows_exact). A chunk handed back to the connection window
   (addWindow(0, n), /repo 35b3178) is no grant of the server's: the ledger never saw the window go down for it *)
Theorem C07_windows_vs_ledger : forall (hstate : Type) (dec_field : hstate -> N -> bytes -> dec_res hstate)
    (enc_field : hstate -> bytes -> bytes -> bool -> bytes * hstate) (enc_set_max : hstate -> N -> hstate)
    (cfg : cl_config) (h0 : hstate) (first : bytes) (evs : list cevent),
  cl_settings_deserialize false first <> None ->
  GOK ledger0 (g_ledger hstate dec_field enc_field enc_set_max cfg h0 first evs) ->
  let c := cl_run dec_field enc_field enc_set_max cfg h0 first evs in
  let L := lrun ledger0 (g_ledger hstate dec_field enc_field enc_set_max cfg h0 first evs) in
  (0 <= cc_connWindow c <= l_conn L)%Z /\
  forall pb, In pb (cc_pending c) ->
    exists w, l_strm L (pb_id pb) = Some w /\ (pb_window pb <= w)%Z /\ (w - pb_window pb <= l_conn L - cc_connWindow c)%Z.
Proof. exact windows_vs_ledger. Qed.
Print Assumptions C07_windows_vs_ledger.

(* while the write loop runs the client's send windows ARE the server's ledger windows (the client-side analogue of
   C06_windows_exact): the connection window, and the window of every pending body. A critical section whose bytes are
   debited and neither written nor handed back happens only when the DATA write fails or the write loop parks for ever
   on a Ctx lock, and both end the write loop in the same select case *)
Theorem C07_windows_exact : forall (hstate : Type) (dec_field : hstate -> N -> bytes -> dec_res hstate)
    (enc_field : hstate -> bytes -> bytes -> bool -> bytes * hstate) (enc_set_max : hstate -> N -> hstate)
    (cfg : cl_config) (h0 : hstate) (first : bytes) (evs : list cevent),
  cl_settings_deserialize false first <> None ->
  GOK ledger0 (g_ledger hstate dec_field enc_field enc_set_max cfg h0 first evs) ->
  cl_wl_live (cl_run dec_field enc_field enc_set_max cfg h0 first evs) = true ->
  cc_connWindow (cl_run dec_field enc_field enc_set_max cfg h0 first evs)
    = l_conn (lrun ledger0 (g_ledger hstate dec_field enc_field enc_set_max cfg h0 first evs)) /\
  forall pb, In pb (cc_pending (cl_run dec_field enc_field enc_set_max cfg h0 first evs)) ->
    l_strm (lrun ledger0 (g_ledger hstate dec_field enc_field enc_set_max cfg h0 first evs)) (pb_id pb) = Some (pb_window pb).
Proof. exact windows_exact. Qed.
Print Assumptions C07_windows_exact.

(* the corollary, in terms of what the SERVER granted only: if in the server's ledger (initial windows + the grants the
   read loop has applied - the DATA bytes written) the connection window and the stream's window are positive, then under
   the hypotheses of the dichotomy the whole body and END_STREAM have been sent, END_STREAM exactly once. (Before /repo
   35b3178 this needed the hypothesis `cc_connWindow c = l_conn L` and was false without it: sendPending did not hand
   back the chunk of a request that had been taken back, see ex_leak in Proofs/CliFlowCEx.v) *)
Theorem C07_completes_when_granted : forall (hstate : Type) (dec_field : hstate -> N -> bytes -> dec_res hstate)
    (enc_field : hstate -> bytes -> bytes -> bool -> bytes * hstate) (enc_set_max : hstate -> N -> hstate)
    (cfg : cl_config) (h0 : hstate) (first : bytes) (evs : list cevent) (tag : N) (x : cctx) (w : Z),
  let c := cl_run dec_field enc_field enc_set_max cfg h0 first evs in
  let L := lrun ledger0 (g_ledger hstate dec_field enc_field enc_set_max cfg h0 first evs) in
  cl_settings_deserialize false first <> None ->
  GOK ledger0 (g_ledger hstate dec_field enc_field enc_set_max cfg h0 first evs) ->
  cl_ctx_get c tag = Some x -> cl_wl_live c = true -> cc_winCh c = false ->
  In (ct_sid x, tag) (cc_reqQueued c) -> ct_done x = false ->
  (0 < l_conn L)%Z -> l_strm L (ct_sid x) = Some w -> (0 < w)%Z ->
  data_bytes (ct_sid x) (cl_trace c) = fst (rq_body (ct_req x)) /\ end_streams (ct_sid x) (cl_trace c) = 1%nat /\
  cl_pend_get (cc_pending c) (ct_sid x) = None.
Proof. exact completes_when_granted. Qed.
Print Assumptions C07_completes_when_granted.

(* the same for the instance with the real HPACK coder: the statement that the run ex_leak refuted before the fix *)
Theorem C07_completes_when_granted_strong : completes_when_granted_strong_statement.
Proof. exact completes_when_granted_strong. Qed.
Print Assumptions C07_completes_when_granted_strong.

(* ---------- examples ---------- *)

Example C07_request_is_submitted_example :
  option_map (fun x => (ct_sid x, match cq_body (ct_req x) with CBuf b => len b | CStream _ _ => 0 end))
             (cl_ctx_get (cli_run ex_cfg [] ex_two_uploads_blocked) 1) = Some (3, 70000).
Proof. vm_compute. reflexivity. Qed.

(* two uploads, 100000 bytes streamed in eight odd-sized reads on stream 1 and 70000 bytes buffered on stream 3, share the
   connection window; grants arrive in pieces on the connection and on stream 1, SETTINGS lowers INITIAL_WINDOW_SIZE to
   60000 and raises MAX_FRAME_SIZE to 32768 in between. After ex_two_uploads_blocked: 65535 bytes of the first body and
   30000 of the second are out, in order, no END_STREAM; the rest is pending (12578 bytes buffered and two reads to come;
   40000 bytes); both stream windows are positive, the connection window is 0 *)
Example C07_upload_whole_run_example :
  let c := cli_run ex_cfg [] ex_two_uploads_blocked in
  ex_flow c = ([(1, 12578, 14465%Z); (3, 40000, 30000%Z)], 0%Z, false, 32768, [(1, 0); (3, 1)]) /\
  cl_wl_live c = true /\
  option_map (fun x => (ct_conn x, ct_sid x, ct_done x, len (fst (rq_body (ct_req x))), snd (rq_body (ct_req x)))) (cl_ctx_get c 0)
    = Some (true, 1, false, 100000, true) /\
  len (data_bytes 1 (cl_trace c)) = 65535 /\ end_streams 1 (cl_trace c) = 0%nat /\
  len (data_bytes 3 (cl_trace c)) = 30000 /\ end_streams 3 (cl_trace c) = 0%nat /\
  map (fun pb => len (pb_all pb)) (cc_pending c) = [34465; 40000] /\
  map brief (cl_trace c) =
    [COHeaders 1 false []; COData 1 false [7001]; COData 1 false [12345]; COData 1 false [16384]; COData 1 false [9999];
     COData 1 false [16383]; COData 1 false [3423]; COHeaders 3 false []; COData 3 false [16384]; COData 3 false [13616];
     COSettingsAck; COSettingsAck].
Proof.
  cbv zeta. vm_compute. repeat split.
Qed.

(* the second alternative of the dichotomy holds there for both requests (blocked by the connection window); after
   ex_two_uploads_done the first one: everything out, END_STREAM once, on the last frame *)
Example C07_upload_dichotomy_example :
  let c := cli_run ex_cfg [] ex_two_uploads_done in
  ex_flow c = ([], 25535%Z, false, 32768, [(1, 0); (3, 1)]) /\ cl_wl_live c = true /\
  option_map (fun x => (ct_sid x, ct_done x, bytes_eqb (data_bytes 1 (cl_trace c)) (fst (rq_body (ct_req x))))) (cl_ctx_get c 0)
    = Some (1, false, true) /\
  option_map (fun x => (ct_sid x, ct_done x, bytes_eqb (data_bytes 3 (cl_trace c)) (fst (rq_body (ct_req x))))) (cl_ctx_get c 1)
    = Some (3, false, true) /\
  end_streams 1 (cl_trace c) = 1%nat /\ end_streams 3 (cl_trace c) = 1%nat /\
  map brief (skipn 12 (cl_trace c)) =
    [COData 1 false [12578]; COData 1 false [1887]; COData 3 false [30000]; COData 1 false [9224]; COData 1 true [10776];
     COBodyClosed 0; COData 3 true [10000]].
Proof.
  cbv zeta. vm_compute. repeat split.
Qed.

(* the ledger after ex_two_uploads_done: the client's windows are exactly the server's *)
Example C07_windows_vs_ledger_example :
  let L := lrun ledger0 (cli_ledger ex_cfg [] ex_two_uploads_done) in
  GOK ledger0 (cli_ledger ex_cfg [] ex_two_uploads_done) /\
  (l_conn L, l_strm L 1, l_strm L 3) = (25535%Z, Some 30000%Z, Some 40000%Z) /\
  cc_connWindow (cli_run ex_cfg [] ex_two_uploads_done) = l_conn L /\
  (let L1 := lrun ledger0 (cli_ledger ex_cfg [] ex_two_uploads_blocked) in
   (l_conn L1, l_strm L1 1, l_strm L1 3) = (0%Z, Some 14465%Z, Some 30000%Z)).
Proof. cbv zeta. split; [apply gokb_sound; vm_compute; reflexivity|]. vm_compute. repeat split. Qed.

(* the hypotheses of the corollary hold after ex_two_uploads_done, for both requests *)
Example C07_completes_when_granted_example :
  let c := cli_run ex_cfg [] ex_two_uploads_done in
  let L := lrun ledger0 (cli_ledger ex_cfg [] ex_two_uploads_done) in
  cl_settings_deserialize false [] <> None /\ GOK ledger0 (cli_ledger ex_cfg [] ex_two_uploads_done) /\
  cl_wl_live c = true /\ cc_winCh c = false /\ cc_reqQueued c = [(1, 0); (3, 1)] /\
  cc_connWindow c = l_conn L /\ (0 < l_conn L)%Z /\ l_strm L 1 = Some 30000%Z /\ l_strm L 3 = Some 40000%Z.
Proof.
  cbv zeta. split; [vm_compute; discriminate|]. split; [apply gokb_sound; vm_compute; reflexivity|]. vm_compute. repeat split.
Qed.

(* the former leak (Proofs/CliFlowCEx.v): before /repo 35b3178 ex_leak ended with 465 bytes of the second upload pending,
   the client's connection window 0 and the server's 64990. Now the 64990 bytes the write loop debited for the request
   that had been taken back are handed back: the second upload goes out completely and the windows agree *)
Example C07_former_conn_window_leak_completes :
  let c := cli_run ex_cfg_armed ex_first_w10 ex_leak in
  let L := lrun ledger0 (cli_ledger ex_cfg_armed ex_first_w10 ex_leak) in
  ex_flow c = ([], 64525%Z, false, 16384, [(3, 1)]) /\ cl_wl_live c = true /\
  (l_conn L, l_strm L 3) = (64525%Z, Some 1010%Z) /\ GOK ledger0 (cli_ledger ex_cfg_armed ex_first_w10 ex_leak) /\
  map brief (cl_trace c) =
    [COHeaders 1 false []; COData 1 false [10]; COResult 0 false CETimeout cl_empty_resp; CORst 1 8;
     COHeaders 3 false []; COData 3 false [10]; COData 3 true [990]] /\
  (* after the chunk has been handed back: the connection window is whole again, the token is set *)
  ex_flow (cli_run ex_cfg_armed ex_first_w10 (firstn 6 ex_leak)) = ([], 65525%Z, true, 16384, []).
Proof.
  cbv zeta. split; [vm_compute; reflexivity|]. split; [vm_compute; reflexivity|]. split; [vm_compute; reflexivity|].
  split; [apply gokb_sound; vm_compute; reflexivity|]. split; vm_compute; reflexivity.
Qed.

(* observation: a streamed body whose reader hands over more bytes than the declared length is sent as read: the read
   that reaches the length ends the body (refillPending sets drained) but is not cut to it. Here content-length 3 and a
   reader that answers with 5 bytes: 5 bytes of DATA with END_STREAM (RFC 7540 8.1.2.6 makes such a request malformed;
   fasthttp's own writer would have stopped at 3) *)
Example C07_declared_length_overshoot_observation :
  let evs := [CEvSubmit 0 (ex_post (CStream [([1; 2; 3; 4; 5], RNil); ([6], REof)] 3)) true; CEvWLIn] in
  map brief (cl_trace (cli_run ex_cfg [] evs)) = [COHeaders 1 false []; COData 1 true [5]; COBodyClosed 0] /\
  data_bytes 1 (cl_trace (cli_run ex_cfg [] evs)) = [1; 2; 3; 4; 5].
Proof. cbv zeta. vm_compute. split; reflexivity. Qed.
