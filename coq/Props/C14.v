(* C14 (server role) - the receiver hands flow-control credit back so that a conforming sender never starves.
   Only statements here; every proof is one lemma of Proofs/SrvFlowRecv*.v. All theorems are about the model of
   Impl/ServerConn.v, for ALL event lists, generic in the HPACK coder.

   Hypotheses: `cfg_ok` (0 <= sc.maxWindow <= 2^31-1; serverConn.go sets 1<<22) and `wire_ev`: every frame handed
   to the read loop has a length below 2^24 (the frame header's length field has 24 bits; C05/C16).
   The peer's connection window starts, after the handshake, at sc.maxWindow: the server's SETTINGS leave it at
   65535 and Handshake() queues WINDOW_UPDATE(0, maxWindow - 65535) before the first frame is read. The
   handshake is outside the model, so peer_conn_window starts from cf_maxWindow.
   The DATA frames that are not credited are exactly those whose handling ends the connection with GOAWAY: DATA on
   a stream of the table that cannot take DATA (header block not finished, half-closed (remote) or closed), and
   DATA on a stream that is not in the table unless the server reset it itself and still remembers
   (C14_data_accounting). A conforming peer sends none of these. *)
From Coq Require Import List NArith ZArith Bool.
From H2V Require Import Base.Bytes Base.MachineInt Base.Result Impl.Hpack Impl.ServerConn Impl.ServerInst
  Proofs.SrvBase Spec.FlowLedger Proofs.SrvFlowLedger Proofs.SrvFlowDefs Proofs.SrvFlowEff
  Proofs.SrvFlowRecv Proofs.SrvFlowRecvB Proofs.SrvFlowRecvC
  Proofs.SrvFlowExamples.
Import ListNotations.
Local Open Scope N_scope.

(* (a) every WINDOW_UPDATE the server queues, for the connection or a stream, has an increment in 1 .. 2^31-1 *)
Theorem C14_increments : forall (hstate : Type) (dec_field : hstate -> N -> bytes -> dec_res hstate)
    (enc_field : hstate -> bytes -> bytes -> bool -> bytes * hstate) (enc_set_max : hstate -> N -> hstate) cfg h0 evs o sid inc,
  cfg_ok cfg -> Forall wire_ev evs ->
  In o (trace (run dec_field enc_field enc_set_max cfg h0 evs)) -> strip o = OWinUpd sid inc ->
  (0 < inc <= 2147483647)%Z.
Proof. exact window_update_increments. Qed.
Print Assumptions C14_increments.

(* (b) the server's receive window stays between half of sc.maxWindow and sc.maxWindow *)
Theorem C14_receive_window : forall (hstate : Type) (dec_field : hstate -> N -> bytes -> dec_res hstate)
    (enc_field : hstate -> bytes -> bytes -> bool -> bytes * hstate) (enc_set_max : hstate -> N -> hstate) cfg h0 evs,
  cfg_ok cfg -> Forall wire_ev evs ->
  (cf_maxWindow cfg / 2 <= sc_currentWindow (run dec_field enc_field enc_set_max cfg h0 evs) <= cf_maxWindow cfg)%Z.
Proof. exact receive_window_bounds. Qed.
Print Assumptions C14_receive_window.

(* (b) which DATA frames are debited, and so credited back: `CStep c c' d` says the step debits d bytes:
   currentWindow c' - (connection increments queued in the step) = currentWindow c - d while the write loop lives
   (and >= otherwise), the queue and the loops' flags are left alone. A creditable frame is debited with its whole
   length on the wire; any other DATA frame is answered by GOAWAY and debits nothing *)
Theorem C14_data_accounting : forall (hstate : Type) (dec_field : hstate -> N -> bytes -> dec_res hstate)
    (enc_set_max : hstate -> N -> hstate) cfg (c : sconn hstate) fr,
  cfg_ok cfg -> sf_kind fr = KData -> sf_sid fr <> 0 -> wire_ok fr ->
  let c' := fst (sl_frame dec_field enc_set_max cfg c fr) in
  if data_creditable hstate c fr then CStep hstate cfg c c' (Z.of_N (sf_len fr))
  else sc_closing c' = true /\ CStep hstate cfg c c' 0.
Proof. exact data_accounting. Qed.
Print Assumptions C14_data_accounting.

(* (c), (e) the peer's view of its connection send window: w = maxWindow + increments queued - DATA sent.
   It never exceeds what the server accounts for (so never 2^31-1), and while no GOAWAY has been sent and both loops
   and the writer are alive it is exactly the receive window minus the DATA still waiting in sc.reader: once the
   stream loop has caught up the peer can send at least maxWindow/2 more bytes *)
Theorem C14_peer_connection_window : forall (hstate : Type) (dec_field : hstate -> N -> bytes -> dec_res hstate)
    (enc_field : hstate -> bytes -> bytes -> bool -> bytes * hstate) (enc_set_max : hstate -> N -> hstate) cfg h0 evs,
  cfg_ok cfg -> Forall wire_ev evs ->
  let c := run dec_field enc_field enc_set_max cfg h0 evs in
  let w := peer_conn_window (cf_maxWindow cfg) (rtimeline hstate dec_field enc_field enc_set_max cfg h0 evs) in
  (w <= sc_currentWindow c - qdata (sc_readerQ c))%Z /\
  (w <= cf_maxWindow cfg <= 2147483647)%Z /\
  (sc_closing c = false -> sc_sl_done c = false -> sc_wl_dead c = false ->
   w = (sc_currentWindow c - qdata (sc_readerQ c))%Z /\
   (sc_readerQ c = [] -> (cf_maxWindow cfg / 2 <= w)%Z)).
Proof. exact peer_connection_window. Qed.
Print Assumptions C14_peer_connection_window.

(* (d) stream credit: a DATA frame without END_STREAM that is accepted into a request body is answered in the same
   step by WINDOW_UPDATE(stream, its length on the wire, padding included): the peer's stream window is back at
   its initial value after every such step *)
Theorem C14_stream_credit : forall (hstate : Type) (dec_field : hstate -> N -> bytes -> dec_res hstate)
    (enc_field : hstate -> bytes -> bytes -> bool -> bytes * hstate) (enc_set_max : hstate -> N -> hstate) cfg
    (c : sconn hstate) fr q s,
  sc_sl_done c = false -> sc_wl_dead c = false -> sc_readerQ c = fr :: q ->
  sf_kind fr = KData -> sf_sid fr <> 0 -> sf_sid fr <= sc_lastID c ->
  strms_search (sc_strms c) (sf_sid fr) = Some s -> data_accepts s = true ->
  ((0 <? cf_maxBody cfg) && (cf_maxBody cfg <? st_recvBody s + Z.of_N (len (sf_payload fr))))%Z = false ->
  flag_has (sf_flags fr) FL_ES = false -> 0 < sf_len fr ->
  In (OWinUpd (sf_sid fr) (Z.of_N (sf_len fr))) (new_out hstate c (step dec_field enc_field enc_set_max cfg c EvSL)).
Proof. exact data_stream_credit. Qed.
Print Assumptions C14_stream_credit.

(* ---------- examples (the instance with the real HPACK model) ---------- *)

Lemma ex_cfg_small_ok : cfg_ok ex_cfg_small.
Proof. vm_compute. split; discriminate. Qed.
Lemma ex_upload_wire : Forall wire_ev ex_upload.
Proof. repeat constructor. Qed.

(* an upload in four padded DATA frames of 16384 bytes on the wire each, maxWindow = 100000: three stream credits,
   and a connection top-up of 65536 when the fourth frame takes the receive window to 34464 *)
Example C14_increments_example :
  cfg_ok ex_cfg_small /\ Forall wire_ev ex_upload /\
  srv_brief ex_cfg_small ex_upload = [BW 1 16384; BW 1 16384; BW 1 16384; BW 0 65536; BDisp 1].
Proof. split; [exact ex_cfg_small_ok|]. split; [exact ex_upload_wire|]. vm_compute. reflexivity. Qed.

Example C14_receive_window_example :
  sc_currentWindow (srv_run ex_cfg_small (firstn 8 ex_upload)) = 67232%Z /\
  sc_currentWindow (srv_run ex_cfg_small ex_upload) = 100000%Z.
Proof. split; vm_compute; reflexivity. Qed.

(* the peer's view: while the last two DATA frames wait in sc.reader, its window is the receive window minus 32768 *)
Example C14_peer_connection_window_example :
  let c := srv_run ex_cfg_small (firstn 8 ex_upload) in
  srv_rtimeline ex_cfg_small (firstn 8 ex_upload) =
    [RData 1 16384; RCredit 1 16384; RData 1 16384; RCredit 1 16384; RData 1 16384; RData 1 16384] /\
  peer_conn_window 100000 (srv_rtimeline ex_cfg_small (firstn 8 ex_upload)) = 34464%Z /\
  sc_currentWindow c = 67232%Z /\ qdata (sc_readerQ c) = 32768%Z /\
  sc_closing c = false /\ sc_sl_done c = false /\ sc_wl_dead c = false /\
  peer_conn_window 100000 (srv_rtimeline ex_cfg_small ex_upload) = 100000%Z.
Proof. vm_compute. repeat split. Qed.

(* a creditable frame (stream 1 is open, its header block finished), and one that is not (stream 3 is idle) *)
Example C14_data_accounting_example :
  let c := srv_run ex_cfg_small (firstn 2 ex_upload) in
  data_creditable hpack_state c (fData 1 0 [97] 16384) = true /\
  data_creditable hpack_state c (fData 3 0 [97] 16384) = false /\
  sc_currentWindow (fst (sl_frame srv_dec_field set_max_table_size ex_cfg_small c (fData 1 0 [97] 16384))) = 83616%Z /\
  sc_closing (fst (sl_frame srv_dec_field set_max_table_size ex_cfg_small c (fData 3 0 [97] 16384))) = true.
Proof. vm_compute. repeat split. Qed.

Example C14_stream_credit_example :
  let c := srv_run ex_cfg_small (firstn 3 ex_upload) in
  sc_sl_done c = false /\ sc_wl_dead c = false /\ sc_readerQ c = [fData 1 0 [97] 16384] /\
  (exists s, strms_search (sc_strms c) 1 = Some s /\ data_accepts s = true /\ st_recvBody s = 0%Z) /\
  new_out hpack_state c (srv_step ex_cfg_small c EvSL) = [OWinUpd 1 16384].
Proof.
  vm_compute. repeat split.
  eexists. split; [reflexivity|]. split; reflexivity.
Qed.
