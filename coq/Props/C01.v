(* Property C01: end-to-end request / response integrity - on the server model (Impl/ServerConn.v), generic in the
   HPACK coder. Statements only; proofs in Proofs/SrvIso*.v. The property is assembled from:

   REQUEST
     - how a fragment is decoded, whatever the split: C09_hpack_fragment / C09_hpack_run (Props/C09.v): the decoder
       and the carry follow the reference ref_run over the fragments (for the real HPACK instance, decoding fragment
       by fragment with the carry = decoding the concatenation: C03_split_invariance, Props/C03.v);
     - what handle_frame makes of a HEADERS / CONTINUATION frame: C09_cat_header_frame_outcomes: the stream's header
       state becomes hfold (header_field folded) over the reference-decoded fields;
     - C01_request_of_fields, C01_trailers_appended: what hfold builds IS the field list read as a request;
     - C01_data_appended: DATA payloads (padding excluded) are appended to the body;
     - C01_dispatch_carries_request: the handler is started with exactly the request collected;
     - exactly once: C17_dispatch_once (Props/C17.v, by the SrvInv agent): one ODispatch per stream id, ever.
   RESPONSE
     - C01_response_buffered: HEADERS carrying response_block of status and fields (for the real instance it decodes
       back to them: C04, Props/C04.v), DATA frames whose payloads concatenate to the body, END_STREAM on the last
       frame only, then the release; nothing else on the stream. Framing in general (streamed bodies, windows that
       open later): at most one END_STREAM per stream and nothing after it is end_stream_once (Proofs/SrvFlowEs.v, C06).
   MULTIPLEXING
     - C01_other_streams_untouched: a step about one stream leaves the request state of every other stream alone;
       the decoder / encoder states thread through in frame order / completion order (C09_hpack_run; sc_enc is only
       written by finish_request: C01_response_buffered gives its new value).
     - C01_multiplexed_assembly: over whole clean runs, any interleaving: every stream in the table holds exactly what
       replaying its own frames gives (C01_assembled_body / C01_assembled_request read that as body and request).
   The trace-level statement for one request (C01_request_integrity_statement: "exactly one ODispatch sid rq appears")
   is proved for every coder whose decoder consumes input with every field it decodes (C01_request_integrity_progress)
   and, with no hypothesis left, for the real HPACK coder (C01_request_integrity_hpack): see below. *)
From H2V Require Import Base.Bytes Base.MachineInt Base.Result Gen.GenConsts Impl.Hpack Impl.ServerConn Impl.ServerInst
  Proofs.SrvBase Proofs.SrvIsoRef Proofs.SrvIsoMoves Proofs.SrvIsoSteps Proofs.SrvIsoHdr Proofs.SrvIsoHdrStep
  Proofs.SrvIsoRun Proofs.SrvIsoErr Proofs.SrvIsoReq Proofs.SrvFlowSend Proofs.SrvIsoResp Proofs.SrvIsoNI Proofs.SrvIsoOwn
  Proofs.SrvIsoLog Proofs.SrvIsoExamples Proofs.SrvIsoInst Proofs.SrvMsgDefs Proofs.SrvMsgExamples Proofs.SrvReqTrace Proofs.SrvReqTraceEx.
From Coq Require Import ZArith.
Local Open Scope N_scope.

(* ================= (a) the request ================= *)

(* request_of r0 fs: :method / :path / :scheme / :authority values of fs (r0's where absent), the regular fields of
   fs in order appended to r0's. A field list accepted field by field from a state where no pseudo-header has been
   seen (a new stream: hh1 of new_stream) yields exactly that; the flags record which pseudo-headers were present
   (validate_request_pseudo_headers then insists on :method, :scheme, :path and a non-empty path). *)
Theorem C01_request_of_fields : forall cfg h fs hF,
  hfold cfg h fs = Some hF ->
  hd_pMethod h = false -> hd_pPath h = false -> hd_pScheme h = false -> hd_pAuth h = false ->
  hd_req hF = request_of (hd_req h) fs /\
  hd_pMethod hF = is_some (field_val S_method fs) /\ hd_pPath hF = is_some (field_val S_path fs) /\
  hd_pScheme hF = is_some (field_val S_scheme fs) /\ hd_pAuth hF = is_some (field_val S_authority fs) /\
  hd_path hF = opt_or (field_val S_path fs) (hd_path h).
Proof. exact hfold_request. Qed.
Print Assumptions C01_request_of_fields.

(* trailers (handle_header_frame starts a second block with regularSeen set): every accepted field is a regular
   field and is appended, in order; nothing else of the request changes *)
Theorem C01_trailers_appended : forall cfg fs h hF,
  hfold cfg h fs = Some hF -> hd_regularSeen h = true ->
  regular_fields fs = fs /\
  hd_req hF = mkReq (rq_method (hd_req h)) (rq_uri (hd_req h)) (rq_scheme (hd_req h)) (rq_authority (hd_req h))
                    (rq_fields (hd_req h) ++ fs) (rq_body (hd_req h)) /\
  hd_pMethod hF = hd_pMethod h /\ hd_pPath hF = hd_pPath h /\ hd_pScheme hF = hd_pScheme h /\ hd_pAuth hF = hd_pAuth h /\
  hd_path hF = hd_path h.
Proof. exact hfold_regular. Qed.
Print Assumptions C01_trailers_appended.

(* DATA on an open stream whose headers are complete, within the body limit: the payload (padding excluded) is
   appended to the body; the windows are credited for the whole frame (sf_len: padding included); empty DATA
   frames append nothing *)
Theorem C01_data_appended :
  forall hstate (dec_field : hstate -> N -> bytes -> dec_res hstate) cfg (c : sconn hstate) s fr,
    sf_kind fr = KData -> st_headersFinished s = true -> st_state s = SOpen ->
    ((0 <? cf_maxBody cfg) && (cf_maxBody cfg <? st_recvBody s + Z.of_N (len (sf_payload fr))))%Z = false ->
    handle_frame dec_field cfg c s fr =
    (consume_recv_window cfg c (set_recv s (st_recvBody s + Z.of_N (len (sf_payload fr)))%Z (rq_append_body (st_req s) (sf_payload fr)))
                         fr (Z.of_N (sf_len fr)),
     set_recv s (st_recvBody s + Z.of_N (len (sf_payload fr)))%Z (rq_append_body (st_req s) (sf_payload fr)), None).
Proof. exact handle_frame_data_ok. Qed.
Print Assumptions C01_data_appended.

(* the frame that completes the request (END_STREAM seen, headers finished, content-length agrees): the handler is
   started with exactly the request collected so far, once (the stream is marked answered and running) *)
Theorem C01_dispatch_carries_request :
  forall hstate cfg (c : sconn hstate) s fr wc,
    st_state (handle_state fr s) = SHalfClosed -> st_headersFinished s = true -> st_responded s = false ->
    (st_hasCL s && negb (st_recvBody s =? st_contentLength s)%Z)%bool = false ->
    after_frame cfg c s fr wc =
    (let s2 := set_flags (set_flags (handle_state fr s) true (st_handlerRunning s) (st_abandoned s)) true true (st_abandoned s) in
     let c3 := put (note c (ODispatch (st_id s) (st_req s))) s2 in
     if wc && can_close_after_goaway c3 then brk c3 else cont c3).
Proof. exact after_frame_dispatch. Qed.
Print Assumptions C01_dispatch_carries_request.

(* ================= (b) the response ================= *)

(* data_outs sid chunks: DATA frames for the chunks, END_STREAM on the last only; chunk_ok: non-empty, at most
   16384 octets. A handler of an open stream returns a response with a buffered body that the stream and
   connection windows admit: the new outputs are exactly HEADERS (END_STREAM iff there is no body) with
   response_block of the response, the DATA frames, the release of the stream (and OExit if this completes a
   shutdown); the encoder state is response_block's; the stream leaves the table. *)
Theorem C01_response_buffered :
  forall hstate (enc_field : hstate -> bytes -> bytes -> bool -> bytes * hstate) cfg (c : sconn hstate) sid s r b,
    take_stream (sc_gone c) sid = None -> strms_search (sc_strms c) sid = Some s -> st_handlerRunning s = true ->
    rs_body r = BBuffered b -> st_bodyStream s = None ->
    sc_wl_dead c = false -> sc_sl_done c = false ->
    (Z.of_N (len b) <= st_window s)%Z -> (Z.of_N (len b) <= sc_clientWindow c)%Z ->
    exists chunks tail,
      concat chunks = b /\ Forall chunk_ok chunks /\ (tail = [] \/ tail = [OExit 1 0]) /\
      sc_out (fst (sl_done enc_field cfg c sid r)) =
        tail ++ ORelease sid true :: rev (data_outs sid chunks) ++
        OHeaders sid (no_body b) (fst (response_block enc_field (sc_enc c) r)) :: sc_out c /\
      sc_enc (fst (sl_done enc_field cfg c sid r)) = snd (response_block enc_field (sc_enc c) r) /\
      sc_strms (fst (sl_done enc_field cfg c sid r)) = strms_del (sc_strms c) sid.
Proof. exact sl_done_buffered. Qed.
Print Assumptions C01_response_buffered.

(* ================= (c) multiplexing ================= *)
Theorem C01_other_streams_untouched :
  forall hstate (dec_field : hstate -> N -> bytes -> dec_res hstate) enc_field enc_set_max cfg h0 evs e,
    clean dec_field enc_field enc_set_max cfg h0 evs ->
    let c := run dec_field enc_field enc_set_max cfg h0 evs in
    let c' := step dec_field enc_field enc_set_max cfg c e in
    clean_step dec_field enc_field enc_set_max cfg c e -> sc_sl_done c' = false ->
    forall x, In x (sc_strms c') -> st_id x <> step_own c e ->
    exists s, In s (sc_strms c) /\ st_id s = st_id x /\ rqv x = rqv s /\ hv x = hv s.
Proof. exact other_streams_untouched. Qed.
Print Assumptions C01_other_streams_untouched.

(* MULTIPLEXED REQUEST ASSEMBLY. The (ghost) log of a run - `logged .. evs L st`: one item per header-block fragment the
   stream loop handled, `LH fr fs carry` with the fields fs and the carry the reference decoder gives it from the
   decoder state at that moment (st threads that state), and one item `LD fr` per DATA frame taken. `asm cfg items`
   replays the items of ONE stream from a fresh stream: hfold (header_field folded) over the fields of each fragment,
   DATA payloads appended. In any clean run, whatever the interleaving of streams, handler completions, timers and
   the fates of other streams: every stream in the table holds exactly what replaying ITS OWN items gives. *)
Theorem C01_multiplexed_assembly :
  forall hstate (dec_field : hstate -> N -> bytes -> dec_res hstate) enc_field enc_set_max cfg h0 evs,
    clean dec_field enc_field enc_set_max cfg h0 evs ->
    exists L st,
      logged hstate dec_field enc_field enc_set_max cfg h0 evs L st /\
      fst (fst st) = sc_dec (run dec_field enc_field enc_set_max cfg h0 evs) /\
      (sc_sl_done (run dec_field enc_field enc_set_max cfg h0 evs) = false ->
       (forall x, In x (sc_strms (run dec_field enc_field enc_set_max cfg h0 evs)) ->
          (get_hdr x, st_recvBody x) = asm cfg (own_items (st_id x) L)) /\
       (forall i, In i L -> lsid i <= sc_highestID (run dec_field enc_field enc_set_max cfg h0 evs))).
Proof. exact log_inv. Qed.
Print Assumptions C01_multiplexed_assembly.

(* reading asm: the body is the concatenation of the stream's DATA payloads, whatever came in between ... *)
Theorem C01_assembled_body : forall cfg L,
  rq_body (hd_req (fst (asm cfg L))) = concat (data_payloads L) /\ snd (asm cfg L) = Z.of_N (len (concat (data_payloads L))).
Proof. exact asm_body. Qed.
Print Assumptions C01_assembled_body.

(* ... and a block HEADERS CONTINUATION* cut anywhere (block_items: END_HEADERS on the last fragment only) whose
   fields - all fragments together - the model accepts, followed by DATA frames, gives the request the fields spell
   (request_of), with the payloads as body; headers finished; the pseudo-header flags say which were present *)
Theorem C01_assembled_request : forall cfg frs ds hF,
  block_items true frs -> hfold cfg hdr0 (fields_of frs) = Some hF ->
  let a := asm cfg (items_of frs ++ map LD ds) in
  hd_req (fst a) = rq_append_body (request_of empty_req (fields_of frs)) (concat (map sf_payload ds)) /\
  hd_headersFinished (fst a) = true /\
  snd a = Z.of_N (len (concat (map sf_payload ds))) /\
  hd_pMethod (fst a) = is_some (field_val S_method (fields_of frs)) /\
  hd_pPath (fst a) = is_some (field_val S_path (fields_of frs)) /\
  hd_pScheme (fst a) = is_some (field_val S_scheme (fields_of frs)) /\
  hd_path (fst a) = opt_or (field_val S_path (fields_of frs)) [].
Proof. exact asm_request. Qed.
Print Assumptions C01_assembled_request.

(* The whole-run statement for one request. Proved below (Proofs/SrvReqTrace*.v) from the lock-step run of a request from any
   `ready` state (Props/C20.v, core `request_run` in Proofs/SrvMsgReq.v), the invariants of clean runs (Proofs/SrvIsoRun.v
   run_inv; Proofs/SrvReqTraceI.v: no idle stream in the table, the ring cursor below its capacity) and "exactly once"
   = the dispatch, preceded by window updates only.
   frames_of_request: HEADERS CONTINUATION* (any split hfrags of the block), DATA* (any chunking), END_STREAM on the
   last frame; the fragments decode (by the reference, from the decoder state at that moment) to fs; the model
   accepts fs (hfold, validate) and the body is within the limit and agrees with content-length. *)
Definition req_frames (sid : N) (hfrags : list bytes) (chunks : list bytes) : list sframe :=
  match hfrags with
  | [] => []
  | f0 :: rest =>
    mkSFrame KHeaders ((if match rest with [] => true | _ => false end then FL_EH else 0) +
                       (if match chunks with [] => true | _ => false end then FL_ES else 0)) sid (len f0) f0 0 0 0 false 0 false 0 ::
    (fix conts (l : list bytes) : list sframe :=
       match l with
       | [] => []
       | [f] => [mkSFrame KCont FL_EH sid (len f) f 0 0 0 false 0 false 0]
       | f :: t => mkSFrame KCont 0 sid (len f) f 0 0 0 false 0 false 0 :: conts t
       end) rest ++
    (fix datas (l : list bytes) : list sframe :=
       match l with
       | [] => []
       | [d] => [mkSFrame KData FL_ES sid (len d) d 0 0 0 false 0 false 0]
       | d :: t => mkSFrame KData 0 sid (len d) d 0 0 0 false 0 false 0 :: datas t
       end) chunks
  end.
Definition C01_request_integrity_statement : Prop :=
  forall hstate (dec_field : hstate -> N -> bytes -> dec_res hstate) enc_field enc_set_max cfg h0 evs0 sid hfrags chunks fs n1 hF,
    let c0 := run dec_field enc_field enc_set_max cfg h0 evs0 in
    let evs := flat_map (fun f => [EvRL (RFrame f); EvSL]) (req_frames sid hfrags chunks) in
    clean dec_field enc_field enc_set_max cfg h0 (evs0 ++ evs) ->
    (* the connection is ready for a new request on sid *)
    N.land sid 1 = 1 -> sc_highestID c0 < sid -> (sc_open c0 < cf_maxStreams cfg)%Z -> sc_closing c0 = false ->
    sc_sl_done c0 = false -> sc_rl_done c0 = false -> sc_wl_dead c0 = false -> sc_readerQ c0 = [] -> sc_expectCont c0 = 0 ->
    (* the block decodes to fs, which the model accepts *)
    ref_frames_fs dec_field (sc_dec c0, 0, []) (filter is_hdr_frame (req_frames sid hfrags chunks)) fs
                  (sc_dec (run dec_field enc_field enc_set_max cfg h0 (evs0 ++ evs)), n1, []) ->
    hfold cfg (hh1 (new_stream sid (sc_initWin c0)) (mkSFrame KHeaders 0 sid 0 [] 0 0 0 false 0 false 0)) fs = Some hF ->
    hd_pMethod hF = true -> hd_pScheme hF = true -> hd_pPath hF = true -> hd_path hF <> [] ->
    ((0 <? cf_maxBody cfg) && (cf_maxBody cfg <? Z.of_N (len (concat chunks))))%Z = false ->
    (hd_hasCL hF = true -> hd_contentLength hF = Z.of_N (len (concat chunks))) ->
    exists pre post,
      trace (run dec_field enc_field enc_set_max cfg h0 (evs0 ++ evs)) =
      trace c0 ++ pre ++ ODispatch sid (rq_append_body (request_of empty_req fs) (concat chunks)) :: post /\
      (forall rq, ~ In (ODispatch sid rq) (pre ++ post)).

(* The statement as written is generic in the HPACK coder with NO hypothesis on dec_field. The proof goes through the
   lock-step development (Proofs/SrvMsg*.v), whose decoding relation asks that every decoded field consumes input (this is
   what makes the fuel `length b + 1` of handleHeaderFrame's loop sufficient). For a decoder that returns a field without
   consuming anything the model may still accept the block within its fuel, so the statement above is believed true as
   written, but that case is not covered: C01_request_integrity_statement stays a Definition, and what is proved is
   (1) the same statement under the extra hypothesis `progress` on the abstract decoder (clearly an assumption on the
       coder, not on the run), and
   (2) the statement itself, word for word, at the real HPACK decoder srv_dec_field (progress: Proofs/SrvIsoInst.v
       srv_dec_shrinks, from C03's next_field_progress), for any encoder. *)
Definition C01_request_integrity_progress_statement : Prop :=
  forall hstate (dec_field : hstate -> N -> bytes -> dec_res hstate) enc_field enc_set_max cfg h0,
    (* EXTRA HYPOTHESIS: a decoded field consumes at least one octet of its input *)
    (forall d n b k v rest d1, dec_field d n b = DField hstate k v rest d1 -> (length rest < length b)%nat) ->
    forall evs0 sid hfrags chunks fs n1 hF,
    let c0 := run dec_field enc_field enc_set_max cfg h0 evs0 in
    let evs := flat_map (fun f => [EvRL (RFrame f); EvSL]) (req_frames sid hfrags chunks) in
    clean dec_field enc_field enc_set_max cfg h0 (evs0 ++ evs) ->
    N.land sid 1 = 1 -> sc_highestID c0 < sid -> (sc_open c0 < cf_maxStreams cfg)%Z -> sc_closing c0 = false ->
    sc_sl_done c0 = false -> sc_rl_done c0 = false -> sc_wl_dead c0 = false -> sc_readerQ c0 = [] -> sc_expectCont c0 = 0 ->
    ref_frames_fs dec_field (sc_dec c0, 0, []) (filter is_hdr_frame (req_frames sid hfrags chunks)) fs
                  (sc_dec (run dec_field enc_field enc_set_max cfg h0 (evs0 ++ evs)), n1, []) ->
    hfold cfg (hh1 (new_stream sid (sc_initWin c0)) (mkSFrame KHeaders 0 sid 0 [] 0 0 0 false 0 false 0)) fs = Some hF ->
    hd_pMethod hF = true -> hd_pScheme hF = true -> hd_pPath hF = true -> hd_path hF <> [] ->
    ((0 <? cf_maxBody cfg) && (cf_maxBody cfg <? Z.of_N (len (concat chunks))))%Z = false ->
    (hd_hasCL hF = true -> hd_contentLength hF = Z.of_N (len (concat chunks))) ->
    exists pre post,
      trace (run dec_field enc_field enc_set_max cfg h0 (evs0 ++ evs)) =
      trace c0 ++ pre ++ ODispatch sid (rq_append_body (request_of empty_req fs) (concat chunks)) :: post /\
      (forall rq, ~ In (ODispatch sid rq) (pre ++ post)).

Theorem C01_request_integrity_progress : C01_request_integrity_progress_statement.
Proof. exact request_integrity_core. Qed.
Print Assumptions C01_request_integrity_progress.

(* C01_request_integrity_statement at the real HPACK decoder (hstate := hpack_state, dec_field := srv_dec_field), any encoder *)
Theorem C01_request_integrity_hpack :
  forall enc_field enc_set_max cfg h0 evs0 sid hfrags chunks fs n1 hF,
    let c0 := run srv_dec_field enc_field enc_set_max cfg h0 evs0 in
    let evs := flat_map (fun f => [EvRL (RFrame f); EvSL]) (req_frames sid hfrags chunks) in
    clean srv_dec_field enc_field enc_set_max cfg h0 (evs0 ++ evs) ->
    N.land sid 1 = 1 -> sc_highestID c0 < sid -> (sc_open c0 < cf_maxStreams cfg)%Z -> sc_closing c0 = false ->
    sc_sl_done c0 = false -> sc_rl_done c0 = false -> sc_wl_dead c0 = false -> sc_readerQ c0 = [] -> sc_expectCont c0 = 0 ->
    ref_frames_fs srv_dec_field (sc_dec c0, 0, []) (filter is_hdr_frame (req_frames sid hfrags chunks)) fs
                  (sc_dec (run srv_dec_field enc_field enc_set_max cfg h0 (evs0 ++ evs)), n1, []) ->
    hfold cfg (hh1 (new_stream sid (sc_initWin c0)) (mkSFrame KHeaders 0 sid 0 [] 0 0 0 false 0 false 0)) fs = Some hF ->
    hd_pMethod hF = true -> hd_pScheme hF = true -> hd_pPath hF = true -> hd_path hF <> [] ->
    ((0 <? cf_maxBody cfg) && (cf_maxBody cfg <? Z.of_N (len (concat chunks))))%Z = false ->
    (hd_hasCL hF = true -> hd_contentLength hF = Z.of_N (len (concat chunks))) ->
    exists pre post,
      trace (run srv_dec_field enc_field enc_set_max cfg h0 (evs0 ++ evs)) =
      trace c0 ++ pre ++ ODispatch sid (rq_append_body (request_of empty_req fs) (concat chunks)) :: post /\
      (forall rq, ~ In (ODispatch sid rq) (pre ++ post)).
Proof. exact request_integrity_hpack. Qed.
Print Assumptions C01_request_integrity_hpack.

(* The hypotheses are satisfiable, on the real HPACK instance (Proofs/SrvReqTraceEx.v): stream 1 has been dispatched and its
   handler still runs (the stream is in the table); a POST arrives on stream 3, its block cut into three fragments inside
   fields, its body in two DATA frames. The run is clean, the state is ready, the block decodes to fs1 and is accepted; the
   trace gains the window update for the first DATA frame and THE dispatch, with the request the peer sent. *)
Example C01_example_request_integrity :
  clean srv_dec_field srv_enc_field set_max_table_size cfgE srv_init_hpack (x_evs0 ++ x_evs) /\
  (map (fun s => (st_id s, st_state s, st_handlerRunning s))
       (sc_strms (run srv_dec_field srv_enc_field set_max_table_size cfgE srv_init_hpack x_evs0)) = [(1, SHalfClosed, true)] /\
   N.land 3 1 = 1 /\ sc_highestID (run srv_dec_field srv_enc_field set_max_table_size cfgE srv_init_hpack x_evs0) < 3 /\
   (sc_open (run srv_dec_field srv_enc_field set_max_table_size cfgE srv_init_hpack x_evs0) < cf_maxStreams cfgE)%Z /\
   sc_closing (run srv_dec_field srv_enc_field set_max_table_size cfgE srv_init_hpack x_evs0) = false /\
   sc_sl_done (run srv_dec_field srv_enc_field set_max_table_size cfgE srv_init_hpack x_evs0) = false /\
   sc_rl_done (run srv_dec_field srv_enc_field set_max_table_size cfgE srv_init_hpack x_evs0) = false /\
   sc_wl_dead (run srv_dec_field srv_enc_field set_max_table_size cfgE srv_init_hpack x_evs0) = false /\
   sc_readerQ (run srv_dec_field srv_enc_field set_max_table_size cfgE srv_init_hpack x_evs0) = [] /\
   sc_expectCont (run srv_dec_field srv_enc_field set_max_table_size cfgE srv_init_hpack x_evs0) = 0) /\
  x_evs = flat_map (fun f => [EvRL (RFrame f); EvSL]) (req_frames 3 x_hfrags x_chunks) /\
  length x_hfrags = 3%nat /\ length x_chunks = 2%nat /\
  ref_frames_fs srv_dec_field (sc_dec (run srv_dec_field srv_enc_field set_max_table_size cfgE srv_init_hpack x_evs0), 0, [])
                (filter is_hdr_frame (req_frames 3 x_hfrags x_chunks)) fs1
                (sc_dec (run srv_dec_field srv_enc_field set_max_table_size cfgE srv_init_hpack (x_evs0 ++ x_evs)), 7, []) /\
  (exists hF,
     hfold cfgE (hh1 (new_stream 3 (sc_initWin (run srv_dec_field srv_enc_field set_max_table_size cfgE srv_init_hpack x_evs0)))
                     (mkSFrame KHeaders 0 3 0 [] 0 0 0 false 0 false 0)) fs1 = Some hF /\
     hd_pMethod hF = true /\ hd_pScheme hF = true /\ hd_pPath hF = true /\ hd_path hF <> [] /\
     (hd_hasCL hF = true -> hd_contentLength hF = Z.of_N (len (concat x_chunks)))) /\
  ((0 <? cf_maxBody cfgE) && (cf_maxBody cfgE <? Z.of_N (len (concat x_chunks))))%Z = false /\
  trace (run srv_dec_field srv_enc_field set_max_table_size cfgE srv_init_hpack (x_evs0 ++ x_evs)) =
  trace (run srv_dec_field srv_enc_field set_max_table_size cfgE srv_init_hpack x_evs0) ++
  [OWinUpd 3 2] ++ ODispatch 3 (rq_append_body (request_of empty_req fs1) (concat x_chunks)) :: [].
Proof.
  exact (conj x_clean (conj x_ready (conj eq_refl (conj eq_refl (conj eq_refl (conj x_decodes (conj x_accepted (conj x_body x_trace)))))))).
Qed.

(* ================= examples (real HPACK instance; by computation) ================= *)
(* Three requests multiplexed on one connection: stream 1 - POST, its block cut in three (inside a literal), HEADERS
   padded, body as DATA "he" (padded), "" (empty), "llo"; stream 3 - GET with :authority, a priority field,
   END_STREAM on HEADERS; stream 5 - POST with a body and a trailer block cut in two. The handlers finish in the
   order 3, 5, 1. Each handler sees exactly its request, each response goes out on its stream as HEADERS then DATA
   with END_STREAM once. *)
Example C01_example_multiplexed :
  clean srv_dec_field srv_enc_field set_max_table_size m_cfg srv_init_hpack m_evs /\
  srv_trace (srv_run m_cfg m_evs) =
  [ODispatch 3 m_rq3; OWinUpd 1 7; OWinUpd 5 2;
   OHeaders 3 false [136;0;129;243;129;15]; OData 3 true [111;107]; ORelease 3 true;
   ODispatch 5 m_rq5; OHeaders 5 false [72;130;16;3]; OData 5 true [33]; ORelease 5 true;
   ODispatch 1 m_rq1; OHeaders 1 true [137]; ORelease 1 true] /\
  fst (response_block srv_enc_field srv_init_hpack (mkResp 200 [([88],[49])] (BBuffered [111;107]))) = [136;0;129;243;129;15].
Proof. split; [apply cleanb_sound; exact m_cleanb|]. split; [exact m_trace | exact m_resp_block3]. Qed.
Print Assumptions C01_example_multiplexed.

Example C01_example_request_of :
  request_of empty_req [([58;109;101;116;104;111;100],[80;79;83;84]); ([58;112;97;116;104],[47]);
                        ([58;115;99;104;101;109;101],[104;116;116;112;115]);
                        ([99;111;110;116;101;110;116;45;108;101;110;103;116;104],[53]); ([120],[121])] =
  mkReq [80;79;83;84] [47] [104;116;116;112;115] None
        [([99;111;110;116;101;110;116;45;108;101;110;103;116;104], [53]); ([120],[121])] [].
Proof. exact m_request_of. Qed.

(* C01_assembled_request on stream 1 of the example above: the three fragments of its block with the fields the
   reference decodes from each (and the carries [92], [64], []), then its three DATA frames: the request is m_rq1,
   the one its handler was started with *)
Example C01_example_assembled :
  block_items true a_frs /\ (exists hF, hfold m_cfg hdr0 (fields_of a_frs) = Some hF) /\
  hd_req (fst (asm m_cfg (items_of a_frs ++ map LD a_ds))) = m_rq1.
Proof. split; [exact a_block|]. split; [exact a_accepted | exact a_request]. Qed.
