(* C13 - server work and memory per connection stay within the configured limits.
   Only statements here; every proof is one lemma of Proofs/SrvInvC13.v (structural invariant SI of
   Proofs/SrvInvSlots.v, proved for every event list and every HPACK coder).
   `run dec enc sm cfg h0 evs` is the connection state after the events evs (Impl/ServerConn.v); every peer behaviour,
   handler completion order, timer and write failure is an event list. *)
From Coq Require Import List NArith ZArith Bool.
From H2V Require Import Base.Bytes Base.MachineInt Base.Result Gen.GenConsts Impl.Hpack Impl.ServerConn Impl.ServerInst
  Proofs.SrvBase Proofs.SrvInvSlots Proofs.SrvInvSOK Proofs.SrvInvC13 Proofs.SrvInvC13d Proofs.SrvInvCount Proofs.SrvInvExamples.
Import ListNotations.
Local Open Scope N_scope.

(* (a) slots. `running c` counts the handlers that run: those of table streams with st_handlerRunning, and those of
   the streams closed while their handler runs (sc_gone). It never exceeds sc_open (the openStreams counter the
   admission test `openStreams >= maxStreams` looks at), which never exceeds MaxConcurrentStreams. *)
Theorem C13_slots : forall hstate dec_field enc_field enc_set_max cfg (h0 : hstate) evs,
  let c := run dec_field enc_field enc_set_max cfg h0 evs in
  (0 <= running c <= sc_open c)%Z /\ (sc_open c <= Z.max 0 (cf_maxStreams cfg))%Z.
Proof. exact slots_bound. Qed.
Print Assumptions C13_slots.

(* the counter is exact: HEADERS-opened streams of the table plus abandoned streams, all of which have a handler *)
Theorem C13_open_exact : forall hstate dec_field enc_field enc_set_max cfg (h0 : hstate) evs,
  let c := run dec_field enc_field enc_set_max cfg h0 evs in
  sc_open c = (count_hdr (sc_strms c) + Z.of_nat (length (sc_gone c)))%Z /\
  Forall (fun s => st_orig s = KHeaders /\ st_handlerRunning s = true) (sc_gone c).
Proof. exact open_exact. Qed.
Print Assumptions C13_open_exact.

(* a cancelled stream keeps its slot until its handler returns: nothing but an EvDone takes a stream out of sc_gone *)
Theorem C13_abandoned_keeps_slot : forall hstate dec_field enc_field enc_set_max cfg (h0 : hstate) evs e,
  (forall sid r, e <> EvDone sid r) ->
  incl (sc_gone (run dec_field enc_field enc_set_max cfg h0 evs))
       (sc_gone (step dec_field enc_field enc_set_max cfg (run dec_field enc_field enc_set_max cfg h0 evs) e)).
Proof. exact abandoned_keeps_slot. Qed.
Print Assumptions C13_abandoned_keeps_slot.

(* (a) over traces. `returns cfg h0 evs` counts the events of evs that take a handler back: an EvDone for a stream whose
   handler is running (handler_returns in Proofs/SrvInvCount.v; an ill-timed EvDone is a no-op and does not count).
   After every event list - hence at every prefix of every history - the handlers running are exactly the requests
   dispatched minus the handlers that came back, and that never exceeds the limit. *)
Theorem C13_running_is_dispatched_minus_returned : forall hstate dec_field enc_field enc_set_max cfg (h0 : hstate) evs,
  running (run dec_field enc_field enc_set_max cfg h0 evs) =
  (count_disp (trace (run dec_field enc_field enc_set_max cfg h0 evs)) -
   returns hstate dec_field enc_field enc_set_max cfg h0 evs)%Z.
Proof. exact running_is_dispatched_minus_returned. Qed.
Print Assumptions C13_running_is_dispatched_minus_returned.

Theorem C13_dispatched_minus_returned_bounded : forall hstate dec_field enc_field enc_set_max cfg (h0 : hstate) evs,
  (0 <= count_disp (trace (run dec_field enc_field enc_set_max cfg h0 evs)) -
        returns hstate dec_field enc_field enc_set_max cfg h0 evs <= Z.max 0 (cf_maxStreams cfg))%Z.
Proof. exact dispatched_minus_returned_bounded. Qed.
Print Assumptions C13_dispatched_minus_returned_bounded.

Example C13_count_ex :
  count_disp (srv_trace (srv_run cfgx evs_slots)) = 2%Z /\
  returns _ srv_dec_field srv_enc_field set_max_table_size cfgx srv_init_hpack evs_slots = 0%Z /\
  returns _ srv_dec_field srv_enc_field set_max_table_size cfgx srv_init_hpack evs_full = 2%Z /\
  returns _ srv_dec_field srv_enc_field set_max_table_size cfgx srv_init_hpack (evs_full ++ [EvDone 1 resp200]) = 2%Z.
Proof. vm_compute. repeat split. Qed.

(* (b) the closed-stream memory holds at most closedStrmsCap ids *)
Theorem C13_ring_bound : forall hstate dec_field enc_field enc_set_max cfg (h0 : hstate) evs,
  (length (sc_ring (run dec_field enc_field enc_set_max cfg h0 evs)) <= 256)%nat.
Proof. exact ring_bound. Qed.
Print Assumptions C13_ring_bound.

(* (c) the stream table is bounded by the open-stream count (so by MaxConcurrentStreams), not by the number of
   frames: while the stream loop runs every stream in it was opened by HEADERS and holds a slot; the one extra entry
   is the stream object made for a frame that ended the loop *)
Theorem C13_table_bound : forall hstate dec_field enc_field enc_set_max cfg (h0 : hstate) evs,
  let c := run dec_field enc_field enc_set_max cfg h0 evs in
  (Z.of_nat (length (sc_strms c)) <= sc_open c + 1)%Z /\
  (sc_sl_done c = false -> Forall (fun s => st_orig s = KHeaders) (sc_strms c) /\
                           (Z.of_nat (length (sc_strms c)) <= sc_open c)%Z).
Proof. exact table_bound. Qed.
Print Assumptions C13_table_bound.

(* Example: two slots. Requests 1 and 3 run, 5 is refused, the peer resets 1 while its handler runs (it moves to
   sc_gone and keeps its slot), 7 is still refused. The bound is tight: 2 handlers, 2 slots, limit 2. *)
Example C13_slots_ex :
  let c := srv_run cfgx evs_slots in
  running c = 2%Z /\ sc_open c = 2%Z /\ cf_maxStreams cfgx = 2%Z /\
  length (sc_strms c) = 1%nat /\ length (sc_gone c) = 1%nat /\ length (sc_ring c) = 3%nat /\
  srv_trace c = [OSettingsAck; ODispatch 1 rq_get; ODispatch 3 rq_get; ORst 5 7; ORst 7 7].
Proof. vm_compute. repeat split. Qed.

(* ... and the whole story: the slot of 1 comes back with its EvDone, 3 is answered, a DATA frame on an idle stream ends
   the connection with GOAWAY(last = 3) *)
Example C13_full_ex :
  let c := srv_run cfgx evs_full in
  running c = 0%Z /\ sc_open c = 0%Z /\ length (sc_strms c) = 1%nat /\ sc_sl_done c = true /\
  srv_trace c = [OSettingsAck; ODispatch 1 rq_get; ODispatch 3 rq_get; ORst 5 7; ORst 7 7; ORelease 1 true;
                 OHeaders 3 false [136]; OData 3 true [104; 105]; ORelease 3 true; OGoAway 3 1; OExit 1 0; OExit 0 0].
Proof. vm_compute. repeat split. Qed.

(* (d) what a handler is given. req_list_size rq is the size of the request's header list: every regular field of every
   header block of the stream (trailers included) and the pseudo-headers :method :path :scheme (and :authority when
   sent), each counted name + value + 32 (RFC 7540 6.5.2). It is exactly the size the server accumulated in
   st_headerListSize (dispatchable_size in Proofs/SrvInvC13d.v). Both limits apply when they are > 0. *)
Theorem C13_dispatch_bounds : forall hstate dec_field enc_field enc_set_max cfg (h0 : hstate) evs sid rq,
  In (ODispatch sid rq) (trace (run dec_field enc_field enc_set_max cfg h0 evs)) ->
  (0 < cf_maxBody cfg -> Z.of_N (len (rq_body rq)) <= cf_maxBody cfg)%Z /\
  (0 < cf_maxHeaderList cfg -> req_list_size rq <= cf_maxHeaderList cfg)%Z.
Proof. exact dispatch_bounds. Qed.
Print Assumptions C13_dispatch_bounds.

(* (e) buffered header bytes. While the stream loop runs, every stream of the table carries over at most
   MaxHeaderListSize bytes of an unfinished header field between two frames of its block, and the header-list size it
   has accumulated is within the limit. A longer carry-over is detected in the step that produces it and ends the
   connection (GOAWAY ENHANCE_YOUR_CALM, stream loop exit): the stored bytes then exceed the limit by less than the
   payload of the one frame that brought them, and nothing is added afterwards. *)
Theorem C13_buffered_header_bytes : forall hstate dec_field enc_field enc_set_max cfg (h0 : hstate) evs s,
  let c := run dec_field enc_field enc_set_max cfg h0 evs in
  sc_sl_done c = false -> In s (sc_strms c) -> (0 < cf_maxHeaderList cfg)%Z ->
  (Z.of_N (len (st_prev s)) <= cf_maxHeaderList cfg)%Z /\ (st_headerListSize s <= cf_maxHeaderList cfg)%Z.
Proof. exact prev_bound. Qed.
Print Assumptions C13_buffered_header_bytes.

(* the per-stream invariant behind (d) and (e), for every stream of the table while the loop runs *)
Theorem C13_table_streams_ok : forall hstate dec_field enc_field enc_set_max cfg (h0 : hstate) evs,
  let c := run dec_field enc_field enc_set_max cfg h0 evs in
  sc_sl_done c = false -> Forall (SOK cfg) (sc_strms c).
Proof. exact table_streams_ok. Qed.
Print Assumptions C13_table_streams_ok.

(* the same for the carry-over of a header block that is decoded only to be thrown away (a refused stream's block, the
   rest of a block after a stream error, the block of a stream reset in mid-headers): sc_discardPrev *)
Theorem C13_discard_carry : forall hstate dec_field enc_field enc_set_max cfg (h0 : hstate) evs,
  let c := run dec_field enc_field enc_set_max cfg h0 evs in
  sc_sl_done c = false -> (0 < cf_maxHeaderList cfg)%Z -> (Z.of_N (len (sc_discardPrev c)) <= cf_maxHeaderList cfg)%Z.
Proof. exact discard_prev_bound. Qed.
Print Assumptions C13_discard_carry.

(* the local fact behind it: the function that stores the carry-over accepts it only within the limit *)
Theorem C13_discard_fragment_carry : forall hstate dec_field cfg (c : sconn hstate) id frag eh,
  snd (discard_fragment dec_field cfg c id frag eh) = None -> (0 < cf_maxHeaderList cfg)%Z ->
  (Z.of_N (len (sc_discardPrev (fst (discard_fragment dec_field cfg c id frag eh)))) <= cf_maxHeaderList cfg)%Z.
Proof. exact discard_fragment_carry. Qed.
Print Assumptions C13_discard_fragment_carry.

(* Example for (d): a POST with a 3-byte body; limits 1000 (body) and 4096 (header list) *)
Example C13_dispatch_ex :
  srv_trace (srv_run cfgx evs_post) = [ODispatch 1 rq_post] /\
  len (rq_body rq_post) = 3 /\ req_list_size rq_post = 125%Z /\ cf_maxBody cfgx = 1000%Z /\ cf_maxHeaderList cfgx = 4096%Z.
Proof. vm_compute. repeat split. Qed.

(* Example for (e): a HEADERS frame that stops in the middle of a field (literal with a 5-byte name announced, 2 bytes
   present): the 3 bytes are carried over in st_prev *)
Example C13_prev_ex :
  let c := srv_run cfgx [EvRL (RFrame (mkSFrame KHeaders 0 1 5 [0x82; 0x84; 0x40; 0x05; 0x61] 0 0 0 false 0 false 0)); EvSL] in
  sc_sl_done c = false /\ map (fun s => st_prev s) (sc_strms c) = [[0x40; 0x05; 0x61]].
Proof. vm_compute. split; reflexivity. Qed.

(* Example for the discarded block: with both slots taken, HEADERS on stream 9 is refused; its block (no END_HEADERS)
   stops in the middle of a field, and the 3 undecoded bytes wait in sc_discardPrev for the CONTINUATION *)
Example C13_discard_ex :
  let c := srv_run cfgx (evs_slots ++ [EvRL (RFrame (mkSFrame KHeaders 0 9 5 [0x82; 0x84; 0x40; 0x05; 0x61] 0 0 0 false 0 false 0)); EvSL]) in
  sc_sl_done c = false /\ sc_discardPrev c = [0x40; 0x05; 0x61] /\ sc_discardID c = 9 /\
  srv_trace c = [OSettingsAck; ODispatch 1 rq_get; ODispatch 3 rq_get; ORst 5 7; ORst 7 7; ORst 9 7].
Proof. vm_compute. repeat split. Qed.

(* NOT covered here: queue capacities. The model's queues (sc_readerQ, the writer queue behind emit, handlerDone) are
   unbounded lists; the Go channels have capacity 128 and block, which bounds "queued control replies" by
   back-pressure on the read loop, a property of the blocking structure and not of this model. *)
