(* What a client connection says first (conn.go: NewConn's settings, Handshake; http2.go: WritePreface),
   Impl/ClientSetup.v.  The client half of C18's "the settings the endpoint advertises itself (including ENABLE_PUSH=0
   from the client) are the ones it enforces" at the handshake, and of C14's "never issues an increment of 0".
   The objects are closed terms (the client takes no configuration here), so computation is a complete proof.
   Tie: the "hs:" item of every result line of the client suite (preface + both frames as the scripted server read
   them) is printed by the driver from this model. *)
From H2V Require Import Base.Bytes Base.Result Gen.GenConsts Gen.GenSetup Impl.Frames Impl.ClientSetup Impl.ServerConn Impl.ClientConn Proofs.ClientSetupThms.
From Coq Require Import NArith ZArith List.
Import ListNotations.
Local Open Scope Z_scope.

Theorem ClientSetup_handshake_frames : cli_handshake_frames =
  Ok (uint24_to_bytes (len (entries cli_announced)) ++ [4%N; 0%N; 0%N; 0%N; 0%N; 0%N] ++ entries cli_announced
      ++ [0%N; 0%N; 4%N; 8%N; 0%N; 0%N; 0%N; 0%N; 0%N] ++ uint32_to_bytes (Z.to_N (cli_max_window - 65535))).
Proof. exact handshake_frames. Qed.
Print Assumptions ClientSetup_handshake_frames.

Theorem ClientSetup_announced_is_enforced :
  cli_announced = [(c_EnablePush, 0%N); (c_MaxConcurrentStreams, c_defaultConcurrentStreams); (c_MaxWindowSize, Z.to_N cl_maxWindow)] /\
  65535 + (cli_max_window - 65535) = cl_maxWindow /\ 0 < cli_max_window - 65535 <= 2147483647.
Proof. exact announced_values. Qed.
Print Assumptions ClientSetup_announced_is_enforced.

Theorem ClientSetup_preface : cli_preface =
  [80; 82; 73; 32; 42; 32; 72; 84; 84; 80; 47; 50; 46; 48; 13; 10; 13; 10; 83; 77; 13; 10; 13; 10]%N.
Proof. exact preface_rfc. Qed.
Print Assumptions ClientSetup_preface.
