(* Property C09: isolation of stream errors, HPACK context integrity - on the server model
   (Impl/ServerConn.v), generic in the HPACK coder (hstate, dec_field, enc_field, enc_set_max).
   Statements only; proofs in Proofs/SrvIso*.v.

   Vocabulary:
     ref_run dec_field eh d n b fs d' n' carry   (Proofs/SrvIsoRef.v)
        the reference "decode everything" semantics of one header-block fragment, over dec_field alone: from
        decoder state d, n fields of the block decoded so far, the bytes b (carry of the previous fragment ++ this
        fragment) give the fields fs, decoder state d', n' fields, and `carry` = the bytes of a field cut off by
        the frame boundary (eh = END_HEADERS: no carry). No derivation when b does not decode.
     ref_frames dec_field st0 frs st             (Proofs/SrvIsoRun.v)  ref_run folded over the fragments frs
        (HEADERS starts a block, CONTINUATION continues it with the carry).
     hframes .. evs        the HEADERS/CONTINUATION frames (stream id <> 0) the stream loop has taken in the run evs
     hdr_taken c e         the one it takes in step e from state c ([] if none)
     clean .. evs          every step of evs in which the stream loop handled such a frame had a live write loop and
                           produced no error output (gcount = number of GOAWAY / panic outputs did not grow)
     carry_at c id         where the carry of stream id's open block lives in c: the discard registers if they are
                           armed for id, else the stream's previousHeaderBytes/blockFields
     is_cont / eh_of / frag   CONTINUATION? / END_HEADERS? / (is_cont, eh_of, payload)  *)
From H2V Require Import Base.Bytes Base.MachineInt Base.Result Gen.GenConsts Impl.Hpack Impl.ServerConn Impl.ServerInst
  Proofs.SrvBase Proofs.SrvIsoRef Proofs.SrvIsoMoves Proofs.SrvIsoSteps Proofs.SrvIsoHdr Proofs.SrvIsoHdrStep
  Proofs.SrvIsoRun Proofs.SrvIsoErr Proofs.SrvIsoNI Proofs.SrvIsoInst Proofs.SrvIsoExamples.
From Coq Require Import ZArith.
Local Open Scope N_scope.

(* ================= (a) HPACK context integrity ================= *)

(* the reference is a function of its inputs *)
Theorem C09_reference_functional :
  forall hstate (dec_field : hstate -> N -> bytes -> dec_res hstate) eh d n b fs1 d1 n1 c1 fs2 d2 n2 c2,
    ref_run dec_field eh d n b fs1 d1 n1 c1 -> ref_run dec_field eh d n b fs2 d2 n2 c2 ->
    fs1 = fs2 /\ d1 = d2 /\ n1 = n2 /\ c1 = c2.
Proof. exact ref_run_det. Qed.
Print Assumptions C09_reference_functional.

(* the two decoding loops of the server thread dec_field as the reference does: "decode and drop" is the reference;
   "decode and validate" is the reference up to the field it refuses, and handing the rest to "decode and drop"
   gives the reference on the whole (ref_pre_run): the key to everything below *)
Theorem C09_discard_loop_is_reference :
  forall hstate (dec_field : hstate -> N -> bytes -> dec_res hstate) fuel eh d n b d' n' carry,
    discard_loop dec_field fuel eh d n b = (d', n', carry, None) -> exists fs, ref_run dec_field eh d n b fs d' n' carry.
Proof. exact discard_loop_ref. Qed.
Print Assumptions C09_discard_loop_is_reference.

Theorem C09_header_loop_is_reference :
  forall hstate (dec_field : hstate -> N -> bytes -> dec_res hstate) cfg fuel eh d h b d' h' e rest,
    header_loop dec_field fuel cfg eh d h b = (d', h', e, rest) -> header_loop_spec hstate dec_field cfg eh d h b d' h' e rest.
Proof. exact header_loop_ref. Qed.
Print Assumptions C09_header_loop_is_reference.

Theorem C09_decode_then_discard :
  forall hstate (dec_field : hstate -> N -> bytes -> dec_res hstate) eh d n b fs1 d1 n1 rest fs2 d2 n2 carry,
    ref_pre dec_field d n b fs1 d1 n1 rest -> ref_run dec_field eh d1 n1 rest fs2 d2 n2 carry ->
    ref_run dec_field eh d n b (fs1 ++ fs2) d2 n2 carry.
Proof. exact ref_pre_run. Qed.
Print Assumptions C09_decode_then_discard.

(* ONE FRAGMENT. In any state reached by a clean run, when the stream loop takes a HEADERS / CONTINUATION frame
   and this step raises no connection error either: the decoder state afterwards is the reference's (from the
   decoder state before and the ghost n, carry of the run so far), and the carry is where the next CONTINUATION
   will look for it - WHATEVER happens to the stream: dispatched, stream error at any field (the rest of the
   block is decoded and dropped), refused for the concurrency limit or because the connection is closing,
   HEADERS on a stream the server has reset, rest of a block nobody wants. *)
Theorem C09_hpack_fragment :
  forall hstate (dec_field : hstate -> N -> bytes -> dec_res hstate) enc_field enc_set_max cfg h0 evs fr q,
    clean dec_field enc_field enc_set_max cfg h0 evs ->
    let c := run dec_field enc_field enc_set_max cfg h0 evs in
    let c' := step dec_field enc_field enc_set_max cfg c EvSL in
    sc_sl_done c = false -> sc_readerQ c = fr :: q -> is_hdr_frame fr = true ->
    sc_wl_dead c = false -> (gcount (sc_out c') <= gcount (sc_out c))%nat ->
    exists n carry fs n' carry',
      ref_frames dec_field (h0, 0, []) (hframes dec_field enc_field enc_set_max cfg h0 evs) (sc_dec c, n, carry) /\
      ref_run dec_field (eh_of fr) (sc_dec c) (if is_cont fr then n else 0)
              ((if is_cont fr then carry else []) ++ sf_payload fr) fs (sc_dec c') n' carry' /\
      (eh_of fr = true -> carry' = []) /\
      (eh_of fr = false -> sc_sl_done c' = false -> carry_at c' (sf_sid fr) = Some (n', carry')).
Proof. exact hdr_step_reference_explicit. Qed.
Print Assumptions C09_hpack_fragment.

(* the converse frame condition: no other step (DATA, RST_STREAM, WINDOW_UPDATE, SETTINGS, a handler returning,
   timers, the read loop, ...) changes the decoder state - in ANY state *)
Theorem C09_hpack_frame_condition :
  forall hstate (dec_field : hstate -> N -> bytes -> dec_res hstate) enc_field enc_set_max cfg (c : sconn hstate) e,
    hdr_taken c e = [] -> sc_dec (step dec_field enc_field enc_set_max cfg c e) = sc_dec c.
Proof. exact dec_frame_condition. Qed.
Print Assumptions C09_hpack_frame_condition.

(* A WHOLE RUN: the decoder state is the reference folded over the fragments handled, in order *)
Theorem C09_hpack_run :
  forall hstate (dec_field : hstate -> N -> bytes -> dec_res hstate) enc_field enc_set_max cfg h0 evs,
    clean dec_field enc_field enc_set_max cfg h0 evs ->
    exists n carry, ref_frames dec_field (h0, 0, []) (hframes dec_field enc_field enc_set_max cfg h0 evs)
                      (sc_dec (run dec_field enc_field enc_set_max cfg h0 evs), n, carry).
Proof. exact dec_is_reference. Qed.
Print Assumptions C09_hpack_run.

(* ... hence it does not depend on the fate of any stream: two runs with any two configurations (limits), any
   other frames, handler completions, timers - same fragments in the same order, same decoder state *)
Theorem C09_hpack_independent_of_stream_fates :
  forall hstate (dec_field : hstate -> N -> bytes -> dec_res hstate) enc_field enc_field' enc_set_max enc_set_max' h0
         cfg cfg' evs evs',
    clean dec_field enc_field enc_set_max cfg h0 evs -> clean dec_field enc_field' enc_set_max' cfg' h0 evs' ->
    map frag (hframes dec_field enc_field enc_set_max cfg h0 evs) = map frag (hframes dec_field enc_field' enc_set_max' cfg' h0 evs') ->
    sc_dec (run dec_field enc_field enc_set_max cfg h0 evs) = sc_dec (run dec_field enc_field' enc_set_max' cfg' h0 evs').
Proof. exact hpack_state_independent. Qed.
Print Assumptions C09_hpack_independent_of_stream_fates.

(* for the real HPACK instance the reference is the header-block loop of Impl/Hpack.v - the function C03 proves to be
   RFC 7541 and independent of where a block is cut (C03_dec_refines_spec, C03_split_invariance): whenever that
   loop accepts a frame of a block, the server's reference decodes it the same way (fields, decoder state,
   blockFields, previousHeaderBytes) *)
Theorem C09_reference_is_hpack_model : forall hp st payload eh ic fs hp' st',
  Hpack.handle_header_frame hp st (payload, eh, ic) = Ok (fs, hp', st') ->
  ref_run srv_dec_field eh hp (if ic then s_block_fields st else 0) (s_prev st ++ payload) (map kv_of fs) hp'
          (s_block_fields st') (s_prev st').
Proof. exact ref_run_of_hpack_frame. Qed.
Print Assumptions C09_reference_is_hpack_model.

(* ================= (b) stream errors stay stream errors ================= *)

(* A step of the stream loop - a frame, a handler completion, the request timer: the only steps that send
   RST_STREAM - that produces no error output leaves sc_closing / sc_closeRef / sc_rl_done as they were, and ends
   the stream loop only to complete a shutdown already under way (the connection was closing: GOAWAY sent
   earlier) or because the read loop has ended and its queue is drained.
   [The statement "sc_sl_done is unchanged" is FALSE: after a graceful GOAWAY the last stream's RST_STREAM
   completes the shutdown in the same step.] *)
Theorem C09_stream_errors_stay :
  forall hstate (dec_field : hstate -> N -> bytes -> dec_res hstate) enc_field enc_set_max cfg h0 evs e,
    clean dec_field enc_field enc_set_max cfg h0 evs -> sl_event e ->
    let c := run dec_field enc_field enc_set_max cfg h0 evs in
    let c' := step dec_field enc_field enc_set_max cfg c e in
    sc_wl_dead c = false -> (gcount (sc_out c') <= gcount (sc_out c))%nat ->
    sc_closing c' = sc_closing c /\ sc_closeRef c' = sc_closeRef c /\ sc_rl_done c' = sc_rl_done c /\
    (sc_sl_done c' = sc_sl_done c \/
     (sc_sl_done c' = true /\ (sc_closing c = true \/ (e = EvSL /\ sc_readerQ c = [] /\ sc_rl_done c = true)))).
Proof. exact stream_errors_stay. Qed.
Print Assumptions C09_stream_errors_stay.

(* The catalogue: which stream-scoped failure produces which reaction. *)
(* a field that is refused: PROTOCOL_ERROR, or ENHANCE_YOUR_CALM for a content-length above the body limit ... *)
Theorem C09_cat_malformed_field : forall cfg h k v code,
  header_field cfg h k v = inl (EReset code) ->
  code = c_ProtocolError \/ (code = c_EnhanceYourCalm /\ bytes_eqb k S_content_length = true).
Proof. exact cat_malformed_field. Qed.
Print Assumptions C09_cat_malformed_field.

(* ... what handle_frame makes of a HEADERS / CONTINUATION frame: hf_out lists the outcomes; in the stream-error
   one (hfo_reset) the WHOLE fragment has been decoded (ref_run over all its bytes) ... *)
Theorem C09_cat_header_frame_outcomes :
  forall hstate (dec_field : hstate -> N -> bytes -> dec_res hstate) cfg (c : sconn hstate) s fr,
    is_hdr_kind (sf_kind fr) = true ->
    hf_out dec_field cfg c s fr (fst (fst (handle_frame dec_field cfg c s fr))) (snd (fst (handle_frame dec_field cfg c s fr)))
           (snd (handle_frame dec_field cfg c s fr)).
Proof. exact handle_frame_hdr_spec. Qed.
Print Assumptions C09_cat_header_frame_outcomes.

(* ... and the reaction to a stream error on an unanswered stream: RST_STREAM with that code, the stream is
   closed; nothing else *)
Theorem C09_cat_stream_error_reaction :
  forall hstate cfg (c3 : sconn hstate) s3 code fr wc,
    fkind_eqb (sf_kind fr) KRst = false -> st_responded s3 = false ->
    ftail_rest cfg c3 s3 (Some (EReset code)) fr wc =
    (let s5 := set_state (set_state (set_weReset s3) SClosed) SClosed in
     let cc := close_stream (put (write_reset c3 (st_id s3) code) s5) s5 in
     if wc && can_close_after_goaway cc then brk cc else cont cc).
Proof. exact cat_stream_error_reaction. Qed.
Print Assumptions C09_cat_stream_error_reaction.

Theorem C09_cat_body_over_limit :
  forall hstate (dec_field : hstate -> N -> bytes -> dec_res hstate) cfg (c : sconn hstate) s fr,
    sf_kind fr = KData -> verify_state s fr = None -> st_headersFinished s = true -> sstate_rank (st_state s) < 3 ->
    (0 < cf_maxBody cfg)%Z -> (cf_maxBody cfg < st_recvBody s + Z.of_N (len (sf_payload fr)))%Z ->
    handle_frame dec_field cfg c s fr =
    (credit_conn_window cfg c (Z.of_N (sf_len fr)),
     set_recv s (st_recvBody s + Z.of_N (len (sf_payload fr)))%Z (st_req s), Some (EReset c_EnhanceYourCalm)).
Proof. exact cat_body_over_limit. Qed.
Print Assumptions C09_cat_body_over_limit.

Theorem C09_cat_refused :
  forall hstate (dec_field : hstate -> N -> bytes -> dec_res hstate) enc_set_max cfg (c : sconn hstate) fr,
    sf_kind fr = KHeaders -> sf_sid fr <> 0 ->
    (if sf_sid fr <=? sc_lastID c then strms_search (sc_strms c) (sf_sid fr) else None) = None ->
    in_ring c (sf_sid fr) = false -> sc_highestID c < sf_sid fr ->
    ((cf_maxStreams cfg <=? sc_open c)%Z || sc_closing c)%bool = true ->
    sl_frame dec_field enc_set_max cfg c fr =
    discard_or_break (discard_header_block dec_field cfg
      (mark_closed (write_reset (upd_highestID c (sf_sid fr)) (sf_sid fr) c_RefusedStreamError) (sf_sid fr) true) fr).
Proof. exact cat_refused. Qed.
Print Assumptions C09_cat_refused.

(* the peer cancels a stream that is not idle, at any point: nothing is sent; the stream is closed
   (closeStream keeps the slot while the handler runs: sc_gone_close_stream / sc_open_close_stream in SrvBase) *)
Theorem C09_cat_peer_rst :
  forall hstate (dec_field : hstate -> N -> bytes -> dec_res hstate) cfg (c : sconn hstate) s fr,
    sf_kind fr = KRst -> st_state s <> SIdle ->
    handle_frame dec_field cfg c s fr = (c, s, None) /\ handle_state fr s = set_state s SClosed.
Proof. exact cat_peer_rst. Qed.
Print Assumptions C09_cat_peer_rst.

Theorem C09_cat_peer_rst_close :
  forall hstate cfg (c : sconn hstate) s fr wc,
    sf_kind fr = KRst -> (st_responded s && negb (st_handlerRunning s) && has_more_to_send s)%bool = false ->
    after_frame cfg c s fr wc =
    (let s' := set_state s SClosed in let cc := close_stream (put c s') s' in
     if wc && can_close_after_goaway cc then brk cc else cont cc).
Proof. exact cat_peer_rst_close. Qed.
Print Assumptions C09_cat_peer_rst_close.

Theorem C09_cat_window_overflow :
  forall hstate (dec_field : hstate -> N -> bytes -> dec_res hstate) cfg (c : sconn hstate) s fr,
    sf_kind fr = KWinUpd -> verify_state s fr = None -> st_state s <> SIdle -> sf_inc fr <> 0 ->
    (MAXWIN < st_window s + Z.of_N (sf_inc fr))%Z ->
    handle_frame dec_field cfg c s fr = (c, set_window s (st_window s + Z.of_N (sf_inc fr)), Some (EReset c_FlowControlError)).
Proof. exact cat_window_overflow. Qed.
Print Assumptions C09_cat_window_overflow.

(* frames in flight for a stream the server has reset: DATA is dropped and the connection window credited; a header
   block is decoded and dropped - never a GOAWAY, unless the block itself does not decode *)
Theorem C09_cat_inflight_data :
  forall hstate (dec_field : hstate -> N -> bytes -> dec_res hstate) enc_set_max cfg (c : sconn hstate) fr,
    sf_kind fr = KData -> sf_sid fr <> 0 ->
    (if sf_sid fr <=? sc_lastID c then strms_search (sc_strms c) (sf_sid fr) else None) = None ->
    in_ring c (sf_sid fr) = true -> ring_find c (sf_sid fr) = Some true ->
    sl_frame dec_field enc_set_max cfg c fr = cont (credit_conn_window cfg c (Z.of_N (sf_len fr))).
Proof. exact cat_inflight_data. Qed.
Print Assumptions C09_cat_inflight_data.

Theorem C09_cat_inflight_headers :
  forall hstate (dec_field : hstate -> N -> bytes -> dec_res hstate) enc_set_max cfg (c : sconn hstate) fr,
    sf_kind fr = KHeaders -> sf_sid fr <> 0 ->
    (if sf_sid fr <=? sc_lastID c then strms_search (sc_strms c) (sf_sid fr) else None) = None ->
    in_ring c (sf_sid fr) = true -> ring_find c (sf_sid fr) = Some true ->
    sl_frame dec_field enc_set_max cfg c fr = discard_or_break (discard_header_block dec_field cfg c fr).
Proof. exact cat_inflight_headers. Qed.
Print Assumptions C09_cat_inflight_headers.

Theorem C09_cat_inflight_continuation :
  forall hstate (dec_field : hstate -> N -> bytes -> dec_res hstate) enc_set_max cfg (c : sconn hstate) fr,
    sf_kind fr = KCont -> sf_sid fr <> 0 -> sc_discardID c = sf_sid fr ->
    sl_frame dec_field enc_set_max cfg c fr = discard_or_break (discard_header_block dec_field cfg c fr).
Proof. exact cat_inflight_continuation. Qed.
Print Assumptions C09_cat_inflight_continuation.

Theorem C09_cat_discard_outcome :
  forall hstate (dec_field : hstate -> N -> bytes -> dec_res hstate) cfg (c : sconn hstate) fr,
    df_out dec_field (if fkind_eqb (sf_kind fr) KCont then c else upd_discard c (sc_discardID c) [] 0) (sf_sid fr) (sf_payload fr)
           (flag_has (sf_flags fr) FL_EH)
           (fst (discard_header_block dec_field cfg c fr)) (snd (discard_header_block dec_field cfg c fr)).
Proof. exact cat_discard_outcome. Qed.
Print Assumptions C09_cat_discard_outcome.

(* THE ONE EXCEPTION (known finding; pinned by the baseline test TestContinuationFlood): the header LIST limit.
   over_header_list_limit cfg size: a configured limit (cf_maxHeaderList > 0) is exceeded by `size`. header_field
   raises a CONNECTION error exactly when the list size so far + this field (name + value + 32) is over it ... *)
Theorem C09_header_list_limit_exception : forall cfg h k v code,
  header_field cfg h k v = inl (EGoAway code) <->
  code = c_EnhanceYourCalm /\ over_header_list_limit cfg (hd_headerListSize h + field_size k v) = true.
Proof. exact header_field_goaway_iff. Qed.
Print Assumptions C09_header_list_limit_exception.

(* ... and OUTSIDE the exception a malformed request is a stream error, never a connection error: a HEADERS /
   CONTINUATION frame that is acceptable in its stream's state (verify_state, rank_ok, trailer_ok, no
   self-dependency) and whose fragment decodes (ref_run), with the header list and the carried incomplete field
   within the limit, gives no error or a stream error (EReset: C09_cat_malformed_field for the codes,
   C09_cat_stream_error_reaction and C09_stream_errors_stay for what follows). dec_shrinks: a decoded field consumes
   at least one octet - for the real decoder: C09_srv_dec_shrinks below. *)
Theorem C09_malformed_request_is_stream_error :
  forall cfg hstate (dec_field : hstate -> N -> bytes -> dec_res hstate),
    (forall d n b k v rest d', dec_field d n b = DField _ k v rest d' -> (length rest < length b)%nat) ->
    forall (c : sconn hstate) s fr fs d' n' carry',
      is_hdr_kind (sf_kind fr) = true -> verify_state s fr = None -> rank_ok s fr -> trailer_ok s fr ->
      (fkind_eqb (sf_kind fr) KHeaders && (sf_dep fr =? st_id s))%bool = false ->
      ref_run dec_field (eh_of fr) (sc_dec c) (hn0 s fr) (hb0 s fr) fs d' n' carry' ->
      over_header_list_limit cfg (st_headerListSize s + fields_size fs) = false ->
      over_header_list_limit cfg (Z.of_N (len carry')) = false ->
      snd (handle_frame dec_field cfg c s fr) = None \/
      exists code, snd (handle_frame dec_field cfg c s fr) = Some (EReset code).
Proof. exact header_frame_not_fatal. Qed.
Print Assumptions C09_malformed_request_is_stream_error.

Theorem C09_srv_dec_shrinks : forall d n b k v rest d',
  srv_dec_field d n b = DField _ k v rest d' -> (length rest < length b)%nat.
Proof. exact srv_dec_shrinks. Qed.
Print Assumptions C09_srv_dec_shrinks.

(* ================= (c) non-interference ================= *)

(* Each step only touches the stream it is about (step_own: the stream of the frame the stream loop takes, the
   stream whose handler returns). In any clean run, after any step, every OTHER stream still in the table was
   there before with the same id, the same request collected so far (rqv: pseudo-header flags, content-length,
   header-list size, path, the request record with its fields and body, body bytes received) and the same
   position in its header block (hv: headersFinished, previousHeaderBytes, blockFields) - whatever the step did
   to its own stream (reset it, refused it, dropped its in-flight frames, ...). Together with
   C09_hpack_independent_of_stream_fates (the shared decoder state depends on the fragments only) this is the
   request side of non-interference. *)
Theorem C09_other_streams_untouched :
  forall hstate (dec_field : hstate -> N -> bytes -> dec_res hstate) enc_field enc_set_max cfg h0 evs e,
    clean dec_field enc_field enc_set_max cfg h0 evs ->
    let c := run dec_field enc_field enc_set_max cfg h0 evs in
    let c' := step dec_field enc_field enc_set_max cfg c e in
    clean_step dec_field enc_field enc_set_max cfg c e -> sc_sl_done c' = false ->
    forall x, In x (sc_strms c') -> st_id x <> step_own c e ->
    exists s, In s (sc_strms c) /\ st_id s = st_id x /\ rqv x = rqv s /\ hv x = hv s.
Proof. exact other_streams_untouched. Qed.
Print Assumptions C09_other_streams_untouched.

(* THE FULL STATEMENT (two-run form). `about_stream g o` (Proofs/SrvIsoTwoRun.v): the output o is a frame, a
   dispatch or a release of stream g.
   Dropping from a run a DATA frame that was in flight for a stream the server had reset (it is in the ring with
   weReset, not in the table) changes nothing that concerns any stream.

   How it is proved (Proofs/SrvIsoTwoRun.v). The reaction to such a frame is C09_cat_inflight_data: the connection
   receive window is credited, nothing else - and the credit is DEFERRED (credit_conn_window: sc_currentWindow is
   lowered; a connection-level WINDOW_UPDATE is queued only when it falls under half of cf_maxWindow). So after the
   cut the two runs differ in sc_currentWindow and, sooner or later, in the connection-level WINDOW_UPDATEs of
   sc_out. The relation
       R c c'  :=  c and c' agree on every field but sc_currentWindow and sc_out, and
                   filt (sc_out c) = filt (sc_out c')     (filt strikes out OWinUpd 0 _ and OLate (OWinUpd 0 _))
   is preserved by every function of the model applied to both sides (sc_currentWindow is read by credit_conn_window
   only, where it decides nothing but when that WINDOW_UPDATE goes out; sc_out is never read), hence by every step
   with the same event (C09_two_run_invariant) and every continuation of the two runs.
   [The model has no receive-window enforcement: the server never checks that the peer stays within the window it
   announced, so sc_currentWindow can influence nothing else. A server that enforced it (FLOW_CONTROL_ERROR) would
   need the extra hypothesis that the peer respects the window in both runs.]
   The frame reaches the stream loop because ids in the ring are odd (C09_ring_ids_odd: an invariant of all runs:
   the read loop lets no even stream id through). If the stream loop has already ended at the cut, the read loop
   stops at the frame instead (OExit 0 2) and neither run says anything more about any stream. *)
From H2V Require Import Proofs.SrvIsoTwoRunOdd Proofs.SrvIsoTwoRun Proofs.SrvIsoTwoRunEx.

Definition C09_noninterference_statement : Prop :=
  forall hstate (dec_field : hstate -> N -> bytes -> dec_res hstate) enc_field enc_set_max cfg h0 evs1 fr evs2 g,
    let c1 := run dec_field enc_field enc_set_max cfg h0 evs1 in
    sf_kind fr = KData -> sf_sid fr <> 0 -> sf_sid fr <> g -> g <> 0 ->
    strms_search (sc_strms c1) (sf_sid fr) = None -> ring_find c1 (sf_sid fr) = Some true ->
    sc_readerQ c1 = [] -> sc_rl_done c1 = false -> sc_expectCont c1 = 0 ->
    clean dec_field enc_field enc_set_max cfg h0 (evs1 ++ [EvRL (RFrame fr); EvSL] ++ evs2) ->
    filter (about_stream g) (trace (run dec_field enc_field enc_set_max cfg h0 (evs1 ++ [EvRL (RFrame fr); EvSL] ++ evs2))) =
    filter (about_stream g) (trace (run dec_field enc_field enc_set_max cfg h0 (evs1 ++ evs2))).

Theorem C09_noninterference : C09_noninterference_statement.
Proof. exact noninterference_as_stated. Qed.
Print Assumptions C09_noninterference.

(* the same without `clean` (the rest of the run may contain anything: connection errors, a dead write loop, a
   stream loop that has ended) and for g = the reset stream too *)
Theorem C09_noninterference_any_run :
  forall hstate (dec_field : hstate -> N -> bytes -> dec_res hstate) enc_field enc_set_max cfg h0 evs1 fr evs2 g,
    let c1 := run dec_field enc_field enc_set_max cfg h0 evs1 in
    sf_kind fr = KData -> sf_sid fr <> 0 -> g <> 0 ->
    strms_search (sc_strms c1) (sf_sid fr) = None -> ring_find c1 (sf_sid fr) = Some true ->
    sc_readerQ c1 = [] -> sc_rl_done c1 = false -> sc_expectCont c1 = 0 ->
    filter (about_stream g) (trace (run dec_field enc_field enc_set_max cfg h0 (evs1 ++ [EvRL (RFrame fr); EvSL] ++ evs2))) =
    filter (about_stream g) (trace (run dec_field enc_field enc_set_max cfg h0 (evs1 ++ evs2))).
Proof. exact noninterference. Qed.
Print Assumptions C09_noninterference_any_run.

(* what does NOT change, at full strength: while the stream loop runs at the cut, the two final STATES are related by
   R - same stream table, abandoned streams, counters, ring, ids, send window, HPACK encoder and decoder, closing /
   done / closer / write-loop flags, reader queue, clock, discard registers; same outputs in the same order but for
   connection-level WINDOW_UPDATEs *)
Theorem C09_two_runs_related :
  forall hstate (dec_field : hstate -> N -> bytes -> dec_res hstate) enc_field enc_set_max cfg h0 evs1 fr evs2,
    let c1 := run dec_field enc_field enc_set_max cfg h0 evs1 in
    sf_kind fr = KData -> sf_sid fr <> 0 ->
    strms_search (sc_strms c1) (sf_sid fr) = None -> ring_find c1 (sf_sid fr) = Some true ->
    sc_readerQ c1 = [] -> sc_rl_done c1 = false -> sc_expectCont c1 = 0 -> sc_sl_done c1 = false ->
    R (run dec_field enc_field enc_set_max cfg h0 (evs1 ++ [EvRL (RFrame fr); EvSL] ++ evs2))
      (run dec_field enc_field enc_set_max cfg h0 (evs1 ++ evs2)).
Proof. exact two_runs_related. Qed.
Print Assumptions C09_two_runs_related.

(* the relational invariant itself: in ANY two states *)
Theorem C09_two_run_invariant :
  forall hstate (dec_field : hstate -> N -> bytes -> dec_res hstate) enc_field enc_set_max cfg (c c' : sconn hstate) e,
    R c c' -> R (step dec_field enc_field enc_set_max cfg c e) (step dec_field enc_field enc_set_max cfg c' e).
Proof. exact R_step. Qed.
Print Assumptions C09_two_run_invariant.

(* what R gives for one stream's view of the trace *)
Theorem C09_related_outputs : forall g l, g <> 0 -> filter (about_stream g) (filt l) = filter (about_stream g) l.
Proof. exact about_filt. Qed.
Print Assumptions C09_related_outputs.

(* ids remembered in the ring of closed streams are odd, in every run *)
Theorem C09_ring_ids_odd :
  forall hstate (dec_field : hstate -> N -> bytes -> dec_res hstate) enc_field enc_set_max cfg h0 evs id b,
    ring_find (run dec_field enc_field enc_set_max cfg h0 evs) id = Some b -> N.land id 1 = 1.
Proof. exact ring_ids_odd. Qed.
Print Assumptions C09_ring_ids_odd.

(* ================= examples (real HPACK instance; by computation) ================= *)
(* One connection (at most 2 concurrent streams): stream 1 stays open; stream 3 has a malformed field in a HEADERS
   frame cut in the middle of a later field, its CONTINUATION brings the rest; stream 5 refers to the table
   entry added by the dropped part of stream 3's block; stream 7 is refused, its block adds an entry; stream 9
   refers to it. The run is clean, the stream loop has handled six fragments, the decoder state is the
   reference folded over them, and both later requests are dispatched with the right field. *)
Example C09_example_run :
  clean srv_dec_field srv_enc_field set_max_table_size ex_cfg srv_init_hpack ex_evs /\
  map frag (hframes srv_dec_field srv_enc_field set_max_table_size ex_cfg srv_init_hpack ex_evs) =
    [(false, true, [130;132;135; 64;1;97;1;98]); (false, false, [130; 0;1;65;1;98; 64;1;99]); (true, true, [1;100]);
     (false, true, [130;132;135;190]); (false, true, [64;1;103;1;104]); (false, true, [130;132;135;190])] /\
  ref_frames srv_dec_field (srv_init_hpack, 0, []) (hframes srv_dec_field srv_enc_field set_max_table_size ex_cfg srv_init_hpack ex_evs)
             (sc_dec (srv_run ex_cfg ex_evs), 4, []) /\
  srv_trace (srv_run ex_cfg ex_evs) =
    [ORst 3 c_ProtocolError; ORelease 3 true; ODispatch 5 (ex_req [([99],[100])]); ORst 7 c_RefusedStreamError;
     OHeaders 5 false [136]; OData 5 true [1;2;3]; ORelease 5 true; ODispatch 9 (ex_req [([103],[104])])].
Proof.
  split; [exact ex_clean|]. split; [exact ex_frags|]. split; [|exact ex_trace].
  apply ref_fold_sound. exact ex_reference.
Qed.
Print Assumptions C09_example_run.

(* a second run with other limits (nothing is refused) and other fates (stream 1 answered, stream 7 malformed):
   same fragments in the same order, hence (C09_hpack_independent_of_stream_fates) the same decoder state *)
Example C09_example_two_runs :
  clean srv_dec_field srv_enc_field set_max_table_size ex_cfg' srv_init_hpack ex_evs' /\
  map frag (hframes srv_dec_field srv_enc_field set_max_table_size ex_cfg' srv_init_hpack ex_evs') =
  map frag (hframes srv_dec_field srv_enc_field set_max_table_size ex_cfg srv_init_hpack ex_evs) /\
  srv_trace (srv_run ex_cfg' ex_evs') =
    [ODispatch 1 (ex_req [([97],[98])]); OHeaders 1 true [137]; ORelease 1 true;
     ORst 3 c_ProtocolError; ORelease 3 true; ODispatch 5 (ex_req [([99],[100])]);
     ORst 7 c_ProtocolError; ORelease 7 true; ODispatch 9 (ex_req [([103],[104])])] /\
  sc_dec (srv_run ex_cfg' ex_evs') = sc_dec (srv_run ex_cfg ex_evs).
Proof.
  split; [apply cleanb_sound; exact ex_cleanb'|]. split; [exact ex_frags'|]. split; [exact ex_trace'|].
  apply (hpack_state_independent _ srv_dec_field srv_enc_field srv_enc_field set_max_table_size set_max_table_size srv_init_hpack).
  - apply cleanb_sound; exact ex_cleanb'.
  - exact ex_clean.
  - exact ex_frags'.
Qed.
Print Assumptions C09_example_two_runs.

(* the exception is real (model and code agree: serverConn.go:1419 GOAWAY ENHANCE_YOUR_CALM): with a header list
   limit of 200, stream 1 is open and waiting for its body; the header list of stream 3 comes to 229 octets: GOAWAY,
   the stream loop ends, stream 1 is lost with the connection *)
Example C09_header_list_limit_is_connection_error :
  srv_trace (srv_run ex_cfg_limit ex_evs_oversized) = [OGoAway 3 c_EnhanceYourCalm; OExit 1 0].
Proof. exact ex_oversized_header_list. Qed.

(* (c) on an example: stream 3 is reset (malformed field); DATA and a trailer block for it are still in flight: the
   DATA is dropped, the block decoded and dropped - stream 5, opened later, refers to the table entry that block
   added, and streams 1 and 5 complete with exactly the right request and response *)
Example C09_example_inflight :
  filter (about [1;5]) (srv_trace (srv_run n_cfg (n_common1 ++ n_inflight ++ n_common2))) =
  [ODispatch 5 (ex_req [([116],[117])]); ODispatch 1 (mkReq [80;79;83;84] [47] [104;116;116;112;115] None [([97],[98])] [120]);
   OHeaders 5 false [136]; OData 5 true [53]; ORelease 5 true; OHeaders 1 false [136]; OData 1 true [49]; ORelease 1 true].
Proof. exact n_with_inflight. Qed.

(* (b): why "sc_sl_done unchanged" cannot be claimed: the last step below (trailers with an upper-case name on
   stream 1) emits RST_STREAM and no GOAWAY, and ends the stream loop - the connection was closing since the
   GOAWAY(STREAM_CLOSED) drawn by DATA on the finished stream 3 *)
Example C09_example_shutdown_completes :
  srv_trace (srv_run ex_cfg' (removelast sd_evs)) =
    [ODispatch 3 (ex_req []); OHeaders 3 true [137]; ORelease 3 true; OGoAway 3 c_StreamClosedError] /\
  srv_trace (srv_run ex_cfg' sd_evs) =
    [ODispatch 3 (ex_req []); OHeaders 3 true [137]; ORelease 3 true; OGoAway 3 c_StreamClosedError;
     ORst 1 c_ProtocolError; ORelease 1 true; OExit 1 0].
Proof. split; [exact sd_before | exact sd_after]. Qed.

(* (c), the two runs (real HPACK instance). Stream 1: POST, body to come; stream 3: a field with an upper-case name:
   reset. The cut: a padded DATA frame for stream 3 that was in flight (3 octets of data, 40000 on the wire). Then
   stream 5 (refers to the table entry of stream 1's block), stream 1's body, both handlers return. The hypotheses of
   C09_noninterference hold at the cut (stream 1 is open in the table, 3 is in the ring with weReset); the longer run
   is clean; the two traces differ in the connection-level WINDOW_UPDATE only; stream 1's view is the same. *)
Example C09_example_noninterference :
  (let c1 := srv_run t_cfg t_evs1 in
   sf_kind t_fr = KData /\ sf_sid t_fr = 3 /\ N.land (sf_sid t_fr) 1 = 1 /\ len (sf_payload t_fr) < sf_len t_fr /\
   strms_search (sc_strms c1) (sf_sid t_fr) = None /\ ring_find c1 (sf_sid t_fr) = Some true /\
   map st_id (sc_strms c1) = [1] /\
   sc_readerQ c1 = [] /\ sc_rl_done c1 = false /\ sc_sl_done c1 = false /\ sc_expectCont c1 = 0) /\
  clean srv_dec_field srv_enc_field set_max_table_size t_cfg srv_init_hpack (t_evs1 ++ [EvRL (RFrame t_fr); EvSL] ++ t_evs2) /\
  srv_trace (srv_run t_cfg (t_evs1 ++ [EvRL (RFrame t_fr); EvSL] ++ t_evs2)) =
    [ORst 3 c_ProtocolError; ORelease 3 true; OWinUpd 0 40000; ODispatch 5 (ex_req [([97],[98])]); ODispatch 1 t_rq1;
     OHeaders 5 false [136]; OData 5 true [53]; ORelease 5 true; OHeaders 1 false [136]; OData 1 true [49]; ORelease 1 true] /\
  srv_trace (srv_run t_cfg (t_evs1 ++ t_evs2)) =
    [ORst 3 c_ProtocolError; ORelease 3 true; ODispatch 5 (ex_req [([97],[98])]); ODispatch 1 t_rq1;
     OHeaders 5 false [136]; OData 5 true [53]; ORelease 5 true; OHeaders 1 false [136]; OData 1 true [49]; ORelease 1 true] /\
  filter (about_stream 1) (srv_trace (srv_run t_cfg (t_evs1 ++ [EvRL (RFrame t_fr); EvSL] ++ t_evs2))) =
    [ODispatch 1 t_rq1; OHeaders 1 false [136]; OData 1 true [49]; ORelease 1 true] /\
  filter (about_stream 1) (srv_trace (srv_run t_cfg (t_evs1 ++ t_evs2))) =
    [ODispatch 1 t_rq1; OHeaders 1 false [136]; OData 1 true [49]; ORelease 1 true].
Proof.
  split; [exact t_hyps|]. split; [apply cleanb_sound; exact t_cleanb|]. split; [exact t_trace_with|].
  split; [exact t_trace_without|]. exact t_about_1.
Qed.
Print Assumptions C09_example_noninterference.
