(* C07 - the client never sends DATA beyond the server's windows, and finishes.
   Statements over the client model against the ledger of Spec/FlowLedger.v, phase 1
   (`Definition ... : Prop` + examples by vm_compute). One sendLck critical section together
   with the DATA run it decided is one step of the model (a select case of the write loop);
   the read loop's window updates are steps of their own, so "all interleavings of the read
   loop growing windows with the write loop spending them" is "all event lists". *)
From H2V Require Import Base.Bytes Base.MachineInt Base.Result Gen.GenConsts Impl.Hpack Impl.ServerConn
     Impl.ClientConn Impl.ClientInst Proofs.CliDefs Spec.FlowLedger.
From Coq Require Import ZArith List Bool.
Import ListNotations.
Local Open Scope N_scope.

(* ---------- the history the scripted server's ledger sees ---------- *)

Definition inits_of (d : bytes) : list levent :=
  flat_map (fun kv => if fst kv =? c_MaxWindowSize then [LInit (Z.of_N (snd kv))] else []) (settings_pairs d).

(* what a step means to the ledger: the grants it takes in, then the streams it opens and the DATA it sends *)
Definition ledger_in (e : cli_entry) : list levent :=
  match le_ev e with
  | CEvRL (RFrame fr) =>
    if rl_takes (le_before e) fr then
      match sf_kind fr with
      | KWinUpd => [LGrant (sf_sid fr) (Z.of_N (sf_inc fr))]
      | KSettings =>
        if (sf_sid fr =? 0) && negb (flag_has (sf_flags fr) FL_ES)
        then match cl_settings_deserialize false (sf_payload fr) with Some _ => inits_of (sf_payload fr) | None => [] end
        else []
      | _ => []
      end
    else []
  | _ => []
  end.
Definition ledger_out (items : list coutev) : list levent :=
  flat_map (fun o => match o with
                     | COHeaders sid _ _ => [LOpen sid]
                     | COData sid _ p => [LData sid (Z.of_N (len p))]
                     | _ => []
                     end) items.
Definition cli_ledger (cfg : cl_config) (first : bytes) (evs : list cevent) : list levent :=
  inits_of first ++ flat_map (fun e => ledger_in e ++ ledger_out (le_items e)) (cli_log cfg first evs).

(* the server keeps its own side of RFC 7540 6.9.1: it never grants a window above 2^31-1 *)
Definition server_grants_ok (h : list levent) : Prop :=
  forall pre post, h = pre ++ post ->
    (l_conn (lrun ledger0 pre) <= MAX_WINDOW)%Z /\
    forall sid w, l_strm (lrun ledger0 pre) sid = Some w -> (w <= MAX_WINDOW)%Z.

(* (1) safety, stepwise: every DATA frame fits both windows of the ledger at the moment it is sent *)
Definition c07_ledger_valid : Prop :=
  forall cfg first evs,
    cl_settings_deserialize false first <> None ->
    server_grants_ok (cli_ledger cfg first evs) -> lvalid ledger0 (cli_ledger cfg first evs).

(* (1') safety, totals: cumulative DATA per stream and per connection within what has been granted *)
Definition c07_within_grants : Prop :=
  forall cfg first evs,
    cl_settings_deserialize false first <> None ->
    server_grants_ok (cli_ledger cfg first evs) -> within_grants (cli_ledger cfg first evs).

(* the SETTINGS_MAX_FRAME_SIZE in force after the frames taken in so far *)
Definition last_max_frame (cur : N) (d : bytes) : N :=
  fold_left (fun a kv => if fst kv =? c_MaxFrameSize then snd kv else a) (settings_pairs d) cur.
Fixpoint max_frame_after (cur : N) (log : list cli_entry) : N :=
  match log with
  | [] => cur
  | e :: t =>
    max_frame_after
      (match le_ev e with
       | CEvRL (RFrame fr) =>
         if rl_takes (le_before e) fr && fkind_eqb (sf_kind fr) KSettings && (sf_sid fr =? 0) && negb (flag_has (sf_flags fr) FL_ES)
         then match cl_settings_deserialize false (sf_payload fr) with Some _ => last_max_frame cur (sf_payload fr) | None => cur end
         else cur
       | _ => cur
       end) t
  end.

(* (2) no DATA frame is larger than the server's SETTINGS_MAX_FRAME_SIZE in force when it is sent *)
Definition c07_frame_size : Prop :=
  forall cfg first evs pre e post sid es p,
    cl_settings_deserialize false first <> None ->
    cli_log cfg first evs = pre ++ e :: post -> In (COData sid es p) (le_items e) ->
    len p <= max_frame_after (last_max_frame c_defaultDataFrameSize first) pre.

(* (3) no stall: when the write loop has nothing to do, every body still pending is waiting for a window *)
Definition wl_quiet (c : cst) : bool :=
  cl_wl_live hpack_state c && cl_is_nil (cc_inQ hpack_state c) && negb (cc_winCh hpack_state c).
Definition c07_no_stall : Prop :=
  forall cfg first evs pb,
    let c := cli_run cfg first evs in
    wl_quiet c = true -> In pb (cc_pending hpack_state c) ->
    pb_body pb <> [] /\ (cl_zmin (pb_window pb) (cc_connWindow hpack_state c) <= 0)%Z.

(* (4) END_STREAM at most once per stream, on the last frame the client sends on it *)
Definition c07_end_stream_once : Prop :=
  forall cfg first evs sid,
    let tr := cli_tr cfg first evs in
    (end_streams sid tr <= 1)%nat /\
    forall pre post es p, tr = pre ++ COData sid es p :: post -> end_streams sid pre = 0%nat.

(* (4') what is sent is a prefix of the body, and all of it once END_STREAM is out *)
Definition c07_body_intact : Prop :=
  forall cfg first evs tag x b,
    let c := cli_run cfg first evs in
    let tr := cli_trace c in
    cst_ctx c tag = Some x -> ct_sid x <> 0 -> request_body (ct_req x) = Some b ->
    (exists rest, b = data_bytes (ct_sid x) tr ++ rest) /\
    (end_streams (ct_sid x) tr = 1%nat -> data_bytes (ct_sid x) tr = b).

(* (5) completion: a body the connection has stopped tracking, on a stream nobody gave up, went out whole *)
Definition stream_given_up (c : cst) (sid : N) : bool :=
  existsb (fun o => match o with CORst s _ => s =? sid | _ => false end) (cst_out c ++ cc_outQ hpack_state c).
Definition c07_completes : Prop :=
  forall cfg first evs tag x,
    let c := cli_run cfg first evs in
    cst_ctx c tag = Some x -> In (ct_sid x) (header_ids (cli_trace c)) ->
    cl_pend_get (cc_pending hpack_state c) (ct_sid x) = None ->
    cl_req_find (cc_reqQueued hpack_state c) (ct_sid x) = Some tag ->
    stream_given_up c (ct_sid x) = false -> cl_wl_live hpack_state c = true ->
    end_streams (ct_sid x) (cli_trace c) = 1%nat.

(* ---------- examples ---------- *)

(* initial window 10, a 25-byte body: 10 bytes go out with the request; a connection grant alone
   changes nothing; stream grants of 7 and then 100 let the rest out, END_STREAM on the last frame *)
Definition ex_first_w10 : bytes := [0; 4; 0; 0; 0; 10].
Definition ex_body25 : bytes := map N.of_nat (seq 1 25).
Definition ex_upload : list cevent :=
  [CEvSubmit 0 (ex_post (CBuf ex_body25)) true; CEvWLIn;
   CEvRL (ex_winupd 0 1000); CEvWLWin [];
   CEvRL (ex_winupd 1 7); CEvWLWin [];
   CEvRL (ex_winupd 1 100); CEvWLWin []].
Example c07_ex_upload :
  map (fun x => (fst x, length (snd x))) (data_of 1 (cli_tr ex_cfg ex_first_w10 ex_upload))
  = [(false, 10%nat); (false, 7%nat); (true, 8%nat)]
  /\ data_bytes 1 (cli_tr ex_cfg ex_first_w10 ex_upload) = ex_body25.
Proof. vm_compute. split; reflexivity. Qed.

Example c07_ex_upload_ledger :
  cli_ledger ex_cfg ex_first_w10 ex_upload
  = [LInit 10; LOpen 1; LData 1 10; LGrant 0 1000; LGrant 1 7; LData 1 7; LGrant 1 100; LData 1 8].
Proof. vm_compute. reflexivity. Qed.

(* SETTINGS_INITIAL_WINDOW_SIZE lowered in the middle of an upload drives the stream window
   negative; the same amount granted back does not yet let anything out *)
Example c07_ex_negative_window :
  let evs := [CEvSubmit 0 (ex_post (CBuf ex_body25)) true; CEvWLIn;
              CEvRL (ex_settings 4 3); CEvWLWin []; CEvWLOut;
              CEvRL (ex_winupd 1 7); CEvWLWin []] in
  (map pb_window (cc_pending hpack_state (cli_run ex_cfg ex_first_w10 evs)),
   length (data_of 1 (cli_tr ex_cfg ex_first_w10 evs)))
  = ([0%Z], 1%nat).
Proof. vm_compute. reflexivity. Qed.

(* a body larger than the frame size is cut into frames of at most SETTINGS_MAX_FRAME_SIZE *)
Example c07_ex_frame_split :
  map (fun x => (fst x, len (snd x)))
      (data_of 1 (cli_tr ex_cfg [] [CEvSubmit 0 (ex_post (CBuf (repeat 7 (N.to_nat 40000)))) true; CEvWLIn]))
  = [(false, 16384); (false, 16384); (true, 7232)].
Proof. vm_compute. reflexivity. Qed.
