(* C05 - frames serialise to, and parse from, the RFC 7540 wire layout.
   Only statements here; every proof is one lemma of Proofs/Frames*.v. *)
From Coq Require Import List NArith ZArith Bool.
From H2V Require Import Base.Bytes Base.MachineInt Base.Result Spec.Rfc7540Frames
  Impl.Pools Impl.Frames Impl.FrameView
  Proofs.FramesSpec Proofs.FramesRead Proofs.FramesC16 Proofs.FramesWrite Proofs.FramesForward Proofs.FramesPooled
  Proofs.FramesExamples.   (* compiled with the property so that the examples are checked too *)
Import ListNotations.
Local Open Scope N_scope.

(* the specification is self-consistent: writer and parser are inverse on well-formed frames *)
Theorem C05_spec_parse_write : forall f rest,
  wf f -> spec_parse (spec_write f ++ rest) = Some (f, rest).
Proof. exact spec_parse_write. Qed.
Print Assumptions C05_spec_parse_write.

Theorem C05_spec_write_parse : forall b f rest,
  bytes_ok b = true -> spec_parse b = Some (f, rest) -> b = spec_write f ++ rest /\ wf f.
Proof. exact spec_write_parse. Qed.
Print Assumptions C05_spec_write_parse.

(* read: every well-formed frame an independent writer can produce (any flags octet, any
   padding content, reserved bits set, priority section, up to the limit) is returned with
   exactly its fields - reserved bits ignored, padding stripped - and 9+length bytes taken *)
Theorem C05_read : forall f rest max,
  wf f -> settings_valid (f_body f) = true -> payload_len f <= effective_limit max -> bytes_ok rest = true ->
  let r := read_frame_with_size max (spec_write f ++ rest) in
  ro_res r = Ok (view max f) /\ ro_used r = 9 + payload_len f.
Proof. exact read_written_frame. Qed.
Print Assumptions C05_read.

(* ... except a SETTINGS frame announcing a value RFC 7540 6.5.2 forbids, which is refused *)
Theorem C05_read_bad_settings : forall f rest max,
  wf f -> settings_valid (f_body f) = false -> payload_len f <= effective_limit max -> bytes_ok rest = true ->
  let r := read_frame_with_size max (spec_write f ++ rest) in
  (exists e, ro_res r = Err e /\ (e = E_settings_proto \/ e = E_settings_flow)) /\ ro_used r = 9 + payload_len f.
Proof. exact read_written_bad_settings. Qed.
Print Assumptions C05_read_bad_settings.

(* write: every value of the settable fields, every stream id (reserved bit included), every
   pre-set flags octet, every pad length AddPadding can draw, AND every previous state of the
   FrameHeader (a pooled, reused object: whatever payload, length, type, flags, stream id,
   limit and body it held from an earlier read or write): the bytes are the RFC encoding of
   the frame the value stands for - so they do not depend on the previous state -, an
   independent parser reads that frame back with nothing left over, and the 9-byte header
   carries its length / type / flags / stream id *)
Theorem C05_write : forall prev pre stream bd padn,
  pre < 256 -> stream < 2 ^ 32 -> body_ok bd -> 9 <= padn -> padn < 256 ->
  let fr := frame_of pre stream bd padn in
  payload_len fr < 2 ^ 24 ->
  exists f',
    write_to (build_on prev pre stream bd) padn = Ok (spec_write fr, f') /\
    spec_parse (spec_write fr) = Some (fr, []) /\ wf fr /\
    firstn 9 (spec_write fr) = header_bytes (payload_len fr) (type_code (f_body fr)) (flags_of pre bd)
                                            (top_bit stream) (low31 stream).
Proof. exact write_frame_parses_on. Qed.
Print Assumptions C05_write.

(* the same value written a second time is the same frame again *)
Theorem C05_write_twice : forall prev pre stream bd padn padn2,
  pre < 256 -> stream < 2 ^ 32 -> body_ok bd -> 9 <= padn -> padn < 256 -> 9 <= padn2 -> padn2 < 256 ->
  payload_len (frame_of pre stream bd padn) < 2 ^ 24 ->
  payload_len (frame_of (flags_of pre bd) stream bd padn2) < 2 ^ 24 ->
  exists f1 f2,
    write_to (build_on prev pre stream bd) padn = Ok (spec_write (frame_of pre stream bd padn), f1) /\
    write_to f1 padn2 = Ok (spec_write (frame_of (flags_of pre bd) stream bd padn2), f2).
Proof. exact write_twice_on. Qed.
Print Assumptions C05_write_twice.

(* a different frame written next on the same header (e.g. a SETTINGS ack on the header the
   SETTINGS was read into or written from) goes out as if the header were new *)
Theorem C05_write_after_write : forall prev pre stream bd padn pre2 stream2 bd2 padn2,
  pre < 256 -> stream < 2 ^ 32 -> body_ok bd -> 9 <= padn -> padn < 256 ->
  payload_len (frame_of pre stream bd padn) < 2 ^ 24 ->
  pre2 < 256 -> stream2 < 2 ^ 32 -> body_ok bd2 -> 9 <= padn2 -> padn2 < 256 ->
  payload_len (frame_of pre2 stream2 bd2 padn2) < 2 ^ 24 ->
  exists f1 f2,
    write_to (build_on prev pre stream bd) padn = Ok (spec_write (frame_of pre stream bd padn), f1) /\
    write_to (build_on f1 pre2 stream2 bd2) padn2 = Ok (spec_write (frame_of pre2 stream2 bd2 padn2), f2).
Proof. exact write_after_write. Qed.
Print Assumptions C05_write_after_write.

(* SETTINGS: a peer applying the parameters on the wire to the RFC's initial values holds
   exactly the values of the accessors (zero values and "push disabled" included) *)
Theorem C05_settings_meaning : forall st,
  st_frameSize st <> 0 -> apply_settings initial_params (sent_settings st) = params_of st.
Proof. exact settings_meaning. Qed.
Print Assumptions C05_settings_meaning.

(* a frame that was read, written back out (pre-set flags = the flags that were read):
   for every type but SETTINGS the frame on the wire is well-formed and reads back to the
   same accessor values *)
Theorem C05_forward_preserves_view : forall f rest max,
  wf f -> not_settings (f_body f) -> payload_len f <= effective_limit max -> bytes_ok rest = true ->
  exists fr out f' g,
    ro_res (read_frame_with_size max (spec_write f ++ rest)) = Ok fr /\
    write_to fr 9 = Ok (out, f') /\ spec_parse out = Some (g, []) /\ wf g /\
    f_stream g = f_stream f /\ f_rsv g = false /\
    view_body (f_flags g) (f_body g) = view_body (f_flags f) (f_body f).
Proof. exact forward_preserves_view. Qed.
Print Assumptions C05_forward_preserves_view.

(* SETTINGS written back: the frame carries the state the accessors hold *)
Theorem C05_forward_settings_meaning : forall items fl sid rest max,
  let f := mkFrame fl false sid (Settings items) in
  wf f -> settings_valid (f_body f) = true -> flag fl ACK = false ->
  payload_len f <= effective_limit max -> bytes_ok rest = true ->
  exists fr st out f' items',
    ro_res (read_frame_with_size max (spec_write f ++ rest)) = Ok fr /\
    fh_body fr = Some (BSettings st) /\
    write_to fr 9 = Ok (out, f') /\
    spec_parse out = Some (mkFrame (flags_of fl (BSettings st)) false sid (Settings items'), []) /\
    apply_settings initial_params items' = params_of st.
Proof. exact forward_settings_meaning. Qed.
Print Assumptions C05_forward_settings_meaning.

(* ... but not the frame that came in: faithful forwarding is false of SETTINGS
   (witness: [ENABLE_PUSH=1] goes out as [MAX_CONCURRENT_STREAMS=100]). Outside the literal
   statement of C05; recorded because forwarding is what examples/proxy does. *)
Theorem C05_forward_faithful_refuted : ~ forward_faithful_statement.
Proof. exact forward_faithful_refuted. Qed.
Print Assumptions C05_forward_faithful_refuted.
