(* Blocking structure ("Teardown"): the part of C10 (iv), C12 and C17 that the functional connection
   models cannot express.  Statements only; model: Impl/Teardown.v (two labelled transition systems,
   data erased: program points, channel occupancy against a symbolic capacity [cap], closed flags,
   holders of Ctx.lck / bwLck); proofs: Proofs/Teardown*.v (collected in Proofs/TeardownProofs.v); notes, the correspondence with the
   Go lines and the findings in prose: tools/teardown_notes.md.

   Everything holds for every capacity cap >= 1 (the Go code uses 128) and every interleaving.

   Vocabulary (Impl/Teardown.v):
     guard cap a s / eff a s     the action a is enabled in s / its effect; is_env marks the peer,
                                 the user's handler, the clocks, a user calling Close
     reachable cap s             reachable from an initial state
     path guard eff ok s l s'    finite path whose actions all satisfy ok
     run, fair, sfair, leadsto   infinite runs (stuttering allowed), weak / strong fairness towards a
                                 group of actions, "every instant where P holds is followed by one
                                 where Q holds"
   Server:  dead s = gone s || sclosed s (reads and writes fail); sl_exited (the stream loop has
     left its loop), sv_leaving (the read loop is on its way out of readLoop), loops_exited (Serve
     has returned and ServeConn closed the socket; the stream-loop and write-loop goroutines are
     gone), quiet (besides, no handler is parked and no timer callback is running).
   Client:  one request X is followed; delivered (X's caller has received from ctx.Err),
     loops_exited, closed (the CAS in Conn.Close has been won), raced (ghost: the write loop's own
     Close returned while c.done was still open), wants / holds (the wait-for graph of Ctx.lck and
     bwLck), nest (which mutex each step takes under which). *)
From Coq Require Import Arith Lia Bool List.
From H2V Require Import Impl.Teardown.
From H2V Require Proofs.TeardownProofs.
Import ListNotations.

Module P := TeardownProofs.Final.

(* ---- (0) ordered acquisition admits no wait cycle (DESIGN 4.5a) ---- *)
Theorem Teardown_ordered_no_wait_cycle :
  forall (Proc : Type) (wants : Proc -> option nat) (holds : Proc -> nat -> Prop),
    ordered wants holds -> ~ wait_cycle wants holds.
Proof. exact P.ordered_no_wait_cycle. Qed.
Print Assumptions Teardown_ordered_no_wait_cycle.

(* ================================================================================================ *)
(** * Server                                                                                        *)
(* ================================================================================================ *)
Section Server.
Import Srv.
Variable cap : nat.
Hypothesis cap_pos : 1 <= cap.
Notation guard := (Srv.guard cap).
Notation reachable := (Srv.reachable cap).

(* ---- (S1) C17: once the peer is gone everything that is not a handler in user code ends ---- *)

(* the rank: every action other than "a frame arrives", "the request timer fires", "the ping
   interval elapses" lowers it -- every step of every goroutine does, everywhere *)
Theorem S1_rank : forall s a, refills a = false -> guard a s -> rank (eff a s) < rank s.
Proof. exact (P.S1_rank cap cap_pos). Qed.

Theorem S1_bounded : forall s l s',
  path guard eff P.srv_no_refill s l s' -> length l + rank s' <= rank s.
Proof. exact (P.S1_bounded cap cap_pos). Qed.

(* no deadlock: with the socket dead, either nothing is left but handlers in user code and armed
   timers, or some goroutine can move *)
Theorem S1_progress : forall s, reachable s -> dead s = true ->
  quiet s \/ exists a, is_env a = false /\ guard a s.
Proof. exact (P.S1_progress cap cap_pos). Qed.

(* Serve returns: the goroutines can reach the quiet state in at most [rank s] steps of their own,
   and they cannot avoid it: a sequence of their steps that cannot be extended ends there *)
Theorem S1_can_finish : forall s, reachable s -> dead s = true ->
  exists l s', path guard eff P.srv_step s l s' /\ quiet s' /\ length l <= rank s.
Proof. exact (P.S1_can_finish cap cap_pos). Qed.

Theorem S1_must_finish : forall s l s', reachable s -> dead s = true ->
  path guard eff P.srv_step s l s' -> (forall a, is_env a = false -> ~ guard a s') -> quiet s'.
Proof. exact (P.S1_must_finish cap cap_pos). Qed.

(* what has exited stays exited, and whatever comes later (a handler that returns, a timer that had
   been re-armed) finds handlerStop / writeStop closed and does not park *)
Theorem S1_exited_stay : forall s a, loops_exited s -> guard a s -> loops_exited (eff a s).
Proof. exact (P.S1_exited_stay cap cap_pos). Qed.

Theorem S1_exited_never_parks : forall s, reachable s -> loops_exited s ->
  (0 < h_send s -> guard HStop s) /\ (pg s = PWrite -> guard (PWr ViaStop) s) /\
  (0 < Srv.i_wr s -> guard (IWr ViaStop) s).
Proof. exact (P.S1_exited_never_parks cap cap_pos). Qed.

Example S1_example : exists s,
  reachable s /\ dead s = true /\ sv s = RWrite false /\ sl s = SBody /\ wr s = 1 /\ h_run s = 1 /\
  ~ quiet s.
Proof. exact (P.S1_example cap cap_pos). Qed.

(* ---- (S2) C10 (iv): after a connection error has ended the stream loop, whatever the peer does.
   Runs fair (weakly) to every goroutine and to the drain timeout. ---- *)
Section Runs.
Variable r : run guard eff.
Hypothesis F : fair_run cap r.
Hypothesis R0 : reachable (st r 0).

Theorem S2_stream_goroutine_finishes : leadsto r sl_exited (fun s => sl s = SDone).
Proof. exact (P.S2_stream_goroutine_finishes cap cap_pos r F R0). Qed.

(* the read loop does not stay parked on reader, nor in sc.write *)
Theorem S2_unpark_forward :
  leadsto r (fun s => sl_exited s /\ sv s = RFwd) (fun s => sv s <> RFwd).
Proof. exact (P.S2_unpark_forward cap cap_pos r F R0). Qed.

Theorem S2_unpark_write :
  leadsto r (fun s => sl_exited s /\ exists b, sv s = RWrite b) (fun s => forall b, sv s <> RWrite b).
Proof. exact (P.S2_unpark_write cap cap_pos r F R0). Qed.

(* once the read loop is on its way out, Serve returns (writeDone or the drain timeout), the socket
   is closed, which unblocks a write loop stuck in a socket write, and all three are gone *)
Theorem S2_serve_returns :
  leadsto r (fun s => sl_exited s /\ sv_leaving cap s) loops_exited.
Proof. exact (P.S2_serve_returns cap cap_pos r F R0). Qed.

(* and from any position of the read loop once the socket is dead (the peer closed, or the write
   loop finished its drain and closed it) *)
Theorem S2_dead_returns :
  leadsto r (fun s => sl_exited s /\ dead s = true) loops_exited.
Proof. exact (P.S2_dead_returns cap cap_pos r F R0). Qed.
End Runs.

Example S2_example : exists s,
  reachable s /\ sl_exited s /\ sv_leaving cap s /\ sv s = RWrite true /\ wr s = 1 /\
  stalled s = true.
Proof. exact (P.S2_example cap cap_pos). Qed.

(* FINDING (C10 iv, C17).  What S2 cannot promise, because it is false: a peer that has stopped
   reading and then says nothing keeps Serve from returning.  The write loop is in the socket write
   of its drain, the read loop in the socket read, the drain timeout is not even armed (Serve is
   still inside readLoop); only the peer can move. *)
Theorem S2_silent_state : exists s,
  reachable s /\ sv s = RRead /\ sl s = SDone /\ wl s = WSock true /\ stalled s = true /\
  gone s = false /\ sclosed s = false /\
  forall a, guard a s -> (exists b, a = EPeerSend b) \/ a = EPeerClose \/ (exists b, a = EReqTimer b).
Proof. exact (P.S2_silent_state cap cap_pos). Qed.

Theorem S2_silent_peer_never_returns :
  exists r : run guard eff,
    fair_run cap r /\ reachable (st r 0) /\ sl_exited (st r 0) /\
    forall i, sv (st r i) = RRead /\ wl (st r i) = WSock true /\ sv (st r i) <> VEnd.
Proof. exact (P.S2_silent_peer_never_returns cap cap_pos). Qed.

(* the ping timer (fixed upstream: sendPingAndSchedule checks writeStop before it re-arms).  Once
   writeStop is closed it stays closed, the potential [pg_pot] of the timer never rises, and every
   step of the timer, firing included, lowers it: after the stream goroutine has closed writeStop
   the timer takes at most [pg_pot <= 5] more steps -- it fires at most once more (a callback that
   had passed the check just before the close) and then stays stopped. *)
Theorem S1_ping_winds_down : forall s a, wstop s = true -> guard a s ->
  wstop (eff a s) = true /\
  pg_pot (pg (eff a s)) <= pg_pot (pg s) /\
  (pg_act a = true -> pg_pot (pg (eff a s)) < pg_pot (pg s)).
Proof. exact (P.S1_ping_winds_down cap cap_pos). Qed.

Theorem S1_ping_bounded : forall s l s', wstop s = true ->
  path guard eff (fun _ => True) s l s' -> count_pg l + pg_pot (pg s') <= pg_pot (pg s).
Proof. exact (P.S1_ping_bounded cap cap_pos). Qed.
End Server.
Print Assumptions S1_rank.
Print Assumptions S1_bounded.
Print Assumptions S1_progress.
Print Assumptions S1_can_finish.
Print Assumptions S1_must_finish.
Print Assumptions S1_exited_stay.
Print Assumptions S1_exited_never_parks.
Print Assumptions S1_example.
Print Assumptions S2_stream_goroutine_finishes.
Print Assumptions S2_unpark_forward.
Print Assumptions S2_unpark_write.
Print Assumptions S2_serve_returns.
Print Assumptions S2_dead_returns.
Print Assumptions S2_example.
Print Assumptions S2_silent_state.
Print Assumptions S2_silent_peer_never_returns.
Print Assumptions S1_ping_winds_down.
Print Assumptions S1_ping_bounded.

(* the same with the read loop parked in forward on a full reader (cap = 1) *)
Example S2_example_reader_full : exists s,
  Srv.reachable 1 s /\ Srv.sl_exited s /\ Srv.sv_leaving 1 s /\ Srv.sv s = Srv.RFwd /\
  Srv.rd s = 1 /\ Srv.stalled s = true.
Proof. exact P.S2_example_reader_full. Qed.
Print Assumptions S2_example_reader_full.

(* ================================================================================================ *)
(** * Client                                                                                        *)
(* ================================================================================================ *)
Section Client.
Import Cli.
Variable cap : nat.
Hypothesis cap_pos : 1 <= cap.
Notation guard := (Cli.guard cap).
Notation reachable := (Cli.reachable cap).

(* ---- (S3) C12, locks.  The order  Client.lck < Ctx.lck < reqLck < sendLck < lastErrLck < resLck <
   bwLck  (Cli.mrank); the only mutex ever held while another is taken is a Ctx.lck. ---- *)
Theorem S3_lock_order : forall a o i, In (o, i) (nest a) -> mrank o < mrank i.
Proof. exact P.S3_lock_order. Qed.

(* whoever is parked in Lock holds only smaller mutexes: no wait cycle, no re-lock *)
Theorem S3_ordered : forall s, reachable s -> ordered (wants s) (holds s).
Proof. exact (P.S3_ordered cap cap_pos). Qed.

Theorem S3_no_wait_cycle : forall s, reachable s -> ~ wait_cycle (wants s) (holds s).
Proof. exact (P.S3_no_wait_cycle cap cap_pos). Qed.

Theorem S3_no_self_wait : forall s p m, reachable s -> wants s p = Some m -> ~ holds s p m.
Proof. exact (P.S3_no_self_wait cap cap_pos). Qed.

(* the write loop, the only receiver of c.out, never sends on it (fixed upstream: on a failed body
   read it writes the RST_STREAM itself, writeReset): none of its steps lengthens c.out *)
Theorem S3_write_loop_never_sends_on_out : forall s a,
  g_wl a -> guard a s -> outq (eff a s) <= outq s.
Proof. exact (P.S3_write_loop_never_sends_on_out cap cap_pos). Qed.

(* and whoever is parked on a send into c.out -- the read loop, X's timer -- holds no mutex (fixed
   upstream: dispatch queues the WINDOW_UPDATE frames of c.outBuf after dispatchLocked has released
   the Ctx.lck): no reachable state has the read loop parked on c.out while it holds a Ctx.lck *)
Theorem S3_out_parks_hold_nothing : forall s p m,
  reachable s -> parked_on_out s p -> ~ holds s p m.
Proof. exact (P.S3_out_parks_hold_nothing cap cap_pos). Qed.

(* ---- (S3) C12, nothing stranded.  Runs strongly fair to every goroutine, to the done case and
   the c.out case of the write loop's select and to the caller's body reader, in which at every
   instant the peer is
   reading or the connection is dead.  Once Close has been entered (Client.Close, or a loop that saw
   the connection die), both loops exit and X's caller receives from ctx.Err -- unless the write
   loop's own Close returned while c.done was still open (finding F4). ---- *)
Section Runs.
Variable r : run guard eff.
Hypothesis F : fair_run cap r.
Hypothesis R0 : reachable (st r 0).
Hypothesis NS : forall i, stalled (st r i) = false \/ dead (st r i) = true.

Theorem S3_both_loops_exit :
  leadsto r (fun s => closed s = true) (fun s => loops_exited s /\ done s = true).
Proof. exact (P.S3_both_loops_exit cap cap_pos r F R0 NS). Qed.

Theorem S3_no_stranding :
  leadsto r (fun s => closed s = true)
    (fun s => loops_exited s /\ (delivered s \/ raced s = true)).
Proof. exact (P.S3_no_stranding cap cap_pos r F R0 NS). Qed.

(* the stronger trigger: nobody needs to call Close.  Once the peer is gone (reads and writes fail)
   somebody notices -- the read loop gets out of whatever it is doing and fails its read, or the
   write loop fails a write -- and enters Close; then as above. *)
Theorem S3_gone_closes :
  leadsto r (fun s => gone s = true) (fun s => closed s = true).
Proof. exact (P.S3_gone_closes cap cap_pos r F R0 NS). Qed.

Theorem S3_gone_no_stranding :
  leadsto r (fun s => gone s = true)
    (fun s => loops_exited s /\ (delivered s \/ raced s = true)).
Proof. exact (P.S3_gone_no_stranding cap cap_pos r F R0 NS). Qed.
End Runs.

Example S3_example : exists s,
  reachable s /\ closed s = true /\ done s = false /\ stalled s = false /\
  wl s = LWrite HX /\ rl s = RHold HO /\ uc s = UClose CDone /\
  xc s = KErr /\ xloc s = XTab /\ xerr s = false.
Proof. exact (P.S3_example cap cap_pos). Qed.

(* ---- FINDINGS (C12): reachable states in which only the environment can move.  The
   interleavings are the *_trace lists in Proofs/TeardownProofs.v (module CliEx). ---- *)

(* F1: Conn.Close parked on bwLck behind a socket write that does not return; c.done is closed, the
   socket never is, the request is not resolved *)
Theorem F1_close_behind_stuck_write : exists s,
  reachable s /\ P.only_env cap s /\
  wl s = LWrite HX /\ uc s = UClose CLock /\ done s = true /\
  sclosed s = false /\ xc s = KErr /\ xerr s = false.
Proof. exact (P.F1_close_behind_stuck_write cap cap_pos). Qed.

(* ... and with a timeout armed the caller does get the error, then parks in takeBack *)
Theorem F1b_roundtrip_stuck_in_takeback : exists s,
  reachable s /\ P.only_env cap s /\
  xc s = KTb /\ lx s = LxWl /\ wl s = LWrite HX /\ tx s = TDone.
Proof. exact (P.F1b_roundtrip_stuck_in_takeback cap cap_pos). Qed.

(* F2: Conn.Write parked on a full c.in behind a stuck write loop, c.done open, the request's own
   timeout already fired *)
Theorem F2_write_parked_past_timeout : exists s,
  reachable s /\ P.only_env cap s /\
  xc s = KW1 /\ xerr s = true /\ tx s = TDone /\ done s = false /\
  wl s = LWrite HO /\ inq s = cap.
Proof. exact (P.F2_write_parked_past_timeout cap cap_pos). Qed.

(* F4: Close is CAS then close(done): both loops gone, the request sits in c.in *)
Theorem F4_stranded_by_close_race : exists s,
  reachable s /\ loops_exited s /\ done s = true /\
  xc s = KErr /\ xloc s = XIn /\ xerr s = false /\ tx s = TOff /\ raced s = true /\
  (forall a, guard a s -> a = EPeerStall \/ a = ETick \/ a = EUserClose).
Proof. exact (P.F4_stranded_by_close_race cap cap_pos). Qed.

End Client.
Print Assumptions S3_lock_order.
Print Assumptions S3_ordered.
Print Assumptions S3_no_wait_cycle.
Print Assumptions S3_no_self_wait.
Print Assumptions S3_both_loops_exit.
Print Assumptions S3_no_stranding.
Print Assumptions S3_example.
Print Assumptions F1_close_behind_stuck_write.
Print Assumptions F1b_roundtrip_stuck_in_takeback.
Print Assumptions F2_write_parked_past_timeout.
Print Assumptions F4_stranded_by_close_race.
Print Assumptions S3_write_loop_never_sends_on_out.
Print Assumptions S3_out_parks_hold_nothing.
Print Assumptions S3_gone_closes.
Print Assumptions S3_gone_no_stranding.
