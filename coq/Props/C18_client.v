(* C18 (client role) - SETTINGS are acknowledged once, in order, and the server's limits are obeyed from then on.
   Only statements here; every proof is one lemma of Proofs/CliFlowSettings.v / CliFlowLimits.v / CliFlowEs.v. All
   theorems are about the model of Impl/ClientConn.v, for ALL event lists, generic in the HPACK coder.

   What is true, and what is not:
   - one ACK per valid non-ACK SETTINGS frame taken in, queued in the same step AFTER the values are merged and the
     send windows adjusted, written by the write loop in queue order; while the connection is open and writable the
     count is exact (C18_client_settings_acks);
   - merging is per parameter (MergeTo): only the parameters present change, each to the LAST value sent for it
     (C18_client_merge_delta);
   - invalid values end the read loop and close the connection (C18_client_settings_invalid). "No frame is written
     afterwards" holds from the moment the socket is closed (C18_client_no_frames_after_close): at once when the read
     loop's deferred Close is the first Close; if a caller's Close is between its two halves the write loop can still
     write a request that was already queued (C18_client_headers_during_close_observation);
   - MAX_CONCURRENT_STREAMS: checked by CanOpenStream when the write loop takes the request off c.in, in the same
     select case that writes HEADERS; a later SETTINGS frame that lowers it closes nothing
     (C18_client_max_concurrent_streams). The counter is the client's own table: a response that ends while the request
     body is still pending takes the stream off the table without END_STREAM or RST_STREAM from the client, so the
     server may count a stream the client does not (observation; C08/C11 territory);
   - HEADER_TABLE_SIZE: the write loop calls SetMaxTableSize with the value the read loop stored before it encodes
     the next block (C18_client_header_table_size); at the handshake at most 4096;
   - MAX_FRAME_SIZE: DATA frames respect it (C07_frame_size); a request header block is ONE HEADERS frame whatever
     its size: C18_client_headers_frame_size_refuted (known finding);
   - advertised = enforced: ENABLE_PUSH = 0, the default MAX_FRAME_SIZE for what the client reads. *)
From Coq Require Import List NArith ZArith Bool.
From H2V Require Import Base.Bytes Base.MachineInt Base.Result Gen.GenConsts Impl.Hpack Impl.ServerConn Impl.ServerInst
  Impl.ClientConn Impl.ClientInst Proofs.CliDefs Spec.FlowLedger Spec.Rfc7540Frames
  Proofs.CliFlowMoves Proofs.CliFlowOut Proofs.CliFlowSettings Proofs.CliFlowSafe Proofs.CliFlowEs Proofs.CliFlowLimits Proofs.CliFlowExamples.
Import ListNotations.
Local Open Scope N_scope.

(* Settings.Deserialize / Read: a payload is accepted iff its length is a multiple of six and every value is one RFC
   7540 6.5.2 allows (setting_valid of Spec/Rfc7540Frames.v), and then reads as the last value of each parameter *)
Theorem C18_client_settings_read : forall d : bytes,
  cl_settings_deserialize false d =
  if (len d mod 6 =? 0) && forallb setting_valid (settings_pairs d)
  then Some (read_result (settings_pairs d) cl_settings_default) else None.
Proof. exact settings_deserialize_spec. Qed.
Print Assumptions C18_client_settings_read.

(* MergeTo: exactly the parameters present change, each to the last value sent for it; nothing is reset to a default *)
Theorem C18_client_merge_delta : forall (d : bytes) (st dst : csettings),
  cl_settings_deserialize false d = Some st ->
  cl_settings_merge st dst =
  mkCS (pairs_last (settings_pairs d) 1 (cs_table dst))
       (plast (fun v => negb (v =? 0)) (settings_pairs d) 2 (cs_push dst))
       (pairs_last (settings_pairs d) 3 (cs_streams dst))
       (pairs_last (settings_pairs d) 4 (cs_window dst))
       (pairs_last (settings_pairs d) 5 (cs_frame dst))
       (pairs_last (settings_pairs d) 6 (cs_hdr dst))
       (cs_hasWin dst) (cs_present dst).
Proof. exact settings_merge_delta. Qed.
Print Assumptions C18_client_merge_delta.

(* the step that takes a valid SETTINGS frame in: merge, store the atomics, adjust the send windows, THEN queue one
   ACK behind whatever is already in c.out; nothing is written in this step *)
Theorem C18_client_settings_ack_step : forall (hstate : Type) (dec_field : hstate -> N -> bytes -> dec_res hstate)
    (enc_field : hstate -> bytes -> bytes -> bool -> bytes * hstate) (enc_set_max : hstate -> N -> hstate)
    (cfg : cl_config) (c : cconn hstate) (fr : sframe) (st : csettings),
  settings_taken hstate c fr -> cl_settings_deserialize false (sf_payload fr) = Some st ->
  let c' := cl_step dec_field enc_field enc_set_max cfg c (CEvRL (RFrame fr)) in
  let ps := settings_pairs (sf_payload fr) in
  cc_serverS c' = cl_settings_merge st (cc_serverS c) /\
  cc_maxStreams c' = pairs_last ps 3 (cs_streams (cc_serverS c)) /\
  cc_maxFrame c' = pairs_last ps 5 (cs_frame (cc_serverS c)) /\
  cc_encTableSize c' = (if pairs_has ps 1 then pairs_last ps 1 0 else cc_encTableSize c) /\
  cc_streamWindow c' = (if pairs_has ps 4 then Z.of_N (pairs_last ps 4 0) else cc_streamWindow c) /\
  cc_out c' = cc_out c /\
  cc_outQ c' = (if cc_closed c then cc_outQ c else cc_outQ c ++ [COSettingsAck]).
Proof. exact settings_ack_step. Qed.
Print Assumptions C18_client_settings_ack_step.

(* exactly one ACK per SETTINGS frame: the ACKs written plus those waiting in c.out never exceed the number of valid
   non-ACK SETTINGS frames taken in, and are exactly as many while the connection has not been closed and writes
   reach the socket *)
Theorem C18_client_settings_acks : forall (hstate : Type) (dec_field : hstate -> N -> bytes -> dec_res hstate)
    (enc_field : hstate -> bytes -> bytes -> bool -> bytes * hstate) (enc_set_max : hstate -> N -> hstate)
    (cfg : cl_config) (h0 : hstate) (first : bytes) (evs : list cevent),
  let c := cl_run dec_field enc_field enc_set_max cfg h0 first evs in
  let n := nsets_from hstate dec_field enc_field enc_set_max cfg (cl_init enc_set_max h0 first) evs in
  (acks (cl_trace c) + acks (cc_outQ c) <= n)%nat /\
  (cc_closed c = false -> cl_can_write c = true -> (acks (cl_trace c) + acks (cc_outQ c))%nat = n).
Proof. exact settings_acks. Qed.
Print Assumptions C18_client_settings_acks.

(* invalid SETTINGS: the read loop returns, the connection is closed (done is closed; the socket too unless a
   caller's Close is already on its way to do it), no ACK is queued or written *)
Theorem C18_client_settings_invalid : forall (hstate : Type) (dec_field : hstate -> N -> bytes -> dec_res hstate)
    (enc_field : hstate -> bytes -> bytes -> bool -> bytes * hstate) (enc_set_max : hstate -> N -> hstate)
    (cfg : cl_config) (c : cconn hstate) (fr : sframe),
  settings_taken hstate c fr ->
  (len (sf_payload fr) mod 6 =? 0) && forallb setting_valid (settings_pairs (sf_payload fr)) = false ->
  let c' := cl_step dec_field enc_field enc_set_max cfg c (CEvRL (RFrame fr)) in
  cc_rl_done c' = true /\ cc_closed c' = true /\ (cc_closed c = false -> cc_netClosed c' = true) /\ cc_lastErr c' <> None /\
  cc_outQ c' = cc_outQ c /\ acks (cc_out c') = acks (cc_out c).
Proof. exact settings_invalid_step. Qed.
Print Assumptions C18_client_settings_invalid.

(* once the socket has been closed nothing is written: a step adds results and notes to the trace, never a frame *)
Theorem C18_client_no_frames_after_close : forall (hstate : Type) (dec_field : hstate -> N -> bytes -> dec_res hstate)
    (enc_field : hstate -> bytes -> bytes -> bool -> bytes * hstate) (enc_set_max : hstate -> N -> hstate)
    (cfg : cl_config) (c : cconn hstate) (e : cevent),
  cc_netClosed c = true ->
  cc_netClosed (cl_step dec_field enc_field enc_set_max cfg c e) = true /\
  Forall (fun o => quietb o = true) (g_new hstate c (cl_step dec_field enc_field enc_set_max cfg c e)).
Proof. exact no_frames_after_close. Qed.
Print Assumptions C18_client_no_frames_after_close.

(* MAX_CONCURRENT_STREAMS: HEADERS is written only by the write loop's case ctx := <-c.in, and when that step starts
   no GOAWAY has been seen, openStreams is below the limit as last merged, and the streams on the client's table are
   at most openStreams: with the new one, at most the limit *)
Theorem C18_client_max_concurrent_streams : forall (hstate : Type) (dec_field : hstate -> N -> bytes -> dec_res hstate)
    (enc_field : hstate -> bytes -> bytes -> bool -> bytes * hstate) (enc_set_max : hstate -> N -> hstate)
    (cfg : cl_config) (h0 : hstate) (first : bytes) (evs : list cevent) (e : cevent) (sid : N) (es : bool) (blk : bytes),
  cl_settings_deserialize false first <> None ->
  In (COHeaders sid es blk) (g_new hstate (cl_run dec_field enc_field enc_set_max cfg h0 first evs)
                                   (cl_step dec_field enc_field enc_set_max cfg (cl_run dec_field enc_field enc_set_max cfg h0 first evs) e)) ->
  let c := cl_run dec_field enc_field enc_set_max cfg h0 first evs in
  e = CEvWLIn /\ cl_wl_live c = true /\ cc_goAway c = false /\
  (Z.of_nat (length (cc_reqQueued c)) <= cc_open c < Z.of_N (cc_maxStreams c))%Z /\
  cc_maxStreams c = cs_streams (cc_serverS c).
Proof. exact headers_within_limit. Qed.
Print Assumptions C18_client_max_concurrent_streams.

(* HEADER_TABLE_SIZE: after a step that writes HEADERS the encoder that produced the block has, as the last maximum
   given to it by SetMaxTableSize, the value the read loop had stored when the step started (enc_hist: the history
   of the encoder value; with C04 the dynamic table is never larger than that maximum) *)
Theorem C18_client_header_table_size : forall (hstate : Type) (dec_field : hstate -> N -> bytes -> dec_res hstate)
    (enc_field : hstate -> bytes -> bytes -> bool -> bytes * hstate) (enc_set_max : hstate -> N -> hstate)
    (cfg : cl_config) (h0 : hstate) (first : bytes) (evs : list cevent) (e : cevent) (sid : N) (es : bool) (blk : bytes),
  In (COHeaders sid es blk) (g_new hstate (cl_run dec_field enc_field enc_set_max cfg h0 first evs)
                                   (cl_step dec_field enc_field enc_set_max cfg (cl_run dec_field enc_field enc_set_max cfg h0 first evs) e)) ->
  let c := cl_run dec_field enc_field enc_set_max cfg h0 first evs in
  let c' := cl_step dec_field enc_field enc_set_max cfg c e in
  enc_hist hstate enc_field enc_set_max h0 (cc_enc c') (cc_encTableSize c) /\
  cc_encTableSeen c' = cc_encTableSize c /\ cc_encTableSize c' = cc_encTableSize c.
Proof. exact table_size_in_force. Qed.
Print Assumptions C18_client_header_table_size.

Theorem C18_client_handshake_table_size : forall (hstate : Type) (enc_set_max : hstate -> N -> hstate) (h0 : hstate) (first : bytes) (st : csettings),
  cl_settings_deserialize false first = Some st ->
  cc_encTableSize (cl_init enc_set_max h0 first) = (if cs_table st <=? c_defaultHeaderTableSize then cs_table st else c_defaultHeaderTableSize) /\
  cc_encTableSeen (cl_init enc_set_max h0 first) = cc_encTableSize (cl_init enc_set_max h0 first) /\
  cc_encTableSize (cl_init enc_set_max h0 first) <= c_defaultHeaderTableSize.
Proof. exact handshake_table_size. Qed.
Print Assumptions C18_client_handshake_table_size.

(* MAX_FRAME_SIZE and HEADERS: REFUTED. "Every HEADERS frame written is at most the MAX_FRAME_SIZE in force" is false:
   writeRequest puts the whole header block into one HEADERS frame (no CONTINUATION), known finding *)
Theorem C18_client_headers_frame_size_refuted :
  ~ (forall cfg first evs e sid es blk, In (COHeaders sid es blk) (cli_step_items cfg first evs e) ->
                                        len blk <= cc_maxFrame (cli_run cfg first evs)).
Proof.
  intro H. apply (hdr_oversize_refutes ex_cfg [] [CEvSubmit 0 ex_big_request true] CEvWLIn); [vm_compute; reflexivity|].
  intros sid es blk. apply H.
Qed.
Print Assumptions C18_client_headers_frame_size_refuted.

(* advertised = enforced: ENABLE_PUSH = 0; a PUSH_PROMISE frame on a stream ends the connection *)
Theorem C18_client_push_promise : forall (hstate : Type) (dec_field : hstate -> N -> bytes -> dec_res hstate)
    (enc_field : hstate -> bytes -> bytes -> bool -> bytes * hstate) (enc_set_max : hstate -> N -> hstate)
    (cfg : cl_config) (c : cconn hstate) (fr : sframe),
  cl_rl_live c = true -> cc_netClosed c = false -> sf_kind fr = KPush -> sf_sid fr <> 0 ->
  let c' := cl_step dec_field enc_field enc_set_max cfg c (CEvRL (RFrame fr)) in
  cc_rl_done c' = true /\ cc_closed c' = true /\ (cc_closed c = false -> cc_netClosed c' = true) /\ cc_lastErr c' <> None.
Proof. exact push_promise_is_connection_error. Qed.
Print Assumptions C18_client_push_promise.

(* a frame the frame reader refuses - longer than the 16384 the client accepts by announcing no MAX_FRAME_SIZE (C05),
   or malformed - ends the connection *)
Theorem C18_client_bad_frame : forall (hstate : Type) (dec_field : hstate -> N -> bytes -> dec_res hstate)
    (enc_field : hstate -> bytes -> bytes -> bool -> bytes * hstate) (enc_set_max : hstate -> N -> hstate)
    (cfg : cl_config) (c : cconn hstate) (code : option N),
  cl_rl_live c = true ->
  let c' := cl_step dec_field enc_field enc_set_max cfg c (CEvRL (RBadFrame code)) in
  cc_rl_done c' = true /\ cc_closed c' = true /\ (cc_closed c = false -> cc_netClosed c' = true) /\ cc_lastErr c' <> None.
Proof. exact bad_frame_is_connection_error. Qed.
Print Assumptions C18_client_bad_frame.

(* ---------- examples (the instance with the real HPACK model) ---------- *)

Example C18_client_settings_read_example :
  settings_pairs ex_settings_payload = [(3, 1); (5, 32768); (3, 7); (1, 100)] /\
  cl_settings_deserialize false ex_settings_payload <> None /\
  cl_settings_deserialize false [0; 5; 0; 0; 0; 100] = None /\ cl_settings_deserialize false [0; 2; 0; 0; 0; 2] = None /\
  cl_settings_deserialize false [0; 4; 128; 0; 0; 0] = None /\ cl_settings_deserialize false [0; 3; 0; 0; 0] = None.
Proof. vm_compute. repeat split. discriminate. Qed.

(* MAX_CONCURRENT_STREAMS sent twice: the last value; MAX_FRAME_SIZE and HEADER_TABLE_SIZE change; the window and the
   header list size, not sent, keep the values they had (here: not the defaults) *)
Example C18_client_merge_delta_example :
  let dst := mkCS 4096 false 100 12345 16384 777 true 0 in
  exists st, cl_settings_deserialize false ex_settings_payload = Some st /\
             cl_settings_merge st dst = mkCS 100 false 7 12345 32768 777 true 0.
Proof. eexists. split; vm_compute; reflexivity. Qed.

Example C18_client_settings_ack_step_example :
  let c := cli_run ex_cfg [] [] in
  settings_taken hpack_state c ex_settings_frame /\
  let c' := cli_step ex_cfg c (CEvRL (RFrame ex_settings_frame)) in
  cc_maxStreams c' = 7 /\ cc_maxFrame c' = 32768 /\ cc_encTableSize c' = 100 /\ cc_outQ c' = [COSettingsAck] /\ cc_out c' = [].
Proof. vm_compute. repeat split. Qed.

(* two SETTINGS frames, one ACK written, one still in c.out *)
Example C18_client_settings_acks_example :
  let evs := [CEvRL (RFrame ex_settings_frame); CEvRL (ex_settings 4 100); CEvWLOut] in
  nsets_from hpack_state cli_dec_field cli_enc_field set_max_table_size ex_cfg (cli_init []) evs = 2%nat /\
  cli_tr ex_cfg [] evs = [COSettingsAck] /\ cc_outQ (cli_run ex_cfg [] evs) = [COSettingsAck] /\
  cc_closed (cli_run ex_cfg [] evs) = false /\ cl_can_write (cli_run ex_cfg [] evs) = true.
Proof. vm_compute. repeat split. Qed.

(* MAX_FRAME_SIZE = 100 is not a value the RFC allows *)
Example C18_client_settings_invalid_example :
  let c := cli_run ex_cfg [] [] in
  let c' := cli_step ex_cfg c (CEvRL (ex_settings 5 100)) in
  cc_rl_done c' = true /\ cc_closed c' = true /\ cc_netClosed c' = true /\ map brief (cli_trace c') = [COGoAway 0 0; COExit 0 0].
Proof. vm_compute. repeat split. Qed.

Example C18_client_no_frames_after_close_example :
  let evs := [CEvSubmit 0 ex_get true; CEvRL (ex_settings 5 100)] in
  cc_netClosed (cli_run ex_cfg [] evs) = true /\ map brief (cli_step_items ex_cfg [] evs CEvWLIn) = [COExit 1 1].
Proof. vm_compute. repeat split. Qed.

(* observation: a caller's Close is between its two halves (done closed, socket still open) when the invalid SETTINGS
   frame comes in: the read loop returns, and the write loop still writes the request that was already on c.in *)
Example C18_client_headers_during_close_observation :
  map brief (cli_tr ex_cfg [] [CEvSubmit 0 ex_get true; CEvClose; CEvRL (ex_settings 5 100); CEvWLIn]) = [COExit 0 0; COHeaders 1 true []].
Proof. vm_compute. reflexivity. Qed.

(* the server allows one stream: the first request goes out, the second is refused (retryable) without a frame *)
Example C18_client_max_concurrent_streams_example :
  map brief (cli_tr ex_cfg [0; 3; 0; 0; 0; 1] [CEvSubmit 0 ex_get true; CEvSubmit 1 ex_get true; CEvWLIn; CEvWLIn; CEvReceive 1])
  = [COHeaders 1 true []; COResult 1 true CENoStreams cl_empty_resp] /\
  cc_open (cli_run ex_cfg [0; 3; 0; 0; 0; 1] [CEvSubmit 0 ex_get true]) = 0%Z /\
  cc_maxStreams (cli_run ex_cfg [0; 3; 0; 0; 0; 1] [CEvSubmit 0 ex_get true]) = 1.
Proof. vm_compute. repeat split. Qed.

(* HEADER_TABLE_SIZE = 100 arrives; the next request block is encoded after SetMaxTableSize(100) *)
Example C18_client_header_table_size_example :
  let evs := [CEvRL (RFrame ex_settings_frame); CEvSubmit 0 ex_get true] in
  cc_encTableSize (cli_run ex_cfg [] evs) = 100 /\ cc_encTableSeen (cli_run ex_cfg [] evs) = 4096 /\
  cc_encTableSeen (cli_step ex_cfg (cli_run ex_cfg [] evs) CEvWLIn) = 100 /\
  h_max (cc_enc (cli_step ex_cfg (cli_run ex_cfg [] evs) CEvWLIn)) = 100 /\
  cc_encTableSize (cli_init [0; 1; 0; 0; 32; 0]) = 4096 /\ cc_encTableSize (cli_init [0; 1; 0; 0; 0; 200]) = 200.
Proof. vm_compute. repeat split. Qed.

(* the witness of the refutation: a 40000-byte header value gives one HEADERS frame of about 25000 bytes under MAX_FRAME_SIZE 16384 *)
Example C18_client_headers_frame_size_refuted_example :
  map (fun o => match o with COHeaders s e b => COHeaders s e [len b] | _ => o end)
      (cli_step_items ex_cfg [] [CEvSubmit 0 ex_big_request true] CEvWLIn) = [COHeaders 1 true [25014]] /\
  cc_maxFrame (cli_run ex_cfg [] [CEvSubmit 0 ex_big_request true]) = 16384.
Proof. vm_compute. repeat split. Qed.

Example C18_client_push_promise_example :
  let c' := cli_step ex_cfg (cli_run ex_cfg [] []) (CEvRL (ex_frame KPush 4 2 [] 0 0 0)) in
  cc_rl_done c' = true /\ cc_closed c' = true /\ cc_netClosed c' = true.
Proof. vm_compute. repeat split. Qed.

Example C18_client_bad_frame_example :
  let c' := cli_step ex_cfg (cli_run ex_cfg [] []) (CEvRL (RBadFrame None)) in
  cc_rl_done c' = true /\ cc_closed c' = true /\ cc_netClosed c' = true.
Proof. vm_compute. repeat split. Qed.
