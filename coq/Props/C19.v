(* C19 - no data races; a pooled object never has two owners. Server side, on the model:
   (a) ownership of stream objects / request contexts over the whole history (the automaton of Proofs/SrvInvOwn.v);
   (b) frame conditions: which components of the connection each loop can write (Proofs/SrvInvFrame.v). With (b), two
   loops never write the same component except the shared atomics sc_closing/sc_closeRef (set only inside write_goaway,
   i.e. under goAwayMu together with the read of sc_lastID) and the queues sc_readerQ (read loop appends, stream loop
   takes the head) and sc_out (sc.write is a channel send).
   Only statements; the data-race half proper (Go memory model) is outside a Gallina model: the same scenarios are run
   under the race detector by ./check C19. Frames, frame headers and header fields are pooled below the grain of this
   model (C16 covers the frame reader's pool discipline). *)
From Coq Require Import List NArith ZArith Bool.
From H2V Require Import Base.Bytes Base.MachineInt Base.Result Gen.GenConsts Impl.Hpack Impl.ServerConn Impl.ServerInst
  Proofs.SrvBase Proofs.SrvInvOwn Proofs.SrvInvFrame Proofs.SrvInvExamples.
Import ListNotations.
Local Open Scope N_scope.

(* (a) for every stream id the object goes  Owned (stream loop) -> Lent (handler) -> Returned (stream loop) -> InPool,
   or Owned -> InPool when no handler was started; it is never handed to a second owner while the first can touch
   it (dispatch while Lent/Returned, release while Lent), never returned to its pool twice, never used after that *)
Theorem C19_stream_ownership : forall hstate dec_field enc_field enc_set_max cfg (h0 : hstate) evs sid,
  own_run sid (log hstate dec_field enc_field enc_set_max cfg h0 evs) Owned <> Bad.
Proof. exact own_safe. Qed.
Print Assumptions C19_stream_ownership.

(* (b1) the read loop. slview lists every component owned by the stream loop (sc_strms sc_gone sc_open sc_initWin
   sc_ring sc_oldest sc_lastID sc_highestID sc_clientWindow sc_currentWindow sc_enc sc_dec sc_sl_done sc_discardID
   sc_discardPrev sc_discardFields) and by neither (sc_closer sc_wl_dead sc_now): rl_step changes none of them.
   What it does change: sc_expectCont, sc_readerQ (appends), sc_rl_done, sc_out, and through write_goaway sc_closing /
   sc_closeRef, reading sc_lastID. *)
Theorem C19_read_loop_frame : forall hstate cfg (c : sconn hstate) i,
  slview hstate (rl_step cfg c i) = slview hstate c.
Proof. exact rl_step_frame. Qed.
Print Assumptions C19_read_loop_frame.

Theorem C19_read_loop_event_frame : forall hstate dec_field enc_field enc_set_max cfg (c : sconn hstate) i,
  slview hstate (step dec_field enc_field enc_set_max cfg c (EvRL i)) = slview hstate c.
Proof. exact read_loop_event_frame. Qed.
Print Assumptions C19_read_loop_event_frame.

(* the shared flag is only ever set *)
Theorem C19_read_loop_closing_monotone : forall hstate cfg (c : sconn hstate) i,
  sc_closing c = true -> sc_closing (rl_step cfg c i) = true.
Proof. exact rl_step_closing. Qed.
Print Assumptions C19_read_loop_closing_monotone.

(* (b2) the stream loop. rlview = (sc_expectCont, sc_rl_done, sc_readerQ, (sc_closer, sc_wl_dead, sc_now)):
   handling a frame, a handler's return or the request timer changes none of them (the frame itself is taken off
   sc_readerQ by the step, see below) *)
Theorem C19_stream_loop_frame_frame : forall hstate dec_field enc_set_max cfg (c : sconn hstate) fr,
  rlview hstate (fst (sl_frame dec_field enc_set_max cfg c fr)) = rlview hstate c.
Proof. exact sl_frame_frame. Qed.
Print Assumptions C19_stream_loop_frame_frame.

Theorem C19_stream_loop_done_frame : forall hstate enc_field cfg (c : sconn hstate) sid r,
  rlview hstate (fst (sl_done enc_field cfg c sid r)) = rlview hstate c.
Proof. exact sl_done_frame. Qed.
Print Assumptions C19_stream_loop_done_frame.

Theorem C19_stream_loop_timer_frame : forall hstate cfg (c : sconn hstate),
  rlview hstate (fst (sl_timer cfg c)) = rlview hstate c.
Proof. exact sl_timer_frame. Qed.
Print Assumptions C19_stream_loop_timer_frame.

(* at the level of events: the stream loop's events leave sc_expectCont and sc_rl_done alone and at most consume the head
   of sc_readerQ *)
Theorem C19_stream_loop_event_frame : forall hstate dec_field enc_field enc_set_max cfg (c : sconn hstate) e,
  stream_loop_event e ->
  sc_expectCont (step dec_field enc_field enc_set_max cfg c e) = sc_expectCont c /\
  sc_rl_done (step dec_field enc_field enc_set_max cfg c e) = sc_rl_done c /\
  (sc_readerQ (step dec_field enc_field enc_set_max cfg c e) = sc_readerQ c \/
   exists fr, sc_readerQ c = fr :: sc_readerQ (step dec_field enc_field enc_set_max cfg c e)).
Proof. exact stream_loop_event_frame. Qed.
Print Assumptions C19_stream_loop_event_frame.

(* Example: the run of C13/C17's example. Stream 1 ends InPool after Lent and Returned; a HEADERS frame read by the read
   loop changes only the reader queue (and here nothing the stream loop owns) *)
Example C19_ex :
  let lg := log _ srv_dec_field srv_enc_field set_max_table_size cfgx srv_init_hpack evs_full in
  own_run 1 lg Owned = InPool /\
  own_run 1 (firstn 8 lg) Owned = Lent /\
  let c := srv_run cfgx evs_slots in
  let c' := rl_step cfgx c (RFrame (fH 9 5)) in
  sc_readerQ c' = [fH 9 5] /\ sc_readerQ c = [] /\ sc_strms c' = sc_strms c /\ sc_open c' = sc_open c.
Proof. vm_compute. repeat split. Qed.
