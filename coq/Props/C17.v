(* C17 - the server outlives any peer: no panic, and a request context is never recycled under a running handler.
   Only statements; proofs are lemmas of Proofs/SrvInvGoAway.v (no_panic), Proofs/SrvInvOwn.v (ownership automaton)
   and Proofs/SrvInvExamples.v (instance). "Every byte stream a peer can send, cut off at any byte, with the write side
   failing at any point, under every schedule" = every event list (EvRL inputs incl. RBadFrame/RLEof, EvWriteFail,
   any interleaving of EvSL/EvDone/timers).
   Not statements about this model: "returns once the peer is gone" (see C10 (iv): only the functional half) and
   "leaves no goroutine behind" (goroutines are not modelled). *)
From Coq Require Import List NArith ZArith Bool.
From H2V Require Import Base.Bytes Base.MachineInt Base.Result Gen.GenConsts Impl.Hpack Impl.ServerConn Impl.ServerInst
  Proofs.SrvBase Proofs.SrvInvOwn Proofs.SrvInvGoAway Proofs.SrvInvExamples.
Import ListNotations.
Local Open Scope N_scope.

(* (a) no panic item (not even a recovered panic) in any trace, for any HPACK decoder that does not panic itself *)
Theorem C17_no_panic : forall hstate dec_field enc_field enc_set_max cfg (h0 : hstate) evs,
  (forall d n b, dec_field d n b <> DPanic hstate) ->
  forall who why,
    ~ In (OPanic who why) (trace (run dec_field enc_field enc_set_max cfg h0 evs)) /\
    ~ In (OLate (OPanic who why)) (trace (run dec_field enc_field enc_set_max cfg h0 evs)).
Proof. exact no_panic. Qed.
Print Assumptions C17_no_panic.

(* for the server with the real HPACK decoder the hypothesis is C03_next_field_no_panic *)
Theorem C17_srv_no_panic : forall cfg evs who why,
  ~ In (OPanic who why) (srv_trace (srv_run cfg evs)) /\ ~ In (OLate (OPanic who why)) (srv_trace (srv_run cfg evs)).
Proof. exact srv_no_panic. Qed.
Print Assumptions C17_srv_no_panic.

(* (b)(c) The log of a run interleaves the events with the outputs each step adds. For every stream id it drives the
   automaton  Owned --ODispatch--> Lent --EvDone--> Returned --ORelease--> InPool  (and Owned --ORelease--> InPool for a
   stream that never got a handler); a second dispatch, a release while Lent, a second release and any use after the
   release go to Bad. Bad is never reached. *)
Theorem C17_ownership : forall hstate dec_field enc_field enc_set_max cfg (h0 : hstate) evs sid,
  own_run sid (log hstate dec_field enc_field enc_set_max cfg h0 evs) Owned <> Bad.
Proof. exact own_safe. Qed.
Print Assumptions C17_ownership.

(* (b) spelled out: between the dispatch of sid and a release of sid the handler of sid has returned *)
Theorem C17_no_release_while_handler_runs : forall hstate dec_field enc_field enc_set_max cfg (h0 : hstate) evs sid rq w l1 l2 l3,
  log hstate dec_field enc_field enc_set_max cfg h0 evs =
    l1 ++ IOut (ODispatch sid rq) :: l2 ++ IOut (ORelease sid w) :: l3 ->
  exists r, In (IEv (EvDone sid r)) l2.
Proof. exact no_release_while_lent. Qed.
Print Assumptions C17_no_release_while_handler_runs.

(* (c) a stream object (and its context) is released at most once *)
Theorem C17_release_once : forall hstate dec_field enc_field enc_set_max cfg (h0 : hstate) evs sid w w' l1 l2 l3,
  log hstate dec_field enc_field enc_set_max cfg h0 evs =
    l1 ++ IOut (ORelease sid w) :: l2 ++ IOut (ORelease sid w') :: l3 -> False.
Proof. exact release_once. Qed.
Print Assumptions C17_release_once.

(* ... is not handed to a handler after that, and one handler is started per stream id *)
Theorem C17_no_dispatch_after_release : forall hstate dec_field enc_field enc_set_max cfg (h0 : hstate) evs sid w rq l1 l2 l3,
  log hstate dec_field enc_field enc_set_max cfg h0 evs =
    l1 ++ IOut (ORelease sid w) :: l2 ++ IOut (ODispatch sid rq) :: l3 -> False.
Proof. exact no_dispatch_after_release. Qed.
Print Assumptions C17_no_dispatch_after_release.

Theorem C17_dispatch_once : forall hstate dec_field enc_field enc_set_max cfg (h0 : hstate) evs sid rq rq' l1 l2 l3,
  log hstate dec_field enc_field enc_set_max cfg h0 evs =
    l1 ++ IOut (ODispatch sid rq) :: l2 ++ IOut (ODispatch sid rq') :: l3 -> False.
Proof. exact dispatch_once. Qed.
Print Assumptions C17_dispatch_once.

(* Example: stream 1 is reset by the peer while its handler runs; its release comes only after its EvDone. The log of
   the run, for stream 1: ... ODispatch 1 ... (RST_STREAM: no release) ... EvDone 1; ORelease 1. *)
Example C17_ex :
  let lg := log _ srv_dec_field srv_enc_field set_max_table_size cfgx srv_init_hpack evs_full in
  own_run 1 lg Owned = InPool /\ own_run 3 lg Owned = InPool /\ own_run 5 lg Owned = Owned /\
  (exists l1 l2 l3, lg = l1 ++ IOut (ODispatch 1 rq_get) :: l2 ++ IOut (ORelease 1 true) :: l3 /\
                    In (IEv (EvDone 1 resp200)) l2 /\ In (IEv (EvRL (RFrame (fRst 1 8)))) l2).
Proof.
  vm_compute. repeat split.
  eexists [_; _; _; _; _], [_; _; _; _; _; _; _; _; _; _; _; _], _. split; [reflexivity|]. split; cbn; tauto.
Qed.
