(* Property C20, client half: "the client delivers a response only if its header block is well formed (single valid
   :status first, lower-case, no connection-specific fields, numeric content-length) and otherwise fails that request
   alone" - on the client model (Impl/ClientConn.v, Impl/ClientInst.v). Statements only; proofs in Proofs/CliMsg*.v.
   The specification is wf_response of Spec/Http2Responses.v (RFC 7540 8.1, 8.1.2 - 8.1.2.6 for responses).

   Vocabulary: see Props/C02.v (cli_items, first_end, cli_never_idle, cst_sid, results_of).
     item_step / run_items   the receiver of ONE request at the grain of complete header blocks and DATA frames
                             (Proofs/CliMsgAuto.v): ICont = goes on waiting, IDone r = finish(nil) with Response r,
                             IFail e = finish(e). Proofs/CliMsgFeed.v proves that this IS what dispatch + readStream +
                             readHeaderFragment + readHeaderField do, fragment by fragment (Inv_feed_at).
     lax_response            the exact set of item lists answered with nil, written with the model's own tests
                             (parseUint, ...). C20_client_accepted_is_wf / C20_client_wf_is_accepted: it IS wf_response,
                             for content-length values that fit an int64 (cl_fits: parseUint refuses larger ones).
     Two deviations were found by these proofs and repaired in /repo (the model follows):
       (D1) a :status was any decimal number 100..999, so ":status: 0200" was delivered as 200   (03dd30d)
       (D3) an informational (1xx) block carrying END_STREAM was delivered as the response: nil, status 100   (aaab76f)

   Which errors are whose (Proofs/CliMsgFeed.v, tail_some / rhf_result; Impl: cl_rserr):
     request-scoped (CRSStream: finish(r, id, err), the stream is taken off the table, the read loop goes on):
       errInvalidStatus & co from readHeaderField (pseudo-header after a regular field, other pseudo-header, bad or second
       :status, upper-case name, connection-specific field, non-numeric content-length), a header block that is wrong for
       where the response stands (no :status first; 1xx after the final block; trailers without END_STREAM; :status in
       trailers), DATA before the response headers, RST_STREAM from the server;
     connection-scoped (CRSConn = GOAWAY-class Error: lastErr set, the read loop ends, everybody fails):
       a fragment that does not decode (COMPRESSION_ERROR, RFC 7540 4.3), a field still incomplete after 1 MiB of
       CONTINUATION (ENHANCE_YOUR_CALM), and before dispatch: a frame of another stream / a non-CONTINUATION frame
       inside a header block, a CONTINUATION without a block, PUSH_PROMISE. *)
From H2V Require Import Base.Bytes Base.MachineInt Base.Result Gen.GenConsts Impl.Hpack Impl.ServerConn Impl.ServerInst
  Impl.ClientConn Impl.ClientInst Spec.Http2Messages Spec.Http2Responses Proofs.CliBase Proofs.CliDefs Proofs.SrvIsoRef
  Proofs.CliMsgRef Proofs.CliMsgAuto Proofs.CliMsgMoves Proofs.CliMsgDisp Proofs.CliMsgStep Proofs.CliMsgInv Proofs.CliMsgFeed
  Proofs.CliMsgRun Proofs.CliMsgIds Proofs.CliMsgThm Proofs.CliMsgInst.
From Coq Require Import ZArith List String.
Import ListNotations.
Local Open Scope string_scope.
Local Open Scope N_scope.

(* ================= delivered nil => the response on that stream is well formed ================= *)

(* a nil result: the items received on the request's stream, up to the first END_STREAM, are an accepted response *)
Theorem C20_client_delivered_only_if_accepted :
  forall cfg first evs tag r resp,
    cli_never_idle cfg first evs -> In (tag, r, CENil, resp) (results_of (cli_tr cfg first evs)) ->
    let mine := first_end (cli_items cfg first evs (cst_sid (cli_run cfg first evs) tag)) in
    cst_sid (cli_run cfg first evs) tag <> 0 /\ lax_response mine = true /\ resp = asm cl_empty_resp mine.
Proof. exact cli_own_response. Qed.
Print Assumptions C20_client_delivered_only_if_accepted.

(* accepted => well formed *)
Theorem C20_client_accepted_is_wf :
  forall items, lax_response items = true -> wf_response items = true.
Proof. exact lax_response_wf. Qed.
Print Assumptions C20_client_accepted_is_wf.

(* the accepted set IS the specification's *)
Theorem C20_client_accepted_iff_wf :
  forall items, cl_fits items = true -> lax_response items = wf_response items.
Proof. exact lax_response_is_wf. Qed.
Print Assumptions C20_client_accepted_iff_wf.

(* hence: delivered nil => wf_response (blocks received on its stream), and the caller holds exactly that response *)
Theorem C20_client_delivered_only_if_wf :
  forall cfg first evs tag r resp,
    cli_never_idle cfg first evs -> In (tag, r, CENil, resp) (results_of (cli_tr cfg first evs)) ->
    let mine := first_end (cli_items cfg first evs (cst_sid (cli_run cfg first evs) tag)) in
    wf_response mine = true /\
    cr_fields resp = kept_items mine /\ cl_resp_body resp = body_of mine /\
    forall n fs, final_head mine = Some (n, fs) -> cr_status resp = Z.of_N n.
Proof. exact cli_own_response_rfc. Qed.
Print Assumptions C20_client_delivered_only_if_wf.

(* ================= conversely: a well-formed response is accepted, and delivered with nil ================= *)

(* every well-formed response (content-length values below 2^63) is one the receiver answers with nil, with this Response *)
Theorem C20_client_wf_is_accepted :
  forall items, wf_response items = true -> cl_fits items = true -> lax_response items = true.
Proof. exact wf_response_lax. Qed.
Print Assumptions C20_client_wf_is_accepted.

Theorem C20_client_accepted_runs_to_nil :
  forall items r, lax_response items = true -> run_items (r, false) items = IDone (asm r items).
Proof. exact run_complete. Qed.
Print Assumptions C20_client_accepted_runs_to_nil.

(* the verdict on a complete stream (its last item, and no other, has END_STREAM): nil iff accepted, otherwise the request
   fails with the malformed-response error - never anything else, never "goes on waiting" *)
Theorem C20_client_verdict :
  forall items r, existsb item_es items = true -> existsb item_es (removelast items) = false ->
    run_items (r, false) items = if lax_response items then IDone (asm r items) else IFail CEMalformed.
Proof. exact run_items_verdict. Qed.
Print Assumptions C20_client_verdict.

(* on the model: when the frame that completes an accepted response is taken in while its request is waiting (the Ctx can
   be taken: not given back, not cancelled) and nothing has resolved the request yet, the request's Err gets nil, its
   Response is exactly that response, and the stream is off the table *)
Theorem C20_client_complete_response_delivered :
  forall cfg first evs fr tag x r,
    let e := CEvRL (RFrame fr) in
    cli_never_idle cfg first (evs ++ [e]) -> cl_taken (cli_run cfg first evs) e = Some fr ->
    cl_req_find (cc_reqQueued (cli_run cfg first evs)) (sf_sid fr) = Some tag ->
    cl_acquire_for [] (cli_run cfg first evs) tag (sf_sid fr) = CLOk ->
    cst_ctx (cli_run cfg first evs) tag = Some x -> ct_err x = None -> ct_resolved x = false ->
    run_items rinit (cli_items cfg first (evs ++ [e]) (sf_sid fr)) = IDone r ->
    exists x3, cst_ctx (cli_run cfg first (evs ++ [e])) tag = Some x3 /\ ct_err x3 = Some CENil /\ ct_resp x3 = r /\
               cl_req_find (cc_reqQueued (cli_run cfg first (evs ++ [e]))) (sf_sid fr) = None.
Proof. exact cli_complete_response_delivered. Qed.
Print Assumptions C20_client_complete_response_delivered.

(* ... and the caller that then receives from Err gets exactly that: (error, Response as it stands) *)
Theorem C20_client_receive :
  forall hstate (dec_field : hstate -> N -> bytes -> dec_res hstate) enc_field enc_set_max cfg (c : cconn hstate) tag x e,
    cl_ctx_get c tag = Some x -> ct_returned x = false -> ct_err x = Some e -> ct_lckStuck x = false ->
    In (COResult tag (cl_retryable e) e (ct_resp x)) (cl_trace (cl_step dec_field enc_field enc_set_max cfg c (CEvReceive tag))).
Proof. exact @receive_result. Qed.
Print Assumptions C20_client_receive.

(* ================= a malformed response fails THAT request: every refusal of the receiver is the request's own error ================= *)
Theorem C20_client_refusal_is_malformed :
  forall p items e, run_items p items = IFail e -> e = CEMalformed.
Proof. exact run_items_fail. Qed.
Print Assumptions C20_client_refusal_is_malformed.

(* a request still on the table has received no END_STREAM and nothing refused: a malformed or complete response takes its
   request off the table in the very step that takes the offending / last frame in *)
Theorem C20_client_waiting_prefix :
  forall cfg first evs id tag,
    cli_never_idle cfg first evs -> In (id, tag) (cc_reqQueued (cli_run cfg first evs)) ->
    existsb item_es (cli_items cfg first evs id) = false /\ exists p, run_items rinit (cli_items cfg first evs id) = ICont p.
Proof. exact cli_waiting_prefix. Qed.
Print Assumptions C20_client_waiting_prefix.

(* a frame going through dispatch changes nothing but the decoder registers, the Ctx that takes it, and what finish and the
   loop's exit do: no other Ctx changes in (stream, Response, gotStatus, Request) or gets nil; nothing is added to the
   table; no HEADERS, DATA or result is written *)
Theorem C20_client_feed_frame_conditions :
  forall hstate (dec_field : hstate -> N -> bytes -> dec_res hstate) (c : cconn hstate) fr c3,
    herr_ok c -> feedmove dec_field fr c c3 ->
    exists tg, fm tg c c3 /\ herr_ok c3 /\ (forall t, tg = Some t -> exists x, cl_ctx_get c t = Some x /\ ct_sid x <> 0).
Proof. exact @feedmove_fm. Qed.
Print Assumptions C20_client_feed_frame_conditions.

(* ================= the known observations ================= *)
(* D3, found here and repaired (/repo aaab76f): an informational block with END_STREAM was delivered as the response
   (nil, status 100); it is refused now, the request alone *)
Example C20_client_interim_end_stream_refused :
  let evs := ex_one [ex_headers 1 true ex_block_100] in
  ex_summary evs = ([(0, CEMalformed, 100%Z, (-3)%Z, [], [])], true) /\
  cli_items ex_cfg [] evs 1 = [RBlock [(octets ":status", octets "100")] true] /\
  wf_response (cli_items ex_cfg [] evs 1) = false /\ lax_response (cli_items ex_cfg [] evs 1) = false.
Proof. exact ex_interim_end_refused. Qed.

(* D1, found here and repaired (/repo 03dd30d): ":status: 0200" is not a three-digit status code; it was delivered as 200 *)
Example C20_client_status_digits_refused :
  let evs := ex_one [ex_headers 1 true ex_block_0200] in
  ex_summary evs = ([(0, CEMalformed, 0%Z, (-3)%Z, [], [])], true) /\
  cli_items ex_cfg [] evs 1 = [RBlock [(octets ":status", octets "0200")] true] /\
  wf_response (cli_items ex_cfg [] evs 1) = false /\ lax_response (cli_items ex_cfg [] evs 1) = false.
Proof. exact ex_status_digits_refused. Qed.

(* conflicting content-length fields are accepted, the last one wins: well formed by the letter of the property ("numeric
   content-length"), not by RFC 7230 3.3.2 (wf_response_strict) *)
Example C20_client_two_content_lengths :
  let evs := ex_one [ex_headers 1 true ex_block_200_cl_cl] in
  ex_summary evs = ([(0, CENil, 200%Z, 7%Z, [], [])], true) /\
  wf_response (cli_items ex_cfg [] evs 1) = true /\ wf_response_strict (cli_items ex_cfg [] evs 1) = false.
Proof. exact ex_two_content_lengths. Qed.

(* now refused, the request alone: DATA before any HEADERS; :status after a regular field *)
Example C20_client_data_first : ex_summary (ex_one [ex_data 1 true [1; 2]]) = ([(0, CEMalformed, 0%Z, (-3)%Z, [], [1; 2])], true).
Proof. exact ex_data_first. Qed.
Example C20_client_status_after_regular :
  ex_summary (ex_one [ex_headers 1 true ex_block_xa_200]) = ([(0, CEMalformed, 0%Z, (-3)%Z, [(octets "x-a", octets "1")], [])], true).
Proof. exact ex_status_after_regular. Qed.
(* an empty field name goes through (outside the scope of wf_response, as of wf_request) *)
Example C20_client_empty_name :
  ex_summary (ex_one [ex_headers 1 true ex_block_200_empty_name]) = ([(0, CENil, 200%Z, (-3)%Z, [([], [120])], [])], true).
Proof. exact ex_empty_name. Qed.

(* the hypotheses of C20_client_complete_response_delivered hold on a concrete run: HEADERS (no END_STREAM) then the DATA
   frame that completes the response *)
Example C20_client_delivered_hypotheses :
  let fr := mkSFrame KData 1 1 2 [104; 105] 0 0 0 false 0 false 0 in
  let e := CEvRL (RFrame fr) in
  cli_never_idleb ex_cfg [] (ex_waiting ++ [e]) = true /\ cl_taken (cli_run ex_cfg [] ex_waiting) e = Some fr /\
  cl_req_find (cc_reqQueued (cli_run ex_cfg [] ex_waiting)) 1 = Some 0 /\ cl_acquire_for [] (cli_run ex_cfg [] ex_waiting) 0 1 = CLOk /\
  (exists x, cst_ctx (cli_run ex_cfg [] ex_waiting) 0 = Some x /\ ct_err x = None /\ ct_resolved x = false) /\
  run_items rinit (cli_items ex_cfg [] (ex_waiting ++ [e]) 1) = IDone (mkCResp 200 (-3) [(octets "x-a", octets "1")] [[104; 105]]) /\
  cst_ctx (cli_run ex_cfg [] (ex_waiting ++ [e])) 0 <> None.
Proof. exact ex_delivered_hyps. Qed.

(* the RFC's own examples (8.1.3) are well formed, accepted, and run to nil *)
Example C20_client_rfc_examples :
  wf_response ex_304 = true /\ wf_response ex_200 = true /\ wf_response ex_100_200_trailers = true /\
  lax_response ex_100_200_trailers = true /\
  (exists r, run_items rinit ex_100_200_trailers = IDone r /\ cr_status r = 200%Z /\ cl_resp_body r = [1; 2; 3]).
Proof. exact ex_rfc_examples. Qed.
