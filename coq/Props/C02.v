(* Property C02 - the client sends each request intact on a fresh odd increasing stream id, and each caller gets
   exactly the response the server sent on ITS stream - on the client model (Impl/ClientConn.v, Impl/ClientInst.v).
   Statements only; proofs in Proofs/CliMsg*.v. The planned statements are in Props/C02_statements.v.

   Vocabulary
     cli_run cfg first evs / cli_tr        the run of the instance (real HPACK model) and its trace (Proofs/CliDefs.v)
     header_ids tr                         the stream ids of the HEADERS frames written, in order
     results_of tr                         (tag, retry, error, Response) of every roundTripOnce that returned
     cst_sid c tag                         the stream the request of tag went out on
     cli_items cfg first evs id            what the read loop has received on stream id, in order: complete header blocks
                                           (HEADERS + CONTINUATION*, the fragments decoded one after the other by the reference
                                           decoder ref_loop of Proofs/SrvIsoRef.v over the instance's dec_field, in the one
                                           connection-wide context, whoever the block was for) and DATA frames, as `ritem`s
                                           of Spec/Http2Responses.v (Proofs/CliMsgInv.v: gst, gstep, own)
     first_end items                       the items up to and including the first one with END_STREAM
     cli_never_idle cfg first evs          HYPOTHESIS ON THE SERVER: it never sends a frame on a stream the client has not
                                           opened yet (RFC 7540 5.1.1 makes that a connection error; "a conforming server")
     wf_response / final_head / body_of    Spec/Http2Responses.v;  kept_items = the regular fields of all the blocks
                                           (informational, final, trailers) in order, content-length apart
     lax_response / asm                    Proofs/CliMsgAuto.v: the exact set of item lists the client answers with nil
                                           (= wf_response for content-length values below 2^63, Props/C20_client.v) and the
                                           Response it builds.

   Every server behaviour is covered: frames are parsed frames with arbitrary flags, lengths (padding: sf_len) and
   payloads, header blocks cut at any byte into any number of CONTINUATION frames, any interleaving of streams, and any
   schedule of callers, timers, Close and write failures in between ("for every event list"). *)
From H2V Require Import Props.C02_statements.
From H2V Require Import Base.Bytes Base.MachineInt Base.Result Gen.GenConsts Impl.Hpack Impl.ServerConn Impl.ServerInst
  Impl.ClientConn Impl.ClientInst Spec.Rfc7541 Spec.Http2Messages Spec.Http2Responses Proofs.HpackDefs Proofs.HpackEncDefs Proofs.HpackEncBlock
  Proofs.CliBase Proofs.CliDefs Proofs.SrvIsoRef
  Proofs.CliMsgRef Proofs.CliMsgAuto Proofs.CliMsgMoves Proofs.CliMsgDisp Proofs.CliMsgStep Proofs.CliMsgInv Proofs.CliMsgFeed
  Proofs.CliMsgRun Proofs.CliMsgIds Proofs.CliMsgThm Proofs.CliMsgReq Proofs.CliMsgDec Proofs.CliMsgReqDecSz Proofs.CliMsgReqDec Proofs.CliMsgInst.
From Coq Require Import ZArith List Sorted String.
Local Open Scope string_scope.
Import ListNotations.
Local Open Scope N_scope.

(* ================= (a) stream ids ================= *)

(* the HEADERS frames of ANY run carry the stream ids 1, 3, 5, ... in this order, none above 2^31-1 *)
Theorem C02_stream_ids :
  forall cfg first evs, exists k, header_ids (cli_tr cfg first evs) = odds k /\ 2 * N.of_nat k <= cl_maxStreamID + 1.
Proof. exact cli_stream_ids. Qed.
Print Assumptions C02_stream_ids.

(* ... hence odd, fresh and strictly increasing (the statement c02_stream_ids of Props/C02_statements.v, plus the bound) *)
Theorem C02_stream_ids_sorted :
  forall cfg first evs,
    let ids := header_ids (cli_tr cfg first evs) in
    StronglySorted N.lt ids /\ Forall (fun id => N.odd id = true) ids /\ Forall (fun id => id <= cl_maxStreamID) ids.
Proof. exact cli_stream_ids_sorted. Qed.
Print Assumptions C02_stream_ids_sorted.

(* generic in the HPACK coder, with nextID: while the write loop lives, nextID is the next odd number *)
Theorem C02_stream_ids_generic :
  forall hstate (dec_field : hstate -> N -> bytes -> dec_res hstate) enc_field enc_set_max cfg h0 first evs,
    let c := cl_run dec_field enc_field enc_set_max cfg h0 first evs in
    exists k, hdr_ids (cl_trace c) = odds k /\ 2 * N.of_nat k <= cl_maxStreamID + 1 /\
              (cl_wl_live c = true -> cc_nextID c = 2 * N.of_nat k + 1).
Proof. exact @stream_ids. Qed.
Print Assumptions C02_stream_ids_generic.

(* when the ids run out: writeRequest NEVER answers ErrNoMoreStreamIDs - CanOpenStream has already refused with
   ErrNotAvailableStreams (retryable), and nothing is written. [The planned "then ErrNoMoreStreamIDs" is dead code.] *)
Theorem C02_no_more_ids_unreachable :
  forall hstate enc_field enc_set_max (c : cconn hstate) tag,
    snd (cl_write_request enc_field enc_set_max c tag) <> CWRErr CENoIDs.
Proof. exact write_request_never_no_ids. Qed.
Print Assumptions C02_no_more_ids_unreachable.

(* ================= (c) response routing ================= *)

(* a caller that is told "no error" holds the Response built from the items received on ITS stream, up to the first
   END_STREAM - and of nothing else; that item list is one the client accepts (lax_response) *)
Theorem C02_own_response :
  forall cfg first evs tag r resp,
    cli_never_idle cfg first evs -> In (tag, r, CENil, resp) (results_of (cli_tr cfg first evs)) ->
    let mine := first_end (cli_items cfg first evs (cst_sid (cli_run cfg first evs) tag)) in
    cst_sid (cli_run cfg first evs) tag <> 0 /\ lax_response mine = true /\ resp = asm cl_empty_resp mine.
Proof. exact cli_own_response. Qed.
Print Assumptions C02_own_response.

(* ... in the words of RFC 7540: the response on that stream is well formed, and the caller holds its status, its fields
   in order (those of informational blocks and trailers included, content-length apart) and its body *)
Theorem C02_own_response_rfc :
  forall cfg first evs tag r resp,
    cli_never_idle cfg first evs -> In (tag, r, CENil, resp) (results_of (cli_tr cfg first evs)) ->
    let mine := first_end (cli_items cfg first evs (cst_sid (cli_run cfg first evs) tag)) in
    wf_response mine = true /\
    cr_fields resp = kept_items mine /\ cl_resp_body resp = body_of mine /\
    forall n fs, final_head mine = Some (n, fs) -> cr_status resp = Z.of_N n.
Proof. exact cli_own_response_rfc. Qed.
Print Assumptions C02_own_response_rfc.

(* generic in the HPACK coder *)
Theorem C02_own_response_generic :
  forall hstate (dec_field : hstate -> N -> bytes -> dec_res hstate) enc_field enc_set_max cfg h0 first evs tag r resp,
    never_idle dec_field enc_field enc_set_max cfg h0 first evs ->
    In (COResult tag r CENil resp) (cl_trace (cl_run dec_field enc_field enc_set_max cfg h0 first evs)) ->
    exists x, cl_ctx_get (cl_run dec_field enc_field enc_set_max cfg h0 first evs) tag = Some x /\ ct_sid x <> 0 /\
              let mine := first_end (own (ct_sid x) (g_items (cl_ghost dec_field enc_field enc_set_max cfg h0 first evs))) in
              lax_response mine = true /\ resp = asm cl_empty_resp mine.
Proof. exact @own_response. Qed.
Print Assumptions C02_own_response_generic.

(* a request still on the table has received nothing that ends or refuses its response: its items are a proper prefix of
   an acceptable response (no END_STREAM yet) *)
Theorem C02_waiting_prefix :
  forall cfg first evs id tag,
    cli_never_idle cfg first evs -> In (id, tag) (cc_reqQueued (cli_run cfg first evs)) ->
    existsb item_es (cli_items cfg first evs id) = false /\ exists p, run_items rinit (cli_items cfg first evs id) = ICont p.
Proof. exact cli_waiting_prefix. Qed.
Print Assumptions C02_waiting_prefix.

(* the key lemma, client analogue of C09 (a), for EVERY event list (no hypothesis on the server): while the read loop runs
   its HPACK decoder state is the reference decoder folded over ALL header-block fragments taken in, in arrival order -
   whether or not a request was waiting on their stream (blocks for cancelled / timed-out / unknown requests are decoded
   and dropped) - and the carry of a field cut by a frame boundary is where the next CONTINUATION looks for it *)
Theorem C02_decoder_is_reference :
  forall hstate (dec_field : hstate -> N -> bytes -> dec_res hstate) enc_field enc_set_max cfg h0 first evs,
    let c := cl_run dec_field enc_field enc_set_max cfg h0 first evs in
    let g := cl_ghost dec_field enc_field enc_set_max cfg h0 first evs in
    cl_rl_live c = true ->
    cc_dec c = g_d g /\
    match g_open g with
    | None => cc_hdrStream c = 0
    | Some (s, es, fs) => cc_hdrStream c = s /\ cc_hdrFields c = g_n g /\ cc_hdrPrev c = g_carry g
    end.
Proof. exact @decoder_is_reference. Qed.
Print Assumptions C02_decoder_is_reference.

(* For the instance, cli_dec_field = srv_dec_field, so the reference is the one of the server's C09 (a): it is the header-block
   loop of Impl/Hpack.v (Props/C09.v C09_reference_is_hpack_model), which Props/C03.v proves to be RFC 7541
   (C03_dec_refines_spec) and independent of where a block is cut into CONTINUATION frames (C03_split_invariance). *)

(* the decoding loop of readHeaderFragment threads dec_field exactly as the reference does, whether or not a Response is
   there to take the fields and whether or not an earlier field was refused *)
Theorem C02_hdr_loop_is_reference :
  forall hstate (dec_field : hstate -> N -> bytes -> dec_res hstate) fuel eh d n rs st he res b fs d' n' carry,
    ref_loop dec_field fuel eh d n b = ROk fs d' n' carry ->
    cl_hdr_loop dec_field fuel eh d n rs st he res b =
    (let '(rs', st', he', res') := hf_fold (rs, st, he, res) fs in (d', n', rs', st', he', res', carry, CRSNone)).
Proof. exact cl_hdr_loop_ok. Qed.
Print Assumptions C02_hdr_loop_is_reference.

Theorem C02_hdr_loop_error_class :
  forall hstate (dec_field : hstate -> N -> bytes -> dec_res hstate) fuel eh d n rs st he res b,
    snd (cl_hdr_loop dec_field fuel eh d n rs st he res b) = err_class (ref_loop dec_field fuel eh d n b).
Proof. exact cl_hdr_loop_class. Qed.
Print Assumptions C02_hdr_loop_error_class.

(* dispatch only touches the Ctx on the table under the frame's stream id: every step is a sequence of micro-moves, the
   only one that writes into a Response being the feed of the frame the step takes in (Proofs/CliMsgDisp.v, CliMsgStep.v) *)
Theorem C02_step_decomposition :
  forall hstate (dec_field : hstate -> N -> bytes -> dec_res hstate) enc_field enc_set_max cfg (c : cconn hstate) e,
    Pre c -> mvs dec_field enc_field enc_set_max (cl_taken c e) c (cl_step dec_field enc_field enc_set_max cfg c e).
Proof. exact @step_mvs. Qed.
Print Assumptions C02_step_decomposition.

(* ================= (b) request integrity ================= *)
(* Vocabulary (Proofs/CliMsgReq.v):
     cl_request_block enc e rq   the header block of rq from encoder state e: enc applied to :authority, :method, :path,
                                 :scheme, user-agent (store = true), then to every other field, name in lower case, except
                                 user-agent and the connection-specific ones (store = false), in order (Impl/ClientConn.v)
     enc_chain enc sm e0 l e     the encoder, started in e0, has produced the blocks of l = [(rq1, blk1); ...] in this order,
                                 with SetMaxTableSize calls in between, and is now in e
     rentry = (stream, tag, request, block);  re_hdr r = (stream, END_STREAM = request has no body, block)
   The HEADERS frames of ANY run are, in order, exactly the encoder's blocks for the requests of the Ctx that went out on
   those streams (stream ids: (a)); while the write loop lives every block the encoder produced has been written
   (C02_request_blocks). With the SetMaxTableSize calls in between (C02_request_blocks_sizes_generic): each is given a
   value cc_encTableSize had at the start of a step, i.e. the one of the handshake or the HEADER_TABLE_SIZE of a SETTINGS
   frame the read loop took in (Proofs/CliMsgReqDecSz.v ets_step). An RFC 7541 decoder that reads the frames in order
   gets exactly the requests' field lists and stays in step with the encoder: C02_requests_decode (any history),
   C02_requests_intact (the statement c02_requests_intact of Props/C02_statements.v: the server does not change
   HEADER_TABLE_SIZE after the handshake).
   The body: Props/C07.v (C07_upload_whole_run: the DATA payloads on the stream are a prefix of the request's body, whole
   with exactly one END_STREAM once the windows allow; buffered or streamed, declared or unknown length, a reader that
   returns more than the declared length is cut at it: rq_body; C07_completes_when_granted). *)
Theorem C02_request_blocks :
  forall cfg first evs,
    exists l : list rentry,
      headers_of (cli_tr cfg first evs) = map re_hdr l /\
      (forall id tag rq blk, In (id, tag, rq, blk) l ->
         id <> 0 /\ exists x, cst_ctx (cli_run cfg first evs) tag = Some x /\ ct_sid x = id /\ ct_req x = rq) /\
      exists e, enc_chain cli_enc_field set_max_table_size (cc_enc (cli_init first)) (map re_rb l) e /\
                (cl_wl_live (cli_run cfg first evs) = true -> e = cc_enc (cli_run cfg first evs)).
Proof. exact cli_request_blocks. Qed.
Print Assumptions C02_request_blocks.

(* generic in the HPACK coder *)
Theorem C02_request_blocks_generic :
  forall hstate (dec_field : hstate -> N -> bytes -> dec_res hstate) enc_field enc_set_max cfg h0 first evs,
    let c := cl_run dec_field enc_field enc_set_max cfg h0 first evs in
    exists l : list rentry,
      hdrs_of (cl_trace c) = map re_hdr l /\
      (forall id tag rq blk, In (id, tag, rq, blk) l -> id <> 0 /\ exists x, cl_ctx_get c tag = Some x /\ ct_sid x = id /\ ct_req x = rq) /\
      exists e, enc_chain enc_field enc_set_max (cc_enc (cl_init enc_set_max h0 first)) (map re_rb l) e /\
                (cl_wl_live c = true -> e = cc_enc c).
Proof. exact @request_blocks. Qed.
Print Assumptions C02_request_blocks_generic.

(* END_STREAM is on the HEADERS frame exactly when the request has no body *)
Theorem C02_end_stream_on_headers :
  forall hstate (dec_field : hstate -> N -> bytes -> dec_res hstate) enc_field enc_set_max cfg h0 first evs id es blk,
    let c := cl_run dec_field enc_field enc_set_max cfg h0 first evs in
    In (COHeaders id es blk) (cl_trace c) ->
    exists tag x, cl_ctx_get c tag = Some x /\ ct_sid x = id /\ es = negb (rq_has_body (ct_req x)).
Proof. exact @end_stream_on_headers. Qed.
Print Assumptions C02_end_stream_on_headers.

(* generic in the HPACK coder, with the SetMaxTableSize calls (inl n) between the blocks (inr): every size the encoder
   is given satisfies any predicate that holds of cc_encTableSize at the start of every step *)
Theorem C02_request_blocks_sizes_generic :
  forall hstate (dec_field : hstate -> N -> bytes -> dec_res hstate) enc_field enc_set_max cfg h0 first (Psz : N -> Prop) evs,
    let run := cl_run dec_field enc_field enc_set_max cfg h0 first in
    (forall pre post, evs = (pre ++ post)%list -> Psz (cc_encTableSize (run pre))) ->
    exists ops : list (N + rentry),
      hdrs_of (cl_trace (run evs)) = map re_hdr (rights_of ops) /\
      (forall id tag rq blk, In (id, tag, rq, blk) (rights_of ops) ->
         id <> 0 /\ exists x, cl_ctx_get (run evs) tag = Some x /\ ct_sid x = id /\ ct_req x = rq) /\
      Forall Psz (sizes_of ops) /\
      exists e, enc_chain_s enc_field enc_set_max (cc_enc (cl_init enc_set_max h0 first)) (map rop_eop ops) e /\
                (cl_wl_live (run evs) = true -> e = cc_enc (run evs)).
Proof. exact @request_blocks_sizes. Qed.
Print Assumptions C02_request_blocks_sizes_generic.

(* cc_encTableSize only changes when the read loop takes in a SETTINGS frame that carries HEADER_TABLE_SIZE *)
Theorem C02_table_size_provenance :
  forall hstate (dec_field : hstate -> N -> bytes -> dec_res hstate) enc_field enc_set_max cfg (c : cconn hstate) e,
    cc_encTableSize (cl_step dec_field enc_field enc_set_max cfg c e) = cc_encTableSize c \/
    exists fr st, e = CEvRL (RFrame fr) /\ sf_sid fr = 0 /\ sf_kind fr = KSettings /\ flag_has (sf_flags fr) FL_ES = false /\
      cl_rl_live c = true /\ cc_netClosed c = false /\
      cl_settings_deserialize false (sf_payload fr) = Some st /\ cl_settings_has st c_HeaderTableSize = true /\
      cc_encTableSize (cl_step dec_field enc_field enc_set_max cfg c e) = cs_table st.
Proof. exact @ets_step. Qed.
Print Assumptions C02_table_size_provenance.

(* THE SERVER RECEIVES EACH REQUEST EXACTLY AS GIVEN, for every history.
   Vocabulary (Proofs/CliMsgReqDec.v):
     ops : list (N + rentry)       what the encoder did, in order: inl n = SetMaxTableSize(n), inr (stream, tag, rq, blk) = a block
     announced first evs n         n is the table size of the handshake or the HEADER_TABLE_SIZE of a SETTINGS frame of evs
     cli_dec0 first                the server's decoder after the handshake: RFC 7541's initial table (maximum size 4096), the
                                   limit at the value the client took from the first SETTINGS (values above 4096 are not taken)
     dec_ops d [..]                the decoder of Spec/Rfc7541.v over the blocks in order (spec_decode_block), its limit set
                                   (spec_set_limit) where the client's encoder is given the new size - RFC 7541 4.2: the limit
                                   is the value the decoder announced and the encoder acknowledged
     triple (k, v) = (k, v, false) a field, not never-indexed;  request_fields rq: Proofs/CliDefs.v
     Inv enc dec pend / in_sync    Proofs/HpackEncBlock.v, Proofs/HpackEncDefs.v (C04): the decoder's table is the encoder's
                                   (after a size change: once the update the next block starts with has been read)
   HYPOTHESES  sizes_small evs: every HEADER_TABLE_SIZE the server sends is below 2^31;
               requests_ok evs: every request submitted is made of bytes, every field shorter than 2^31 - 32.
   Decoding succeeds and yields, block by block, exactly the request's field list - same names, values and order, nothing
   never-indexed; while the write loop lives the decoder is in step with the client's encoder. *)
Theorem C02_requests_decode :
  forall cfg first evs,
    sizes_small evs -> requests_ok evs ->
    exists ops : list (N + rentry),
      headers_of (cli_tr cfg first evs) = map re_hdr (rights_of ops) /\
      (forall id tag rq blk, In (id, tag, rq, blk) (rights_of ops) ->
         id <> 0 /\ exists x, cst_ctx (cli_run cfg first evs) tag = Some x /\ ct_sid x = id /\ ct_req x = rq) /\
      Forall (announced first evs) (sizes_of ops) /\
      exists d pend,
        dec_ops (cli_dec0 first) (map rop_dop ops) = Some (map (fun r => map triple (request_fields (re_rq r))) (rights_of ops), d) /\
        (cl_wl_live (cli_run cfg first evs) = true ->
         HpackEncBlock.Inv (cc_enc (cli_run cfg first evs)) d pend /\
         (h_pending (cc_enc (cli_run cfg first evs)) = false -> in_sync (cc_enc (cli_run cfg first evs)) d = true)).
Proof. exact cli_requests_decode. Qed.
Print Assumptions C02_requests_decode.

(* the blocks dec_ops is given are the payloads of the HEADERS frames, in order *)
Theorem C02_requests_decode_blocks :
  forall tr (ops : list (N + rentry)), headers_of tr = map re_hdr (rights_of ops) -> header_blocks tr = rights_of (map rop_dop ops).
Proof. exact header_blocks_ops. Qed.
Print Assumptions C02_requests_decode_blocks.

(* the statement of Props/C02_statements.v (corrected there): the server keeps the HEADER_TABLE_SIZE of its first SETTINGS *)
Theorem C02_requests_intact : c02_requests_intact.
Proof. exact cli_requests_intact. Qed.
Print Assumptions C02_requests_intact.

(* ================= (d) cancellation and timeouts in between ================= *)
(* qm P c c' (Proofs/CliMsgMoves.v): c' differs from c by a "quiet move": the read loop's decoder and header-block
   registers, nextID and the encoder are unchanged; no Ctx changes in (tag, stream, Response, gotStatus, Request) and none
   gets nil; reqQueued and the in queue only lose entries; only items satisfying P are added to the trace (q2: no HEADERS,
   no DATA, no result); no loop is revived. Both halves of fireTimeout (the timer running out, then Conn.cancel: the stream
   is taken off the table, RST_STREAM(CANCEL) queued), Conn.Close in its two halves and the second select of Conn.Write are
   quiet moves: they cannot disturb any other request's response, nor the decoder (C02_decoder_is_reference holds for every
   event list: the blocks of cancelled / timed-out requests are still decoded, then dropped). *)
Theorem C02_timeout_is_quiet :
  forall hstate (c : cconn hstate) tag, qm q2 c (cl_timeout_fire c tag) /\ qm q2 c (cl_timeout_cancel c tag).
Proof. exact timeout_quiet. Qed.
Print Assumptions C02_timeout_is_quiet.

Theorem C02_close_is_quiet :
  forall hstate (c : cconn hstate), qm q2 c (cl_close_call c) /\ qm q2 c (cl_close_finish c).
Proof. exact close_quiet. Qed.
Print Assumptions C02_close_is_quiet.

(* DATA for a stream nobody waits on any more is counted: the read loop's connection window after the frame, and the
   connection-level WINDOW_UPDATE it triggers, do not depend on whether a Response is there to take the body *)
Theorem C02_data_window_counted :
  forall hstate (dec_field : hstate -> N -> bytes -> dec_res hstate) (c : cconn hstate) fr res,
    sf_kind fr = KData ->
    let cur := cl_i32 (cc_currentWindow c - Z.of_N (sf_len fr)) in
    cc_currentWindow (fst (fst (fst (cl_read_stream dec_field c fr res)))) = (if (cur <? cl_maxWindow / 2)%Z then cl_maxWindow else cur) /\
    (cc_closed c = false -> (cur <? cl_maxWindow / 2)%Z = true ->
     exists q, cc_outQ (fst (fst (fst (cl_read_stream dec_field c fr res)))) = (q ++ [COWinUpd 0 (cl_maxWindow - cur)])%list).
Proof. exact data_window_counted. Qed.
Print Assumptions C02_data_window_counted.

(* ================= examples ================= *)
Example C02_example_ids : header_ids (cli_tr ex_cfg [] ex_two_ok) = [1; 3] /\ odds 2 = [1; 3].
Proof. exact ex_two_ids. Qed.

(* two requests, the second answered first, responses interleaved, the first header block cut inside a field name *)
Example C02_example_results :
  ex_summary ex_two_ok =
  ([(0, CENil, 200%Z, (-3)%Z, [([120; 45; 97], [49])], [104; 105]); (1, CENil, 404%Z, (-3)%Z, [], [110; 111; 116])], true).
Proof. exact ex_two_results. Qed.

Example C02_example_items :
  cli_items ex_cfg [] ex_two_ok 1 = [RBlock [(octets ":status", octets "200"); (octets "x-a", octets "1")] false; RData [104; 105] true] /\
  cli_items ex_cfg [] ex_two_ok 3 = [RBlock [(octets ":status", octets "404")] false; RData [110; 111] false; RData [116] true] /\
  wf_response (cli_items ex_cfg [] ex_two_ok 1) = true /\ wf_response (cli_items ex_cfg [] ex_two_ok 3) = true /\
  cst_sid (cli_run ex_cfg [] ex_two_ok) 0 = 1 /\ cst_sid (cli_run ex_cfg [] ex_two_ok) 1 = 3.
Proof. exact ex_two_items. Qed.

Example C02_example_waiting :
  cli_never_idleb ex_cfg [] ex_waiting = true /\ In (1, 0) (cc_reqQueued (cli_run ex_cfg [] ex_waiting)) /\
  cli_items ex_cfg [] ex_waiting 1 = [RBlock [(octets ":status", octets "200"); (octets "x-a", octets "1")] false].
Proof. exact ex_waiting_hyps. Qed.

(* the two header blocks of that run, the second encoded in the state the first left the encoder in; the bodies *)
Example C02_example_blocks :
  let e0 := cc_enc (cli_init []) in
  let b1 := cl_request_block cli_enc_field e0 ex_get in
  let b2 := cl_request_block cli_enc_field (snd b1) (ex_post (CBuf [1; 2; 3])) in
  headers_of (cli_tr ex_cfg [] ex_two_ok) = [(1, true, fst b1); (3, false, fst b2)] /\
  cc_enc (cli_run ex_cfg [] ex_two_ok) = snd b2 /\
  data_of 3 (cli_tr ex_cfg [] ex_two_ok) = [(true, [1; 2; 3])] /\ data_of 1 (cli_tr ex_cfg [] ex_two_ok) = [].
Proof. exact ex_two_blocks. Qed.

(* request 0 times out and is cancelled while the server is half way through its response; the rest of that response is
   decoded and dropped, the DATA is counted, and request 1 gets its own response, which uses the dynamic table entry the
   dropped block created (index 62) *)
Example C02_example_cancelled :
  ex_summary_armed ex_cancelled =
  ([(0, CETimeout, 0%Z, (-3)%Z, [], []); (1, CENil, 200%Z, (-3)%Z, [([120; 45; 97], [49])], [104; 105])], true) /\
  cli_items ex_cfg_armed [] ex_cancelled 3 = [RBlock [(octets ":status", octets "200"); (octets "x-a", octets "1")] false; RData [104; 105] true] /\
  cli_items ex_cfg_armed [] ex_cancelled 1 = [RBlock [(octets ":status", octets "200"); (octets "x-a", octets "1")] false; RData [104; 105] true].
Proof. exact ex_cancelled_ok. Qed.

(* the hypothesis on the server excludes something: a frame on stream 1 before the client has opened it *)
Example C02_example_idle_stream :
  cli_never_idleb ex_cfg [] [CEvRL (ex_headers 1 true ex_block_404); CEvSubmit 0 ex_get true; CEvWLIn] = false.
Proof. exact ex_idle_stream. Qed.

(* (b): the hypotheses of C02_requests_decode hold of a run with three requests (the second repeats the first, so its block
   refers to the dynamic table) and a SETTINGS frame that lowers HEADER_TABLE_SIZE to 100 in between (table_size_fixed
   does not hold of it) *)
Example C02_example_decode_hyps : sizes_small ex_dec_evs /\ requests_ok ex_dec_evs /\ table_size_frame ex_dec_evs 100.
Proof. exact ex_dec_hyps. Qed.

Example C02_example_decode :
  headers_of (cli_tr ex_cfg [] ex_dec_evs) =
    [(1, true, [65; 129; 159; 130; 132; 135; 122; 129; 183; 0; 131; 242; 176; 255; 129; 15]);
     (3, true, [63; 69; 191; 130; 132; 135; 190; 0; 131; 242; 176; 255; 129; 15]);
     (5, false, [191; 131; 132; 135; 186])] /\
  (exists d, dec_ops (cli_dec0 []) (inr (A:=N) [65; 129; 159; 130; 132; 135; 122; 129; 183; 0; 131; 242; 176; 255; 129; 15] :: inl 100 ::
                                 inr [63; 69; 191; 130; 132; 135; 190; 0; 131; 242; 176; 255; 129; 15] :: inr [191; 131; 132; 135; 186] :: nil)
             = Some (map (fun rq => map triple (request_fields rq)) [ex_rq_xa; ex_rq_xa; ex_post (CBuf [1; 2])], d) /\
             in_sync (cc_enc (cli_run ex_cfg [] ex_dec_evs)) d = true /\ dt_max d = 100 /\ List.length (dt_entries d) = 2%nat) /\
  request_fields ex_rq_xa = [(S_authority, [104]); (S_method, [71; 69; 84]); (S_path, [47]); (S_scheme, [104; 116; 116; 112; 115]);
                             (S_user_agent, [117]); ([120; 45; 97], [49])].
Proof. exact ex_dec_run. Qed.

(* the hypotheses of C02_requests_intact hold of the two requests of ex_two_ok *)
Example C02_example_intact_hyps :
  cl_settings_deserialize false [] <> None /\ table_size_fixed CliMsgInst.ex_two_ok /\ requests_ok CliMsgInst.ex_two_ok.
Proof. exact ex_intact_hyps. Qed.

(* OBSERVATION (b): the header block that carries the size update for a raised HEADER_TABLE_SIZE can be written before the
   SETTINGS ACK (still in the out queue here); a decoder whose limit is still 4096 refuses it *)
Example C02_example_size_update_before_ack :
  let evs := [CEvSubmit 0 ex_get true; CEvRL (ex_settings 1 8192); CEvWLIn] in
  (exists b, headers_of (cli_tr ex_cfg [] evs) = [(1, true, 63 :: 225 :: 63 :: b)]) /\
  existsb (fun o => match o with COSettingsAck => true | _ => false end) (cli_tr ex_cfg [] evs) = false /\
  cc_outQ (cli_run ex_cfg [] evs) = [COSettingsAck] /\
  spec_decode_block (dtable_init 4096) (snd (hd (0, true, []) (headers_of (cli_tr ex_cfg [] evs)))) = None.
Proof. exact ex_size_update_before_ack. Qed.
