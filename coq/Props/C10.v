(* C10 - server GOAWAY tells the truth and connection errors end the connection.
   Only statements; proofs are lemmas of Proofs/SrvInvGoAway.v (invariants OI/SI of Proofs/SrvInvOut.v, SrvInvSlots.v,
   proved for every event list and every HPACK coder). *)
From Coq Require Import List NArith ZArith Bool.
From H2V Require Import Base.Bytes Base.MachineInt Base.Result Gen.GenConsts Impl.Hpack Impl.ServerConn Impl.ServerInst
  Proofs.SrvBase Proofs.SrvInvMoves Proofs.SrvInvDecomp Proofs.SrvInvSteps Proofs.SrvInvGoAway Proofs.SrvInvExamples.
Import ListNotations.
Local Open Scope N_scope.

(* (i) every GOAWAY in the trace - also one queued after the stream loop had ended (OLate) - carries a last-stream-id
   that is at least every stream id whose request is dispatched anywhere in the whole trace, before or after it *)
Theorem C10_goaway_truth : forall hstate dec_field enc_field enc_set_max cfg (h0 : hstate) evs last code sid rq,
  let tr := trace (run dec_field enc_field enc_set_max cfg h0 evs) in
  In (OGoAway last code) tr \/ In (OLate (OGoAway last code)) tr -> In (ODispatch sid rq) tr -> sid <= last.
Proof. exact goaway_truth. Qed.
Print Assumptions C10_goaway_truth.

(* the id it carries is sc_lastID, and the connection is marked closing from then on *)
Theorem C10_goaway_state : forall hstate dec_field enc_field enc_set_max cfg (h0 : hstate) evs last code,
  let c := run dec_field enc_field enc_set_max cfg h0 evs in
  In (OGoAway last code) (trace c) \/ In (OLate (OGoAway last code)) (trace c) ->
  last = sc_lastID c /\ sc_closing c = true.
Proof. exact goaway_state. Qed.
Print Assumptions C10_goaway_state.

(* (ii) opens no further stream: whatever events follow a GOAWAY, sc_lastID stays the id it carried, no
   HEADERS-opened stream appears in the table that was not there, and every request dispatched from then on belongs
   to a stream that was open in the table when the GOAWAY had been sent (and is not above its last-stream-id) *)
Theorem C10_no_new_stream_after_goaway : forall hstate dec_field enc_field enc_set_max cfg (h0 : hstate) evs1 evs2 last code,
  let a := run dec_field enc_field enc_set_max cfg h0 evs1 in
  let b := run dec_field enc_field enc_set_max cfg h0 (evs1 ++ evs2) in
  In (OGoAway last code) (trace a) \/ In (OLate (OGoAway last code)) (trace a) ->
  sc_lastID b = last /\ incl (hdr_ids (sc_strms b)) (hdr_ids (sc_strms a)) /\
  forall sid rq, In (ODispatch sid rq) (trace b) ->
    In (ODispatch sid rq) (trace a) \/ (In sid (hdr_ids (sc_strms a)) /\ sid <= last).
Proof. exact goaway_then_no_new_stream. Qed.
Print Assumptions C10_no_new_stream_after_goaway.

(* the same on the state, for any way the connection became closing *)
Theorem C10_closing_freezes : forall hstate dec_field enc_field enc_set_max cfg (h0 : hstate) evs1 evs2,
  let a := run dec_field enc_field enc_set_max cfg h0 evs1 in
  let b := run dec_field enc_field enc_set_max cfg h0 (evs1 ++ evs2) in
  sc_closing a = true ->
  sc_closing b = true /\ sc_lastID b = sc_lastID a /\ incl (hdr_ids (sc_strms b)) (hdr_ids (sc_strms a)) /\
  forall sid rq, In (ODispatch sid rq) (trace b) -> In (ODispatch sid rq) (trace a) \/ In sid (hdr_ids (sc_strms a)).
Proof. exact no_stream_after_goaway. Qed.
Print Assumptions C10_closing_freezes.

(* (iii) which codes: a GOAWAY emitted by a step carries a code of the stream loop's list
   sl_codes = [PROTOCOL_ERROR; FLOW_CONTROL_ERROR; STREAM_CLOSED; COMPRESSION_ERROR; ENHANCE_YOUR_CALM; INTERNAL_ERROR]
   (never NO_ERROR), or the code the event itself brought: the frame parser's error code (EvRL (RBadFrame (Some code)))
   or NO_ERROR when the idle timer closes the connection (EvIdle). Per site: the read loop only ever sends
   PROTOCOL_ERROR or the parser's code (omv_rl_goaway), the idle timer NO_ERROR (omv_idle), the stream loop the codes
   of sl_codes (mv_goaway); see Proofs/SrvInvSteps.v, SrvInvDecomp.v, SrvInvMoves.v. *)
Theorem C10_goaway_codes : forall hstate dec_field enc_field enc_set_max cfg (h0 : hstate) evs e last code,
  let a := run dec_field enc_field enc_set_max cfg h0 evs in
  let b := step dec_field enc_field enc_set_max cfg a e in
  In (OGoAway last code) (sc_out b) \/ In (OLate (OGoAway last code)) (sc_out b) ->
  (In (OGoAway last code) (sc_out a) \/ In (OLate (OGoAway last code)) (sc_out a)) \/
  In code sl_codes \/ parser_code e = Some code.
Proof. exact goaway_code_of_step. Qed.
Print Assumptions C10_goaway_codes.

(* (iv) termination. The model has no blocking, so "returns within a bounded time ... even if the peer keeps sending or
   stops reading" is not a statement about it. A model of the blocking structure would have to show: (1) the read loop
   never blocks for good on `sc.reader <- fr` (the stream loop keeps receiving, or forward sees it gone); (2) sc.write
   never blocks for good (the write loop drains, or writeStop is closed); (3) once the read loop has exited and closed
   sc.reader, the stream loop reaches the `!ok` arm of its select after at most len(sc.reader) iterations.
   The functional content of (3), for EVERY state (reachable or not): *)
Theorem C10_stream_loop_returns_when_drained : forall hstate dec_field enc_field enc_set_max cfg (c : sconn hstate),
  sc_rl_done c = true ->
  sc_sl_done (run_from dec_field enc_field enc_set_max cfg c (repeat EvSL (S (length (sc_readerQ c))))) = true.
Proof. exact stream_loop_returns_when_drained. Qed.
Print Assumptions C10_stream_loop_returns_when_drained.

Theorem C10_reader_closed_after_eof : forall hstate dec_field enc_field enc_set_max cfg (c : sconn hstate),
  sc_rl_done (step dec_field enc_field enc_set_max cfg c (EvRL RLEof)) = true.
Proof. exact rl_done_after_eof. Qed.
Print Assumptions C10_reader_closed_after_eof.

(* Example: requests 1 and 3 are dispatched, a DATA frame on idle stream 9 draws GOAWAY(last = 3, PROTOCOL_ERROR):
   3 >= 1, 3; the connection is closing; with the reader closed the stream loop is done *)
Example C10_ex :
  let c := srv_run cfgx evs_full in
  In (OGoAway 3 c_ProtocolError) (srv_trace c) /\ In (ODispatch 1 rq_get) (srv_trace c) /\ In (ODispatch 3 rq_get) (srv_trace c) /\
  sc_lastID c = 3 /\ sc_closing c = true /\ sc_rl_done c = true /\ sc_sl_done c = true /\ In c_ProtocolError sl_codes.
Proof. vm_compute. repeat split; tauto. Qed.

(* Example for (ii): after the GOAWAY, a new HEADERS on stream 11 is not dispatched *)
Example C10_ex_after :
  let c := srv_run cfgx (evs_slots ++ [EvIdle; EvRL (RFrame (fH 11 5)); EvSL; EvDone 3 resp200]) in
  srv_trace c = [OSettingsAck; ODispatch 1 rq_get; ODispatch 3 rq_get; ORst 5 7; ORst 7 7; OGoAway 3 0; ORst 11 7;
                 OHeaders 3 false [136]; OData 3 true [104; 105]; ORelease 3 true] /\ sc_lastID c = 3.
Proof. vm_compute. split; reflexivity. Qed.
