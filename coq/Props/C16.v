(* C16 - wire parsers are total, bounded, position-exact and pool-safe: the frame reader.
   (The HPACK half of the property has its own theorems.) Only statements here; every
   proof is one lemma of Proofs/FramesC16.v. *)
From Coq Require Import List NArith ZArith Bool.
From H2V Require Import Base.Bytes Base.MachineInt Base.Result Gen.GenConsts Spec.Rfc7540Frames
  Impl.Pools Impl.Frames Impl.FrameView
  Proofs.FramesSpec Proofs.FramesRead Proofs.FramesC16 Proofs.FramesPooled
  Proofs.FramesExamples.   (* compiled with the property so that the examples are checked too *)
Import ListNotations.
Local Open Scope N_scope.

(* 1. for every byte string and every limit, reading a frame never panics *)
Theorem C16_read_total : forall max b,
  bytes_ok b = true -> forall w, ro_res (read_frame_with_size max b) <> Panic w.
Proof. exact read_total. Qed.
Print Assumptions C16_read_total.

(* 2. whatever is returned is a correct reading, per the RFC parser, of exactly the bytes
   consumed, which are 9+length bytes, are there, and are within the limit *)
Theorem C16_read_sound : forall max b fr,
  bytes_ok b = true -> ro_res (read_frame_with_size max b) = Ok fr ->
  exists f, let k := ro_used (read_frame_with_size max b) in
    spec_parse (takeN k b) = Some (f, []) /\ takeN k b = spec_write f /\ wf f /\
    fr = view max f /\ k = 9 + payload_len f /\ k <= len b /\ payload_len f <= effective_limit max.
Proof. exact read_sound. Qed.
Print Assumptions C16_read_sound.

(* the reader refines the RFC's reader on every input: short input, over-size, unknown
   type (skipped whole), impossible structure (consumed whole), or the frame *)
Theorem C16_read_refines_spec : forall max b,
  bytes_ok b = true ->
  read_expect max (spec_read (effective_limit max) b) (read_frame_with_size max b).
Proof. exact read_refines_spec. Qed.
Print Assumptions C16_read_refines_spec.

(* unknown types: the unknown-type error after discarding exactly 9+length bytes, the
   reader left at the next frame, nothing allocated *)
Theorem C16_read_unknown_type : forall max b n ty fl r sid rest,
  bytes_ok b = true -> parse_header b = Some (n, ty, fl, r, sid, rest) ->
  9 < ty -> n <= effective_limit max -> n <= len rest ->
  let o := read_frame_with_size max b in
  ro_res o = Err E_unknown_type /\ ro_used o = 9 + n /\ ro_alloc o = 0.
Proof. exact read_unknown_type. Qed.
Print Assumptions C16_read_unknown_type.

(* frames over the negotiated size are refused before any allocation, whatever the type *)
Theorem C16_read_too_large : forall max b n ty fl r sid rest,
  bytes_ok b = true -> parse_header b = Some (n, ty, fl, r, sid, rest) ->
  effective_limit max < n ->
  let o := read_frame_with_size max b in
  ro_res o = Err E_too_large /\ ro_used o = 9 /\ ro_alloc o = 0.
Proof. exact read_too_large. Qed.
Print Assumptions C16_read_too_large.

(* the payload buffer asked for never exceeds the limit; no more is taken than is there *)
Theorem C16_read_alloc_bounded : forall max b,
  bytes_ok b = true -> ro_alloc (read_frame_with_size max b) <= effective_limit max.
Proof. exact read_alloc_bounded. Qed.
Print Assumptions C16_read_alloc_bounded.

Theorem C16_read_used_bounded : forall max b,
  bytes_ok b = true -> ro_used (read_frame_with_size max b) <= len b.
Proof. exact read_used_bounded. Qed.
Print Assumptions C16_read_used_bounded.

(* 3. a frame whose fixed size or padding is impossible is never returned *)
Theorem C16_structure_rejected : forall max b n ty fl r sid rest,
  bytes_ok b = true -> parse_header b = Some (n, ty, fl, r, sid, rest) -> n <= len rest ->
  impossible ty fl (takeN n rest) ->
  exists e, ro_res (read_frame_with_size max b) = Err e.
Proof. exact structure_rejected. Qed.
Print Assumptions C16_structure_rejected.

(* 4. a frame cut short anywhere - in the header or in the payload - is an error *)
Theorem C16_truncation : forall max b n ty fl r sid rest k,
  bytes_ok b = true -> parse_header b = Some (n, ty, fl, r, sid, rest) -> k < 9 + n ->
  exists e, ro_res (read_frame_with_size max (takeN k b)) = Err e.
Proof. exact truncation. Qed.
Print Assumptions C16_truncation.

(* 5. the pool log of every call, success or any error path, is linear: nothing released
   twice, nothing the caller is given released, nothing leaked *)
Theorem C16_pool_safe : forall max b,
  bytes_ok b = true ->
  let r := read_frame_with_size max b in linear (ro_events r) (handed r) = true.
Proof. exact read_pool_safe. Qed.
Print Assumptions C16_pool_safe.

(* position-exactness across frames: a stream of frames is read back frame by frame *)
Theorem C16_read_stream : forall max fs rest,
  Forall (readable max) fs -> bytes_ok rest = true ->
  read_many max (length fs) (flat_map spec_write fs ++ rest) = map (fun f => Ok (view max f)) fs.
Proof. exact read_stream. Qed.
Print Assumptions C16_read_stream.

(* 6. the FrameHeader and the frame body are pooled objects: ReadFrameFromWithSize(br, max)
   (lim = Some max) and ReadFrameFrom(br) (lim = None, i.e. the default limit) give the
   result the theorems above are about whatever the pooled header (its limit, payload,
   length, flags, body) and the pooled body of the frame's type held before *)
Theorem C16_read_pool_independent : forall ps lim input,
  pools_ok ps ->
  read_frame_pooled ps lim input =
  read_frame_with_size (match lim with Some m => m | None => c_defaultMaxLen end) input.
Proof. exact read_pool_independent. Qed.
Print Assumptions C16_read_pool_independent.

(* ---------------------------------------------------------------------------------------
   The HPACK half of C16 ("each step consumes input or fails, output is bounded by input",
   never panics on arbitrary bytes): the theorems are C03's, restated here so that the
   property's file carries everything it claims. Proofs: Proofs/HpackTotal.v, HpackBlock.v. *)
From H2V Require Import Impl.Hpack Proofs.HpackDefs Proofs.HpackTotal Proofs.HpackBlock.

(* for every byte string (any list of N, no range hypothesis), decoding a field never panics *)
Theorem C16_hpack_next_field_total :
  forall st hf blockStart fp b, is_panic (nf_res (next_field st hf blockStart fp b)) = false.
Proof. exact HpackTotal.next_field_no_panic. Qed.
Print Assumptions C16_hpack_next_field_total.

(* ... nor does the header-block loop over any sequence of HEADERS / CONTINUATION frames *)
Theorem C16_hpack_block_total :
  forall st frs, is_panic (block_decode_frames st frs) = false.
Proof. exact HpackTotal.block_decode_frames_no_panic. Qed.
Print Assumptions C16_hpack_block_total.

(* each step consumes input or fails *)
Theorem C16_hpack_progress :
  forall st hf blockStart fp b rest decoded, b <> [] ->
    nf_res (next_field st hf blockStart fp b) = Ok (rest, decoded) ->
    (length rest < length b)%nat /\ exists consumed, b = consumed ++ rest.
Proof. exact HpackBlock.next_field_progress. Qed.
Print Assumptions C16_hpack_progress.

(* output is bounded by input (and the table) *)
Theorem C16_hpack_output_bounded :
  forall st b fs st', bytes_ok b = true -> table_ok st -> block_small st b ->
    block_decode st b = Ok (fs, st') ->
    (length fs <= length b)%nat /\
    Forall (fun f => len (f_key f) + len (f_value f) + 32 <= N.max (h_max_settings st) 64 + 2 * len b + 32) fs.
Proof. exact HpackBlock.output_bounded. Qed.
Print Assumptions C16_hpack_output_bounded.
