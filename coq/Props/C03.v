(* Property C03: the HPACK decoder of /repo/hpack.go (readInt, readString, peek, nextField,
   addDynamic, shrink) and the header-block loop of serverConn.handleHeaderFrame are RFC 7541.
   Statements only; the proofs are in Proofs/Hpack*.v (vocabulary: Proofs/HpackDefs.v;
   specification: Spec/Rfc7541.v; model: Impl/Hpack.v).

   Vocabulary (Proofs/HpackDefs.v):
     abs st          the model's HPACK state read as the specification's dynamic table (newest first)
     proj r          accept/reject, the ordered (name, value, never-indexed) triples, the table
     table_ok st     reachable decoder states: entries are byte strings without the sensitive flag,
                     table size <= maximum <= SETTINGS limit < 2^32
     block_small st b  2*|b| + 2*limit + 64 < 2^32: the uint32 sums the code forms cannot wrap
     frames_of       the HEADERS + CONTINUATION frames that carry the fragments of one block *)
From H2V Require Import Base.Bytes Base.MachineInt Base.Result Gen.GenConsts Gen.GenStatic
     Impl.Huffman Impl.Hpack Spec.Rfc7541Huffman Spec.Rfc7541 Proofs.HpackDefs.
From H2V Require Proofs.HpackStatic Proofs.HpackSpecHuff Proofs.HpackBlock Proofs.HpackTotal
     Proofs.HpackSplit Proofs.HpackSpecSelf Proofs.HpackExamples.
Local Open Scope N_scope.

(* ---- (0) the tables the model is generated from are the RFC's (Appendix A) ---- *)
Theorem C03_static_table_is_rfc : static_table = rfc_static_table.
Proof. exact HpackStatic.static_table_is_rfc. Qed.
Print Assumptions C03_static_table_is_rfc.

Theorem C03_max_index : c_maxIndex = static_len + 1.
Proof. exact HpackStatic.max_index_eq. Qed.
Print Assumptions C03_max_index.

(* the executable Huffman decoder of the specification decides exactly spec_valid (RFC 7541 5.2:
   the code of each octet, padded with fewer than 8 one bits; no EOS) *)
Theorem C03_spec_huff_decode_exact :
  forall b s, bytes_ok b = true -> (spec_huff_decode b = Some s <-> spec_valid b s).
Proof. exact HpackSpecHuff.spec_huff_decode_exact. Qed.
Print Assumptions C03_spec_huff_decode_exact.

(* ---- (a) one block: the decoder refines the specification ----
   Same accept/reject, same fields in order with their never-indexed flag, same resulting table. *)
Theorem C03_dec_refines_spec :
  forall st b, bytes_ok b = true -> table_ok st -> block_small st b ->
    proj (block_decode st b) = spec_decode_block (abs st) b.
Proof. exact HpackBlock.dec_refines_spec. Qed.
Print Assumptions C03_dec_refines_spec.

(* reachable states stay reachable *)
Theorem C03_table_ok_preserved :
  forall st b fs st', bytes_ok b = true -> table_ok st -> block_small st b ->
    block_decode st b = Ok (fs, st') -> table_ok st'.
Proof. exact HpackBlock.table_ok_preserved. Qed.
Print Assumptions C03_table_ok_preserved.

(* ---- (b) a connection: any sequence of blocks, the tables stay identical ---- *)
Theorem C03_history_refines_spec :
  forall st bs, forallb bytes_ok bs = true -> table_ok st -> Forall (block_small st) bs ->
    proj_history (decode_history st bs) = spec_decode_blocks (abs st) bs.
Proof. exact HpackBlock.history_refines_spec. Qed.
Print Assumptions C03_history_refines_spec.

(* ---- (c) HEADERS + CONTINUATION: cutting a block anywhere, into any number of fragments
   (empty ones included), changes nothing: same fields, same final state, same error ---- *)
Theorem C03_split_invariance :
  forall st frags, frags <> [] -> forallb bytes_ok frags = true -> table_ok st -> block_small st (concat frags) ->
    block_decode_frames st (frames_of true frags) = block_decode st (concat frags).
Proof. exact HpackSplit.split_invariance. Qed.
Print Assumptions C03_split_invariance.

(* ---- (d) the specification is self-consistent: decoding what any conforming encoder may emit
   (any index choice, any Huffman/raw choice, any string length) gives the meaning of what it chose ---- *)
Theorem C03_spec_self_consistent :
  forall t rs, forallb repr_ok rs = true ->
    (forall r, In r rs -> match r with
                          | Literal _ nr _ _ v => len v < 2 ^ 32 /\ match nr with NameLit n => len n < 2 ^ 32 | _ => True end
                          | _ => True end) ->
    spec_decode_block t (spec_enc_block rs) = spec_sem t rs.
Proof. exact HpackSpecSelf.spec_self_consistent. Qed.
Print Assumptions C03_spec_self_consistent.

(* ---- (e) totality: no panic, progress, bounded output ----
   For ANY state, HeaderField, arguments and input (no byte-range hypothesis): nextField neither
   panics (index / slice out of range, nil map) nor runs out of the model's loop fuel. *)
Theorem C03_next_field_no_panic :
  forall st hf blockStart fp b, is_panic (nf_res (next_field st hf blockStart fp b)) = false.
Proof. exact HpackTotal.next_field_no_panic. Qed.
Print Assumptions C03_next_field_no_panic.

(* ... and neither does the header-block loop, over any sequence of frames *)
Theorem C03_block_decode_no_panic :
  forall st frs, is_panic (block_decode_frames st frs) = false.
Proof. exact HpackTotal.block_decode_frames_no_panic. Qed.
Print Assumptions C03_block_decode_no_panic.

(* the outcome of a call (rest, decoded, error, the HPACK state) does not depend on what the
   caller's HeaderField held, and neither does the field it holds afterwards when one was decoded
   (used by the server model, Impl/ServerInst.v) *)
Theorem C03_next_field_ignores_hf :
  forall st hf hf' blockStart fp b,
    let o := next_field st hf blockStart fp b in
    let o' := next_field st hf' blockStart fp b in
    nf_res o = nf_res o' /\ nf_hp o = nf_hp o' /\
    (forall rest, nf_res o = Ok (rest, true) -> nf_hf o = nf_hf o').
Proof. exact HpackTotal.next_field_ignores_hf. Qed.
Print Assumptions C03_next_field_ignores_hf.

(* a successful call on a non-empty input consumes at least one octet, and what it returns is
   a suffix of its input *)
Theorem C03_next_field_progress :
  forall st hf blockStart fp b rest decoded, b <> [] ->
    nf_res (next_field st hf blockStart fp b) = Ok (rest, decoded) ->
    (length rest < length b)%nat /\ exists consumed, b = consumed ++ rest.
Proof. exact HpackBlock.next_field_progress. Qed.
Print Assumptions C03_next_field_progress.

(* the header list is bounded by the input and the table: at most one field per octet, and every
   field is a table entry, or was spelled out in the block, or a table entry's name with a value
   spelled out in the block (Huffman expands by at most 8/5) *)
Theorem C03_output_bounded :
  forall st b fs st', bytes_ok b = true -> table_ok st -> block_small st b ->
    block_decode st b = Ok (fs, st') ->
    (length fs <= length b)%nat /\
    Forall (fun f => len (f_key f) + len (f_value f) + 32 <= N.max (h_max_settings st) 64 + 2 * len b + 32) fs.
Proof. exact HpackBlock.output_bounded. Qed.
Print Assumptions C03_output_bounded.

(* ------------------------------------------------------------------ *)
(* The hypotheses are satisfiable by non-trivial inputs, and the corner cases behave as the
   statements say (by computation; Proofs/HpackExamples.v). *)

(* RFC 7541 C.4.1 - C.4.3 on one connection: reachable states with 0, 1 and 2 entries, three small
   byte-string blocks, all accepted (4, 5, 5 fields; the table ends with 3 entries) *)
Example C03_hypotheses_appendix_c4 :
  let st1 := HpackExamples.state_after HpackExamples.st0 HpackExamples.c41 in
  let st2 := HpackExamples.state_after st1 HpackExamples.c42 in
  table_ok HpackExamples.st0 /\ table_ok st1 /\ table_ok st2 /\
  length (h_dynamic st1) = 1%nat /\ length (h_dynamic st2) = 2%nat /\
  forallb bytes_ok [HpackExamples.c41; HpackExamples.c42; HpackExamples.c43] = true /\
  Forall (block_small HpackExamples.st0) [HpackExamples.c41; HpackExamples.c42; HpackExamples.c43] /\
  block_small st2 HpackExamples.c43 /\
  match decode_history HpackExamples.st0 [HpackExamples.c41; HpackExamples.c42; HpackExamples.c43] with
  | Ok (fss, st3) => map (@length field) fss = [4; 5; 5]%nat /\ length (h_dynamic st3) = 3%nat
  | _ => False
  end.
Proof. exact HpackExamples.hypotheses_appendix_c4. Qed.
Print Assumptions C03_hypotheses_appendix_c4.

(* C.4.1 in three frames, the second cut inside a Huffman string *)
Example C03_hypotheses_split :
  HpackExamples.c41_frags <> [] /\ forallb bytes_ok HpackExamples.c41_frags = true /\
  concat HpackExamples.c41_frags = HpackExamples.c41 /\
  block_small HpackExamples.st0 (concat HpackExamples.c41_frags) /\
  frames_of true HpackExamples.c41_frags =
    [([130;134;132], false, false); ([65;140;241;227;194;229;242], false, true);
     ([58;107;160;171;144;244;255], true, true)] /\
  is_ok (block_decode_frames HpackExamples.st0 (frames_of true HpackExamples.c41_frags)) = true.
Proof. exact HpackExamples.hypotheses_split. Qed.
Print Assumptions C03_hypotheses_split.

(* a representation list with every kind of representation satisfies the hypotheses of (d) *)
Example C03_hypotheses_self_consistent :
  forallb repr_ok HpackExamples.ex_reprs = true /\
  (forall r, In r HpackExamples.ex_reprs -> match r with
     | Literal _ nr _ _ v => len v < 2 ^ 32 /\ match nr with NameLit n => len n < 2 ^ 32 | _ => True end
     | _ => True end) /\
  spec_enc_block HpackExamples.ex_reprs = [63;69; 130; 65;131;241;227;199; 16;129;243;1;121; 190; 15;47;0].
Proof. exact HpackExamples.hypotheses_self_consistent. Qed.
Print Assumptions C03_hypotheses_self_consistent.

(* model and specification agree on Appendix C.4 and on the corner cases: never indexed; size
   updates alone, twice, above the limit, after a field; index 0; index past the table; a
   truncated field; an integer with 10 continuation octets *)
Example C03_sanity_appendix_c4 :
  HpackExamples.agree HpackExamples.st0 HpackExamples.c41 &&
  HpackExamples.agree (HpackExamples.state_after HpackExamples.st0 HpackExamples.c41) HpackExamples.c42 &&
  HpackExamples.agree (HpackExamples.state_after (HpackExamples.state_after HpackExamples.st0 HpackExamples.c41) HpackExamples.c42) HpackExamples.c43 &&
  is_ok (block_decode (HpackExamples.state_after (HpackExamples.state_after HpackExamples.st0 HpackExamples.c41) HpackExamples.c42) HpackExamples.c43) = true.
Proof. exact HpackExamples.sanity_appendix_c4. Qed.

Example C03_sanity_corner_cases :
  forallb (HpackExamples.agree HpackExamples.st0)
    [ [16;8;112;97;115;115;119;111;114;100;6;115;101;99;114;101;116];
      [32]; [63;225;31]; [32;63;225;31;130]; [63;226;31]; [130;32]; [128]; [190]; [64;1;97]; [64];
      [255;128;128;128;128;128;128;128;128;128;128;0]; [0;1;97;129;255] ] = true.
Proof. exact HpackExamples.sanity_corner_cases. Qed.

(* ... and the decoder does reject: a size update after a field, index 0, an index past the
   table, a truncated literal, a size update above the limit; a lone size update is accepted *)
Example C03_sanity_rejects :
  map (fun b => is_ok (block_decode HpackExamples.st0 b)) [ [130;32]; [128]; [190]; [64;1;97]; [63;226;31]; [32] ]
  = [false; false; false; false; false; true].
Proof. exact HpackExamples.sanity_rejects. Qed.

(* C.4.1 cut in two after every octet; a size update followed by two fields, likewise *)
Example C03_sanity_split :
  forallb (HpackExamples.split_ok HpackExamples.st0 HpackExamples.c41) (seq 0 18) &&
  forallb (HpackExamples.split_ok HpackExamples.st0 [32;63;225;31;0;1;97;1;98]) (seq 0 10) = true.
Proof. exact HpackExamples.sanity_split. Qed.

(* one nextField call that applies a size update and decodes the field behind it *)
Example C03_example_next_field :
  let o := next_field HpackExamples.st0 empty_field true 0 [63;69;130;134] in
  nf_res o = Ok ([134], true) /\ h_max (nf_hp o) = 100 /\ f_key (nf_hf o) = [58;109;101;116;104;111;100].
Proof. exact HpackExamples.example_next_field. Qed.
