(* C04 -- the HPACK encoder emits valid blocks and the tables stay in sync: STATEMENTS (phase 1).
   Phase 2 proves them and moves them, as Theorems closed by [exact], to Props/C04.v. Every
   statement is a [Definition ... : Prop]; the Examples at the end are sanity tests by computation. *)
From H2V Require Import Base.Bytes Base.MachineInt Base.Result Gen.GenConsts Gen.GenStatic
     Impl.Huffman Impl.Hpack Spec.Rfc7541Huffman Spec.Rfc7541.
Local Open Scope N_scope.

(* same abstraction as in C03: [abs], [triple_of] live in Proofs/HpackDefs.v *)
From H2V Require Export Proofs.HpackDefs.

(* ---- what a connection does to an encoder ---- *)
Inductive enc_op : Type :=
| SetMax (n : N)                        (* the peer's SETTINGS_HEADER_TABLE_SIZE arrived: SetMaxTableSize(n) *)
| Block (fs : list (field * bool)).     (* one header block: AppendHeader(dst, hf, store) for each element *)

(* ---- decidable ingredients of the statement ---- *)

Definition entry_eqb (a b : entry) : bool := bytes_eqb (fst a) (fst b) && bytes_eqb (snd a) (snd b).
Fixpoint entries_eqb (a b : list entry) : bool :=
  match a, b with
  | [], [] => true
  | x :: a', y :: b' => entry_eqb x y && entries_eqb a' b'
  | _, _ => false
  end.
Definition hfield_eqb (a b : hfield) : bool :=
  entry_eqb (fst a) (fst b) && Bool.eqb (snd a) (snd b).
Fixpoint hfields_eqb (a b : list hfield) : bool :=
  match a, b with
  | [], [] => true
  | x :: a', y :: b' => hfield_eqb x y && hfields_eqb a' b'
  | _, _ => false
  end.

(* the decoder's table is the encoder's *)
Definition in_sync (enc : hpack_state) (dec : dtable) : bool :=
  entries_eqb (dt_entries dec) (dt_entries (abs enc)) && (dt_max dec =? h_max enc) && (dt_limit dec =? h_max_settings enc).

Fixpoint leading_updates (rs : list repr) : list N :=
  match rs with SizeUpdate n :: rs' => n :: leading_updates rs' | _ => [] end.
Fixpoint drop_updates (rs : list repr) : list repr :=
  match rs with SizeUpdate _ :: rs' => drop_updates rs' | _ => rs end.

(* RFC 7541 4.2. m0: the maximum size the decoder has; pend: the sizes set since the last block
   (oldest first); us: the size updates the block starts with. When the size really changed, the
   block must start with size updates, the last one is the final size, and the smallest size of
   the interval has been signalled (unless the table was never smaller than where it started);
   there are never more than two. *)
Definition updates_ok (m0 : N) (pend us : list N) : bool :=
  (Nat.leb (length us) 2) &&
  (if existsb (fun n => negb (n =? m0)) pend
   then negb (Nat.eqb (length us) 0) && (last us 0 =? last pend 0) && (fold_left N.min us m0 =? fold_left N.min pend m0)
   else true).

(* a sensitive field travels as a never-indexed literal (and is therefore never inserted) *)
Fixpoint sens_ok (rs : list repr) (fs : list (field * bool)) : bool :=
  match rs, fs with
  | [], [] => true
  | r :: rs', (f, _) :: fs' =>
      (if f_sens f then match r with Literal Never _ _ _ _ => true | _ => false end else true) && sens_ok rs' fs'
  | _, _ => false
  end.

Definition is_nil {A} (l : list A) : bool := match l with [] => true | _ => false end.

(* One run: the encoder model against the specification's decoder.
     enc   the encoder;  dec  the peer's decoder table per the specification;
     pend  table sizes set since the last block that emitted anything. *)
Fixpoint c04_run (enc : hpack_state) (dec : dtable) (pend : list N) (ops : list enc_op) : bool :=
  match ops with
  | [] => true
  | SetMax n :: ops' =>
      let enc' := set_max_table_size enc n in
      (table_size (dt_entries (abs enc')) <=? n) &&                (* size <= the peer's limit, at once *)
      c04_run enc' (spec_set_limit dec n) (pend ++ [n]) ops'
  | Block fs :: ops' =>
      match encode_block enc fs with
      | Ok (out, enc') =>
          match spec_decode_block dec out, spec_parse_block out with
          | Some (got, dec'), Some rs =>
              hfields_eqb got (map (fun p => triple_of (fst p)) fs) &&    (* the same fields, in order *)
              (is_nil fs || in_sync enc' dec') &&                          (* decoder table = encoder table *)
              (table_size (dt_entries (abs enc')) <=? dt_limit dec) &&     (* size <= the peer's limit *)
              (is_nil fs || updates_ok (dt_max dec) pend (leading_updates rs)) &&   (* 4.2 *)
              sens_ok (drop_updates rs) fs &&                               (* 6.2.3 *)
              c04_run enc' dec' (if is_nil fs then pend else []) ops'
          | _, _ => false
          end
      | _ => false                                                         (* error or panic *)
      end
  end.

Definition c04_check (no_compress no_dynamic : bool) (ops : list enc_op) : bool :=
  c04_run (hpack_init no_compress no_dynamic) (dtable_init c_defaultHeaderTableSize) [] ops.

(* inputs a caller can produce: byte strings, sizes that are uint32 and leave room for the
   uint32 sums (a name + value + 32 + the table it joins must stay below 2^32) *)
Definition enc_field_ok (p : field * bool) : bool :=
  bytes_ok (f_key (fst p)) && bytes_ok (f_value (fst p)) && (len (f_key (fst p)) + len (f_value (fst p)) + 32 <? 2 ^ 31).
Definition enc_op_ok (op : enc_op) : bool :=
  match op with SetMax n => n <? 2 ^ 31 | Block fs => forallb enc_field_ok fs end.

(* ---- the statement ---- *)
Definition C04_encoder_in_sync : Prop :=
  forall no_compress no_dynamic ops, forallb enc_op_ok ops = true -> c04_check no_compress no_dynamic ops = true.

(* ---- the primitives the statement rests on ---- *)
Definition C04_append_int_is_spec : Prop :=
  forall bits pattern v, 1 <= bits <= 8 -> pattern < 256 -> pattern mod 2 ^ bits = 0 -> v < 2 ^ 64 ->
    append_int [pattern] bits v = Ok (spec_enc_int bits pattern v).

Definition C04_append_string_is_spec : Prop :=
  forall dst s huff, bytes_ok s = true -> len s < 2 ^ 32 ->
    append_string dst s huff = Ok (dst ++ spec_enc_str huff s).

(* search finds what it says: an index whose entry has the field's name (and value on a full match) *)
Definition C04_search_sound : Prop :=
  forall st hf i full, search st hf = (i, full) -> 0 < i ->
    exists n v, lookup (abs st) i = Some (n, v) /\ n = f_key hf /\ (full = true -> v = f_value hf).

Definition C04_no_panic : Prop :=
  forall st dst hf store, is_panic (append_header st dst hf store) = false.

(* planned, for the server model (Impl/ServerInst.v): what AppendHeader appends does not depend on
   what dst already holds *)
Definition C04_append_header_prefix : Prop :=
  forall st dst hf store x st',
    append_header st dst hf store = Ok (dst ++ x, st') <-> append_header st [] hf store = Ok (x, st').

(* ------------------------------------------------------------------ *)
(* Sanity tests by computation *)

Definition F (k v : bytes) : field := mkF k v false.
Definition Fs (k v : bytes) : field := mkF k v true.
Definition method : bytes := [58;109;101;116;104;111;100].
Definition authz : bytes := [97;117;116;104;111;114;105;122;97;116;105;111;110].

(* RFC C.3.1-like request, a repeat (dynamic full match), a sensitive field with a name index >= 16,
   names that are empty / end in a zero octet, every flag combination *)
Example C04_sanity_basic :
  forallb (fun fl => c04_check (fst fl) (snd fl)
     [ Block [(F method [71;69;84], true); (F [120] [121], true); (Fs authz [115], true); (F [120] [121], true)];
       Block [(F [] [97], true); (F [97;0] [98], true); (F [48;48;48;48;48;48;48;48] [99], true); (F [] [], false)];
       Block [(F [120] [121], false); (F [97;0] [98], true)] ])
    [(false, false); (true, false); (false, true); (true, true)] = true.
Proof. vm_compute. reflexivity. Qed.

(* table size changes: lowered and raised between two blocks (both must be announced), lowered twice,
   raised, set to 0, changed before the first block, changed after the last *)
Example C04_sanity_size_changes :
  c04_check false false
     [ Block [(F [120] [121], true)]; SetMax 0; SetMax 4096; Block [(F [120] [121], true)];
       SetMax 100; SetMax 50; Block [(F [122] [121], true)]; SetMax 65536; Block []; Block [(F [122] [121], true)];
       SetMax 64; Block [(F [120] [121], true); (F [122] [121], true)]; SetMax 0 ] = true.
Proof. vm_compute. reflexivity. Qed.

(* regression: a value equal to the prefix maximum 2^bits-1 is the prefix and a zero octet
   (RFC 7541 5.1). Before commit 9e71fce appendInt wrote the bare prefix: SetMaxTableSize(31) made the
   next block start with the single octet 3f, a name index 15 on a 4-bit prefix came out as 0f. *)
Example C04_sanity_prefix_max :
  append_int [32] 5 31 = Ok [63; 0] /\ spec_enc_int 5 32 31 = [63; 0] /\
  c04_check false false [SetMax 31; Block [(F [97] [98], false)]] = true /\
  c04_check false false [Block [(F [97;99;99;101;112;116;45;99;104;97;114;115;101;116] [120], false);
                                (Fs [97;99;99;101;112;116;45;99;104;97;114;115;101;116] [120], false)]] = true /\
  c04_check true false [Block [(F [120] (repeat 97 127), false)]] = true.
Proof. vm_compute. repeat split; reflexivity. Qed.
