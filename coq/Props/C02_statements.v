(* C02 - the client sends each request intact, and each caller gets exactly its own response.
   Statements over the client model, phase 1 (`Definition ... : Prop` + examples by vm_compute).
   The server's side is RFC-level: header blocks are decoded with the decoder of Spec/Rfc7541.v
   in the one connection-wide context, responses are assembled per stream by `spec_response`. *)
From H2V Require Import Base.Bytes Base.MachineInt Base.Result Gen.GenConsts Impl.Hpack Impl.ServerConn
     Impl.ClientConn Impl.ClientInst Proofs.CliDefs Spec.Rfc7541.
From Coq Require Import ZArith List Bool Sorted.
Import ListNotations.
Local Open Scope N_scope.

(* ---------- the request side ---------- *)

(* (1) stream ids are odd, fresh and increasing *)
Definition c02_stream_ids : Prop :=
  forall cfg first evs,
    let ids := header_ids (cli_tr cfg first evs) in
    StronglySorted N.lt ids /\ Forall (fun id => N.odd id = true) ids.

(* the server's HPACK decoder: its table limit is the SETTINGS_HEADER_TABLE_SIZE it announced *)
Definition server_table_limit (first : bytes) : N :=
  fold_left (fun a kv => if fst kv =? c_HeaderTableSize then snd kv else a) (settings_pairs first) c_defaultHeaderTableSize.
(* the server never changes that setting later (the statement below is for such histories) *)
Definition table_size_fixed (evs : list cevent) : Prop :=
  forall fr, In (CEvRL (RFrame fr)) evs -> sf_kind fr = KSettings ->
             forall kv, In kv (settings_pairs (sf_payload fr)) -> fst kv <> c_HeaderTableSize.

(* the request whose HEADERS went out on stream id *)
Definition request_on (c : cst) (id : N) : option crequest :=
  match find (fun x => ct_sid x =? id) (cc_ctxs hpack_state c) with Some x => Some (ct_req x) | None => None end.

(* what a caller can submit (the inputs Props/C04.v covers): every field that goes out is made of bytes and leaves
   room for the encoder's uint32 sums *)
Definition enc_ok (rq : crequest) : bool :=
  forallb (fun kv => bytes_ok (fst kv) && bytes_ok (snd kv) && (len (fst kv) + len (snd kv) + 32 <? 2 ^ 31)) (request_fields rq).
Definition requests_ok (evs : list cevent) : Prop := forall tag rq q, In (CEvSubmit tag rq q) evs -> enc_ok rq = true.

(* (2) the header blocks the client writes, decoded in order by an RFC 7541 decoder, are the
   requests: pseudo-headers, then the fields in order, lower-cased, minus the connection-specific ones.
   [Corrected, proved as Props/C02.v C02_requests_intact. The first version started the decoder in
   `dtable_init (server_table_limit first)`, i.e. with the table's maximum size dt_max already at the announced
   value. By RFC 7541 4.2 / 6.3 the maximum size starts at 4096 and changes only when the ENCODER signals it with a
   dynamic table size update; what the server's SETTINGS changes is the limit such an update may go up to
   (spec_set_limit). The hypothesis requests_ok was missing: the statement is about requests made of bytes.
   The general statement, with later SETTINGS_HEADER_TABLE_SIZE changes, is C02_requests_decode.] *)
Definition c02_requests_intact : Prop :=
  forall cfg first evs,
    cl_settings_deserialize false first <> None -> table_size_fixed evs -> requests_ok evs ->
    let c := cli_run cfg first evs in
    let tr := cli_trace c in
    exists t,
      spec_decode_blocks (spec_set_limit (dtable_init c_defaultHeaderTableSize) (server_table_limit first)) (header_blocks tr)
      = Some (map (fun id => match request_on c id with
                             | Some rq => map (fun kv => (fst kv, snd kv, false)) (request_fields rq)
                             | None => []
                             end) (header_ids tr), t).

(* (2') the first version of (2), for requests whose field names are made of letters, digits and '-'
   [planned when ToLower still damaged other names; superseded by (2), kept for the record - not proved] *)
Definition plain_name (k : bytes) : bool :=
  forallb (fun c => ((48 <=? c) && (c <=? 57)) || ((65 <=? c) && (c <=? 90)) || ((97 <=? c) && (c <=? 122)) || (c =? 45)) k.
Definition plain_request (rq : crequest) : bool := forallb (fun kv => plain_name (fst kv)) (cq_fields rq).
Definition c02_requests_intact_partial : Prop :=
  forall cfg first evs,
    cl_settings_deserialize false first <> None -> table_size_fixed evs ->
    (forall tag rq q, In (CEvSubmit tag rq q) evs -> plain_request rq = true) ->
    let c := cli_run cfg first evs in
    let tr := cli_trace c in
    exists t,
      spec_decode_blocks (dtable_init (server_table_limit first)) (header_blocks tr)
      = Some (map (fun id => match request_on c id with
                             | Some rq => map (fun kv => (fst kv, snd kv, false)) (request_fields rq)
                             | None => []
                             end) (header_ids tr), t).

(* (3) END_STREAM is on the HEADERS frame exactly when the request has no body; the body itself is Props/C07 (4') *)
Definition c02_end_stream_on_headers : Prop :=
  forall cfg first evs id es blk rq,
    let c := cli_run cfg first evs in
    In (COHeaders id es blk) (cli_trace c) -> request_on c id = Some rq ->
    es = match cq_body rq with CBuf [] => true | _ => false end.

(* ---------- the response side ---------- *)

(* what the server sent, as the read loop took it in: complete header blocks and DATA frames *)
Inductive sitem : Type :=
| SBlock (sid : N) (es : bool) (block : bytes)
| SData (sid : N) (es : bool) (payload : bytes).

Fixpoint srv_items (cur : option (N * bool * bytes)) (log : list cli_entry) : list sitem :=
  match log with
  | [] => []
  | e :: t =>
    match le_ev e with
    | CEvRL (RFrame fr) =>
      if rl_takes (le_before e) fr && negb (sf_sid fr =? 0) then
        match sf_kind fr, cur with
        | KHeaders, _ =>
          if flag_has (sf_flags fr) FL_EH then SBlock (sf_sid fr) (flag_has (sf_flags fr) FL_ES) (sf_payload fr) :: srv_items None t
          else srv_items (Some (sf_sid fr, flag_has (sf_flags fr) FL_ES, sf_payload fr)) t
        | KCont, Some (sid, es, b) =>
          if flag_has (sf_flags fr) FL_EH then SBlock sid es (b ++ sf_payload fr) :: srv_items None t
          else srv_items (Some (sid, es, b ++ sf_payload fr)) t
        | KData, _ => SData (sf_sid fr) (flag_has (sf_flags fr) FL_ES) (sf_payload fr) :: srv_items cur t
        | _, _ => srv_items cur t
        end
      else srv_items cur t
    | _ => srv_items cur t
    end
  end.

(* the items with their header blocks decoded, in the connection-wide context; None: a block does not decode *)
Inductive ditem : Type :=
| DBlock (sid : N) (es : bool) (fields : list hfield)
| DData (sid : N) (es : bool) (payload : bytes).
Fixpoint decode_items (t : dtable) (l : list sitem) : option (list ditem) :=
  match l with
  | [] => Some []
  | SData sid es p :: r => match decode_items t r with Some d => Some (DData sid es p :: d) | None => None end
  | SBlock sid es b :: r =>
    match spec_decode_block t b with
    | Some (fs, t') => match decode_items t' r with Some d => Some (DBlock sid es fs :: d) | None => None end
    | None => None
    end
  end.

(* the items of one stream, up to and including the one that ends it *)
Fixpoint stream_items (sid : N) (l : list ditem) : list ditem :=
  match l with
  | [] => []
  | DBlock s es fs :: r => if s =? sid then DBlock s es fs :: (if es then [] else stream_items sid r) else stream_items sid r
  | DData s es p :: r => if s =? sid then DData s es p :: (if es then [] else stream_items sid r) else stream_items sid r
  end.

(* the response a stream's items stand for: the last :status, the regular fields of all blocks in
   order (content-length apart), the DATA payloads in order *)
Definition is_status (f : hfield) : bool := bytes_eqb (fst (fst f)) S_status.
Definition block_fields (l : list ditem) : list hfield :=
  flat_map (fun i => match i with DBlock _ _ fs => fs | DData _ _ _ => [] end) l.
Definition spec_status (l : list ditem) : option Z :=
  match rev (filter is_status (block_fields l)) with
  | f :: _ => parse_uint (snd (fst f))
  | [] => None
  end.
Definition spec_fields (l : list ditem) : list (bytes * bytes) :=
  flat_map (fun f => if is_status f || bytes_eqb (fst (fst f)) S_content_length then [] else [fst f]) (block_fields l).
Definition spec_body (l : list ditem) : bytes :=
  flat_map (fun i => match i with DData _ _ p => p | DBlock _ _ _ => [] end) l.

(* (4) a caller that is told "no error" holds the response the server sent on its stream, and
   nothing of any other stream's, however the server ordered, interleaved, padded and split it *)
Definition c02_own_response : Prop :=
  forall cfg first evs tag retry resp items,
    let c := cli_run cfg first evs in
    In (tag, retry, CENil, resp) (results_of (cli_trace c)) ->
    decode_items (dtable_init c_defaultHeaderTableSize) (srv_items None (cli_log cfg first evs)) = Some items ->
    let mine := stream_items (cst_sid c tag) items in
    spec_status mine = Some (cr_status resp) /\ cr_fields resp = spec_fields mine /\ cl_resp_body resp = spec_body mine.

(* (5) and every well-formed response the server completes reaches its caller: after the item that
   ends a stream whose request is waiting, the request's answer is there *)
Definition c02_response_delivered : Prop :=
  forall cfg first evs tag id x,
    let c := cli_run cfg first evs in
    cst_ctx c tag = Some x -> ct_sid x = id -> id <> 0 -> ct_done x = false ->
    (exists items, decode_items (dtable_init c_defaultHeaderTableSize) (srv_items None (cli_log cfg first evs)) = Some items /\
                   existsb (fun i => match i with DBlock s es _ => (s =? id) && es | DData s es _ => (s =? id) && es end) items = true) ->
    In id (header_ids (cli_trace c)) ->
    cl_req_find (cc_reqQueued hpack_state c) id = None.

(* ---------- examples ---------- *)

(* two requests; the server answers the second first, interleaves the two responses and cuts the
   first one's header block in the middle of a field (HEADERS + CONTINUATION) *)
Definition ex_two : list cevent :=
  [CEvSubmit 0 ex_get true; CEvWLIn; CEvSubmit 1 (ex_post (CBuf [1; 2; 3])) true; CEvWLIn;
   CEvRL (ex_headers 3 false ex_block_404);
   CEvRL (ex_frame KHeaders 0 1 [136; 0; 3; 120] 0 0 0);          (* stream 1: ":status 200", "x-a: 1" cut after "x" *)
   CEvRL (ex_data 3 false [110; 111]);                           (* not allowed here: the block of stream 1 is open *)
   CEvReceive 0; CEvReceive 1].
Definition ex_two_ok : list cevent :=
  [CEvSubmit 0 ex_get true; CEvWLIn; CEvSubmit 1 (ex_post (CBuf [1; 2; 3])) true; CEvWLIn;
   CEvRL (ex_headers 3 false ex_block_404);
   CEvRL (ex_frame KHeaders 0 1 [136; 0; 3; 120] 0 0 0);
   CEvRL (ex_frame KCont 4 1 [45; 97; 1; 49] 0 0 0);
   CEvRL (ex_data 3 false [110; 111]);
   CEvRL (ex_data 1 true [104; 105]);
   CEvRL (ex_data 3 true [116]);
   CEvReceive 0; CEvReceive 1].

Example c02_ex_own_response :
  map (fun r => (fst (fst (fst r)), snd (fst r), cr_status (snd r), cr_fields (snd r), cl_resp_body (snd r)))
      (results_of (cli_tr ex_cfg [] ex_two_ok))
  = [(0, CENil, 200%Z, [([120; 45; 97], [49])], [104; 105]);
     (1, CENil, 404%Z, [], [110; 111; 116])].
Proof. vm_compute. reflexivity. Qed.

Example c02_ex_spec_side :
  match decode_items (dtable_init c_defaultHeaderTableSize) (srv_items None (cli_log ex_cfg [] ex_two_ok)) with
  | Some items => (spec_status (stream_items 1 items), spec_fields (stream_items 1 items), spec_body (stream_items 1 items),
                   spec_status (stream_items 3 items), spec_body (stream_items 3 items))
  | None => (None, [], [], None, [])
  end
  = (Some 200%Z, [([120; 45; 97], [49])], [104; 105], Some 404%Z, [110; 111; 116]).
Proof. vm_compute. reflexivity. Qed.

(* a frame of another stream inside a header block ends the connection: nobody gets a response *)
Example c02_ex_interleaved_block :
  map (fun r => (fst (fst (fst r)), snd (fst r))) (results_of (cli_tr ex_cfg [] (ex_two ++ [CEvWLDone; CEvReceive 0; CEvReceive 1])))
  = [(0, CEConn); (1, CEConn)].
Proof. vm_compute. reflexivity. Qed.

(* the requests as an RFC 7541 decoder reads them off the wire *)
Example c02_ex_requests :
  match spec_decode_blocks (dtable_init 4096) (header_blocks (cli_tr ex_cfg [] ex_two_ok)) with
  | Some (l, _) => map (map (fun f => fst f)) l
  | None => []
  end
  = [request_fields ex_get; request_fields (ex_post (CBuf [1; 2; 3]))].
Proof. vm_compute. reflexivity. Qed.

(* a field name with '_' goes out as it is (ToLower used to OR 0x20 into every byte: 0x5f -> 0x7f) *)
Definition ex_get_underscore : crequest :=
  mkCReq [104] [71; 69; 84] [47] [104; 116; 116; 112; 115] [] [([88; 95; 105; 100], [49])] (CBuf []).   (* X_id: 1 *)
Example c02_ex_underscore_name :
  match spec_decode_blocks (dtable_init 4096) (header_blocks (cli_tr ex_cfg [] [CEvSubmit 0 ex_get_underscore true; CEvWLIn])) with
  | Some ([fs], _) => (last (map (fun f => fst f) fs) ([], []), last (request_fields ex_get_underscore) ([], []))
  | _ => (([], []), ([], []))
  end
  = (([120; 95; 105; 100], [49]), ([120; 95; 105; 100], [49])).
Proof. vm_compute. reflexivity. Qed.
