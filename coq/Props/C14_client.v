(* C14 (client role) - the receiver hands flow-control credit back so that a conforming sender never starves.
   Only statements here; every proof is one lemma of Proofs/CliFlowRecv.v. All theorems are about the model of
   Impl/ClientConn.v, for ALL event lists, generic in the HPACK coder.

   Hypothesis `wire_ev`: every frame handed to the read loop has a length below 2^24 (the frame header's length field
   has 24 bits; C05/C16). The client announces SETTINGS_INITIAL_WINDOW_SIZE = 1 << 20 and sends
   WINDOW_UPDATE(0, maxWindow - 65535) in its handshake, so both of the server's send windows start at maxWindow = 1 << 20;
   the handshake is outside the model, so peer_conn_window starts from cl_maxWindow.
   WINDOW_UPDATE frames go through c.out: they are queued by the read loop and written by the write loop. The server's
   view counts a credit when it is WRITTEN; `qconn` is the connection credit still waiting in c.out.
   Not debited: DATA on stream 0 (ignored by readNext; a protocol error of the server), a DATA frame inside a header
   block (the connection ends), and a DATA frame for a request whose Ctx lock dispatch can never get (the read loop is
   then parked for ever: rl_stuck, a C12 outcome). *)
From Coq Require Import List NArith ZArith Bool.
From H2V Require Import Base.Bytes Base.MachineInt Base.Result Gen.GenConsts Impl.Hpack Impl.ServerConn Impl.ServerInst
  Impl.ClientConn Impl.ClientInst Proofs.CliDefs Spec.FlowLedger Proofs.SrvFlowLedger
  Proofs.CliFlowMoves Proofs.CliFlowOut Proofs.CliFlowSafe Proofs.CliFlowEs Proofs.CliFlowRecv Proofs.CliFlowExamples.
Import ListNotations.
Local Open Scope N_scope.

(* (a) every WINDOW_UPDATE the client writes or has queued, for the connection or a stream, has an increment in 1 .. 2^31-1 *)
Theorem C14_client_increments : forall (hstate : Type) (dec_field : hstate -> N -> bytes -> dec_res hstate)
    (enc_field : hstate -> bytes -> bytes -> bool -> bytes * hstate) (enc_set_max : hstate -> N -> hstate)
    (cfg : cl_config) (h0 : hstate) (first : bytes) (evs : list cevent) (sid : N) (inc : Z),
  Forall wire_ev evs ->
  In (COWinUpd sid inc) (cl_trace (cl_run dec_field enc_field enc_set_max cfg h0 first evs)) \/
  In (COWinUpd sid inc) (cc_outQ (cl_run dec_field enc_field enc_set_max cfg h0 first evs)) ->
  (0 < inc <= 2147483647)%Z.
Proof. exact window_update_increments. Qed.
Print Assumptions C14_client_increments.

(* (b) the client's connection receive window stays between half of maxWindow and maxWindow *)
Theorem C14_client_receive_window : forall (hstate : Type) (dec_field : hstate -> N -> bytes -> dec_res hstate)
    (enc_field : hstate -> bytes -> bytes -> bool -> bytes * hstate) (enc_set_max : hstate -> N -> hstate)
    (cfg : cl_config) (h0 : hstate) (first : bytes) (evs : list cevent),
  Forall wire_ev evs ->
  (cl_maxWindow / 2 <= cc_currentWindow (cl_run dec_field enc_field enc_set_max cfg h0 first evs) <= cl_maxWindow)%Z.
Proof. exact receive_window_bounds. Qed.
Print Assumptions C14_client_receive_window.

(* (b) every DATA frame the read loop takes in on a stream is debited with its whole length on the wire, padding
   included, whoever it is for (a live request, one that has been cancelled or answered, a stream that was reset):
   the receive window minus the connection credit waiting in c.out goes down by sf_len, and the window is topped up
   (one WINDOW_UPDATE(0, maxWindow - window)) as soon as it is below half *)
Theorem C14_client_data_accounting : forall (hstate : Type) (dec_field : hstate -> N -> bytes -> dec_res hstate)
    (enc_field : hstate -> bytes -> bytes -> bool -> bytes * hstate) (enc_set_max : hstate -> N -> hstate)
    (cfg : cl_config) (c : cconn hstate) (fr : sframe),
  AInv hstate c -> sf_len fr < WLIMIT ->
  g_rl_takes hstate c fr = true -> sf_kind fr = KData -> sf_sid fr <> 0 ->
  let c' := cl_step dec_field enc_field enc_set_max cfg c (CEvRL (RFrame fr)) in
  healthy hstate c' ->
  (cc_currentWindow c' - qconn (cc_outQ c'))%Z = (cc_currentWindow c - qconn (cc_outQ c) - Z.of_N (sf_len fr))%Z /\
  (cl_maxWindow / 2 <= cc_currentWindow c' <= cl_maxWindow)%Z.
Proof. exact data_accounting. Qed.
Print Assumptions C14_client_data_accounting.

(* (c), (e) the server's view of its connection send window, w = maxWindow + increments written - DATA sent: with the
   credit still waiting in c.out it never exceeds what the client accounts for (so never maxWindow, far below 2^31-1);
   while the connection is in working order (not closed, writes reach the socket, the read loop not parked) it is
   exactly the receive window minus the waiting credit: once c.out has been written out the server can send at least
   maxWindow/2 more bytes *)
Theorem C14_client_peer_connection_window : forall (hstate : Type) (dec_field : hstate -> N -> bytes -> dec_res hstate)
    (enc_field : hstate -> bytes -> bytes -> bool -> bytes * hstate) (enc_set_max : hstate -> N -> hstate)
    (cfg : cl_config) (h0 : hstate) (first : bytes) (evs : list cevent),
  Forall wire_ev evs ->
  let c := cl_run dec_field enc_field enc_set_max cfg h0 first evs in
  let w := peer_conn_window cl_maxWindow (rtimeline hstate dec_field enc_field enc_set_max cfg h0 first evs) in
  (w + qconn (cc_outQ c) <= cc_currentWindow c)%Z /\ (0 <= qconn (cc_outQ c))%Z /\
  (w <= cl_maxWindow <= 2147483647)%Z /\
  (healthy hstate c -> (w + qconn (cc_outQ c))%Z = cc_currentWindow c /\ (cc_outQ c = [] -> (cl_maxWindow / 2 <= w)%Z)).
Proof. exact peer_connection_window. Qed.
Print Assumptions C14_client_peer_connection_window.

(* (d) stream credit: when somebody is waiting for the response, readStream answers a DATA frame that does not end
   the stream with WINDOW_UPDATE(stream, its whole length on the wire, padding included), queued before the
   connection top-up if there is one: the server's stream window is back at its initial value once it is written *)
Theorem C14_client_stream_credit : forall (hstate : Type) (c : cconn hstate) (fr : sframe),
  cc_closed c = false -> sf_len fr <> 0 -> flag_has (sf_flags fr) FL_ES = false ->
  exists q, cc_outQ (recv_data c fr true) = cc_outQ c ++ COWinUpd (sf_sid fr) (Z.of_N (sf_len fr)) :: q.
Proof. exact recv_data_stream_credit. Qed.
Print Assumptions C14_client_stream_credit.

(* ---------- examples (the instance with the real HPACK model) ---------- *)

Lemma ex_download_wire n : Forall wire_ev (ex_download n).
Proof. unfold ex_download. apply Forall_app. split; [repeat constructor|]. induction n; cbn [repeat]; constructor; [reflexivity | assumption]. Qed.

(* a response in 33 padded DATA frames of 16384 bytes on the wire: 33 stream credits, and a connection top-up of
   540672 when the 33rd frame takes the receive window to 507904, below half of 1048576 *)
Example C14_client_increments_example :
  Forall wire_ev (ex_download 33) /\
  skipn 32 (cc_outQ (cli_run ex_cfg [] (ex_download 33))) = [COWinUpd 1 16384; COWinUpd 0 540672].
Proof. split; [apply ex_download_wire | vm_compute; reflexivity]. Qed.

Example C14_client_receive_window_example :
  cc_currentWindow (cli_run ex_cfg [] (ex_download 32)) = 524288%Z /\
  cc_currentWindow (cli_run ex_cfg [] (ex_download 33)) = 1048576%Z.
Proof. split; vm_compute; reflexivity. Qed.

Example C14_client_data_accounting_example :
  let c := cli_run ex_cfg [] (ex_download 32) in
  let c' := cli_step ex_cfg c (CEvRL (ex_pad_data 1 false 16384)) in
  g_rl_takes hpack_state c (mkSFrame KData 0 1 16384 [97] 0 0 0 false 0 false 0) = true /\
  cc_closed c' = false /\ cl_can_write c' = true /\ cc_rl_stuck c' = false /\
  (cc_currentWindow c - qconn (cc_outQ c))%Z = 524288%Z /\ (cc_currentWindow c' - qconn (cc_outQ c'))%Z = 507904%Z.
Proof. vm_compute. repeat split. Qed.

(* the server's view: two DATA frames sent, one stream credit written so far (the other is still in c.out) *)
Example C14_client_peer_connection_window_example :
  cli_rtimeline ex_cfg [] (ex_download 2 ++ [CEvWLOut]) = [RData 1 16384; RData 1 16384; RCredit 1 16384] /\
  peer_conn_window cl_maxWindow (cli_rtimeline ex_cfg [] (ex_download 2 ++ [CEvWLOut])) = 1015808%Z /\
  cc_currentWindow (cli_run ex_cfg [] (ex_download 2 ++ [CEvWLOut])) = 1015808%Z /\
  peer_conn_window cl_maxWindow (cli_rtimeline ex_cfg [] (ex_download 33 ++ repeat CEvWLOut 34)) = 1048576%Z /\
  cc_outQ (cli_run ex_cfg [] (ex_download 33 ++ repeat CEvWLOut 34)) = [].
Proof. vm_compute. repeat split. Qed.

Example C14_client_stream_credit_example :
  let c := cli_run ex_cfg [] (ex_download 0) in
  cc_closed c = false /\
  cc_outQ (recv_data c (mkSFrame KData 0 1 16384 [97] 0 0 0 false 0 false 0) true) = [COWinUpd 1 16384] /\
  cc_outQ (cli_run ex_cfg [] (ex_download 1)) = [COWinUpd 1 16384].
Proof. vm_compute. repeat split. Qed.
