(* C11 - the client honours GOAWAY; only a never-processed request is called retryable.
   Theorems over the client model (Impl/ClientConn.v) for ALL event lists (every schedule of callers, loops, timers,
   Close, write failures; every server behaviour). Only statements; proofs are lemmas of Proofs/CliResGoAway.v (generic in
   the HPACK coder), Proofs/CliResInst.v (instance, vocabulary of Proofs/CliDefs.v) and Proofs/CliResRetry.v (RoundTrip's
   loop over connections, modelled as a Gallina function over the outcomes of the successive roundTripOnce).
   "retryable" is the flag of COResult = retryable(err) of client.go, which is what decides a re-send.
   Statement of Props/C11_statements.v that was WRONG: c11_above_last_never_nil (phrased with the connection's current
   closeRef, which a second GOAWAY can lower below a stream that was at or below the first one and has completed:
   C11_ex_second_goaway). What holds, and is proved: the streams above the last-stream-id of a GOAWAY are answered
   ErrGoAway by the step that takes that GOAWAY in (C11_goaway_step), and an answer never changes (C12_results_exact:
   one result, the Err put first). *)
From H2V Require Import Base.Bytes Base.MachineInt Base.Result Gen.GenConsts Impl.Hpack Impl.ServerConn Impl.ClientConn
     Impl.ClientInst Proofs.CliBase Proofs.CliDefs Proofs.CliResInv Proofs.CliResStep Proofs.CliResMoves Proofs.CliResThms
     Proofs.CliResGoAway Proofs.CliResComplete Proofs.CliResInst Proofs.CliResRetry.
From Coq Require Import ZArith List Bool.
Import ListNotations.
Local Open Scope N_scope.

(* ---------- (a) after GOAWAY no further stream ---------- *)

(* no step that starts with goAway set writes a HEADERS frame: whatever sits in c.in, and whichever way a writeRequest
   that passed CanOpenStream races the read loop (the write loop's step is atomic in the model; in the code the
   re-check after queueReq closes the window, and the lockstep run holds the code to the model) *)
Theorem C11_no_new_stream_after_goaway : forall cfg first evs e,
  In e (cli_log cfg first evs) -> cc_goAway (le_before e) = true -> headers_of (le_items e) = [].
Proof. exact i_no_new_stream_after_goaway. Qed.
Print Assumptions C11_no_new_stream_after_goaway.

(* goAway is never reset, and the stream ids on the wire stay for ever what they were *)
Theorem C11_no_new_stream_ever : forall cfg first evs1 evs2, cc_goAway (cli_run cfg first evs1) = true ->
  cc_goAway (cli_run cfg first (evs1 ++ evs2)) = true /\
  header_ids (cli_tr cfg first (evs1 ++ evs2)) = header_ids (cli_tr cfg first evs1).
Proof. exact i_goaway_no_headers_ever. Qed.
Print Assumptions C11_no_new_stream_ever.

(* ---------- (b) the step that takes a GOAWAY in ---------- *)

(* the read loop is running, the socket is open, the frame is a GOAWAY (connection-level): after the step goAway is set,
   closeRef is its last-stream-id, the request table is what it was minus the streams above last-stream-id (those at or
   below stay: they complete when the server delivers), and every request on a stream above it is finished and answered:
   with ErrGoAway unless it had been answered before (cancel timer) *)
Theorem C11_goaway_step : forall cfg first evs fr, let c := cli_run cfg first evs in
  cl_rl_live c = true -> cc_netClosed c = false -> sf_kind fr = KGoAway -> sf_sid fr = 0 ->
  let c' := cli_step cfg c (CEvRL (RFrame fr)) in
  cc_goAway c' = true /\ cc_closeRef c' = sf_dep fr /\
  cc_reqQueued c' = filter (fun e => negb (sf_dep fr <? fst e)) (cc_reqQueued c) /\
  forall id t, In (id, t) (cc_reqQueued c) -> sf_dep fr < id ->
    exists x x', cst_ctx c t = Some x /\ cst_ctx c' t = Some x' /\ ct_sid x = id /\
                 ct_finished x' = true /\ answered x' = true /\ (answered x = false -> ct_err x' = Some CEGoAway).
Proof. exact i_goaway_step. Qed.
Print Assumptions C11_goaway_step.

(* ... and a request that is on the table and not yet answered (in particular one at or below last-stream-id after a
   GOAWAY: C11_goaway_step leaves it there) completes with its full response when the server delivers it - here the
   smallest complete response, hdr200 id = HEADERS(END_HEADERS|END_STREAM, ":status 200") -: nil, status 200, off the
   table, and the caller's receive returns that result. No hypothesis on goAway: GOAWAY changes nothing for it *)
Theorem C11_below_last_completes : forall cfg first evs id tag x, let c := cli_run cfg first evs in
  cl_rl_live c = true -> cc_netClosed c = false -> cc_hdrStream c = 0 ->
  In (id, tag) (cc_reqQueued c) -> cst_ctx c tag = Some x -> ct_done x = false -> ct_err x = None -> ct_gotStatus x = false ->
  let c1 := cli_step cfg c (CEvRL (RFrame (hdr200 id))) in
  exists x1, cst_ctx c1 tag = Some x1 /\ ct_err x1 = Some CENil /\ ct_finished x1 = true /\ ct_gotStatus x1 = true /\
             cr_status (ct_resp x1) = 200%Z /\ ~ In (id, tag) (cc_reqQueued c1) /\
             exists l, cc_out (cli_step cfg c1 (CEvReceive tag)) = l ++ cc_out c1 /\ In (COResult tag false CENil (ct_resp x1)) l.
Proof. exact i_completes. Qed.
Print Assumptions C11_below_last_completes.

(* ---------- (c) retryable only if the server cannot have processed the request ---------- *)

(* every result: its flag is retryable(err); and if it is retryable then either this connection never wrote a HEADERS
   frame for the request's stream (the request has no stream, or its stream id is not on the wire), or the error is
   ErrGoAway and the read loop had taken in a GOAWAY whose last-stream-id is below that stream (the server disclaimed it).
   goaway_below cfg first evs id: evs = pre ++ CEvRL (RFrame fr) :: post with fr a GOAWAY, sf_dep fr < id, taken in by a
   running read loop on an open socket *)
Theorem C11_retry_sound : forall cfg first evs tag retry err resp,
  In (tag, retry, err, resp) (results_of (cli_tr cfg first evs)) ->
  retry = cl_retryable err /\
  (retry = true ->
   ~ In (cst_sid (cli_run cfg first evs) tag) (header_ids (cli_tr cfg first evs)) \/
   (err = CEGoAway /\ goaway_below cfg first evs (cst_sid (cli_run cfg first evs) tag))).
Proof. exact i_retry_sound. Qed.
Print Assumptions C11_retry_sound.

(* for every HPACK coder *)
Theorem C11_retry_sound_generic : forall hstate dec_field enc_field enc_set_max cfg (h0 : hstate) first evs t r e resp,
  In (COResult t r e resp) (cc_out (cl_run dec_field enc_field enc_set_max cfg h0 first evs)) -> cl_retryable e = true ->
  exists x, cl_ctx_get (cl_run dec_field enc_field enc_set_max cfg h0 first evs) t = Some x /\
    (~ In (ct_sid x) (hdr_sids (cc_out (cl_run dec_field enc_field enc_set_max cfg h0 first evs))) \/
     (e = CEGoAway /\ ga_above dec_field enc_field enc_set_max cfg h0 first evs (ct_sid x))).
Proof. exact @retry_sound. Qed.
Print Assumptions C11_retry_sound_generic.

(* stream ids on the wire are positive and below nextID: a request without a stream (streamID 0) has no HEADERS *)
Theorem C11_stream_ids_bound : forall hstate dec_field enc_field enc_set_max cfg (h0 : hstate) first evs sid,
  In sid (hdr_sids (cc_out (cl_run dec_field enc_field enc_set_max cfg h0 first evs))) ->
  0 < sid /\ sid < cc_nextID (cl_run dec_field enc_field enc_set_max cfg h0 first evs).
Proof. exact @hdr_sids_bound. Qed.
Print Assumptions C11_stream_ids_bound.

(* ---------- (d) RoundTrip's loop over connections ---------- *)

(* attempt = what one roundTripOnce did (error, HEADERS written, stream disclaimed); attempt_sound is C11_retry_sound
   read per connection: a retryable error only for an attempt no server can have processed. Then over one RoundTrip: at
   most roundTripAttempts attempts; every attempt but the last was unprocessed; so the HEADERS reach a server that may
   process them at most once; and when RoundTrip reports the request retryable to fasthttp none has *)
Theorem C11_round_trip_at_most_once : forall outcomes, Forall attempt_sound outcomes ->
  let made := fst (round_trip outcomes) in
  (length made <= round_trip_attempts)%nat /\ (length (filter processed made) <= 1)%nat /\
  (forall a, In a (removelast made) -> processed a = false) /\
  (forall e, snd (round_trip outcomes) = Some (true, e) -> cl_retryable e = true /\ filter processed made = []).
Proof. exact round_trip_at_most_once. Qed.
Print Assumptions C11_round_trip_at_most_once.

(* ---------- examples ---------- *)

(* GOAWAY(last = 1) with streams 1 and 3 in flight: 3 ends with the retryable ErrGoAway, a request submitted afterwards
   opens no stream (ErrNotAvailableStreams, no HEADERS), 1 completes when the server delivers *)
Example C11_ex_goaway :
  let evs := [CEvSubmit 0 ex_get true; CEvWLIn; CEvSubmit 1 ex_get true; CEvWLIn;
              CEvRL (ex_goaway 1 0); CEvReceive 1;
              CEvSubmit 2 ex_get true; CEvWLIn; CEvReceive 2;
              CEvRL (ex_headers 1 true ex_block_200); CEvReceive 0] in
  let tr := cli_tr ex_cfg [] evs in
  (header_ids tr, map (fun r => (fst (fst r), snd (fst r))) (results_of tr), cc_goAway (cli_run ex_cfg [] evs))
  = ([1; 3], [(1, true, CEGoAway); (2, true, CENoStreams); (0, false, CENil)], true).
Proof. vm_compute. reflexivity. Qed.

(* requests already sitting in c.in when the GOAWAY arrives open no stream either *)
Example C11_ex_queued_before_goaway :
  let tr := cli_tr ex_cfg [] [CEvSubmit 0 ex_get true; CEvWLIn; CEvSubmit 1 ex_get true; CEvSubmit 2 ex_get true;
                             CEvRL (ex_goaway 1 0); CEvWLIn; CEvWLIn; CEvReceive 1; CEvReceive 2] in
  (header_ids tr, map (fun r => (fst (fst r), snd (fst r))) (results_of tr))
  = ([1], [(1, true, CENoStreams); (2, true, CENoStreams)]).
Proof. vm_compute. reflexivity. Qed.

(* Close racing Write: if the write loop took the Ctx first the HEADERS are out and the error is not retryable; if
   Write's second select came first the Ctx is withdrawn, nothing is written, and ErrConnectionClosed is retryable *)
Example C11_ex_close_races_write :
  let e1 := [CEvClose; CEvSubmit 0 ex_get true; CEvWLIn; CEvSubmitCheck 0; CEvCloseNet; CEvWLDone; CEvReceive 0] in
  let e2 := [CEvClose; CEvSubmit 0 ex_get true; CEvSubmitCheck 0; CEvWLIn; CEvCloseNet; CEvWLDone; CEvReceive 0] in
  (header_ids (cli_tr ex_cfg [] e1), map (fun r => (snd (fst (fst r)), snd (fst r))) (results_of (cli_tr ex_cfg [] e1)),
   header_ids (cli_tr ex_cfg [] e2), map (fun r => (snd (fst (fst r)), snd (fst r))) (results_of (cli_tr ex_cfg [] e2)))
  = ([1], [(false, CEConn)], [], [(true, CEConnClosed)]).
Proof. vm_compute. reflexivity. Qed.

(* c11_above_last_never_nil of C11_statements.v is false: GOAWAY(3), stream 3 completes, GOAWAY(1): the nil result of
   tag 1 (stream 3) is delivered with goAway set and closeRef = 1 < 3. No violation of C11: the stream was at or below the
   last-stream-id of the GOAWAY in force when the server delivered *)
Example C11_ex_second_goaway :
  let evs := [CEvSubmit 0 ex_get true; CEvWLIn; CEvSubmit 1 ex_get true; CEvWLIn;
              CEvRL (ex_goaway 3 0); CEvRL (ex_headers 3 true ex_block_200); CEvRL (ex_goaway 1 0); CEvReceive 1] in
  let c := cli_run ex_cfg [] evs in
  (map (fun r => (fst (fst (fst r)), snd (fst r))) (results_of (cli_tr ex_cfg [] evs)), cc_goAway c, cc_closeRef c, cst_sid c 1)
  = ([(1, CENil)], true, 1, 3).
Proof. vm_compute. reflexivity. Qed.

(* RST_STREAM(REFUSED_STREAM): the client reports a reset error, not retryable. The property allows a retry here (the
   server disclaimed the stream): a missed opportunity, not a violation - HEADERS still reach a server at most once *)
Example C11_ex_refused_stream :
  map (fun r => (snd (fst (fst r)), snd (fst r)))
      (results_of (cli_tr ex_cfg [] [CEvSubmit 0 ex_get true; CEvWLIn; CEvRL (ex_rst 1 7); CEvReceive 0]))
  = [(false, CEReset 7)].
Proof. vm_compute. reflexivity. Qed.

(* RoundTrip: two connections turn the request away (GOAWAY above last-stream-id, then no stream available), the third
   takes it; a fourth outcome is never looked at *)
Example C11_ex_round_trip :
  round_trip [mkAttempt CEGoAway true true; mkAttempt CENoStreams false false; mkAttempt CENil true false; mkAttempt CENil true false]
  = ([mkAttempt CEGoAway true true; mkAttempt CENoStreams false false; mkAttempt CENil true false], Some (false, CENil)).
Proof. vm_compute. reflexivity. Qed.
