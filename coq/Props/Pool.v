(* The client's connection pool (client.go: pickConn, createConn, onConnectionDropped, Client.Close and the two halves of
   Conn.Close as the pool sees them), Impl/ClientPool.v.  Theorems over ALL event lists: any interleaving of callers
   picking a connection, connections filling up / receiving GOAWAY / running out of ids (CanOpenStream changing),
   connections closing (CAS, then the onDisconnect callback, with anything in between), dials that succeed, fail, or
   fail in the handshake, and Client.Close.  They are the pool-side halves of
     C11 "after GOAWAY it opens no further stream on that connection" / C18 "no more concurrently open streams than
         MAX_CONCURRENT_STREAMS": a caller is only ever handed a connection whose CanOpenStream() was true when it was
         picked (and which was not closed), or one that has just been dialed (Pool_pick_has_room, Pool_pick);
     C12 "every request resolves ... goroutines exit": pickConn dials at most once and cannot loop (it is a structural
         recursion over the list; Pool_step_dials), a closed Client never dials again and holds no connection
         (Pool_closed_stays_closed), Client.Close closes every connection it held (Pool_client_close).
   Only statements; proofs are lemmas of Proofs/PoolThms.v.  Tie to the code: the `pool` correspondence suite. *)
From H2V Require Import Impl.ClientPool Proofs.PoolThms Proofs.PoolLeak Proofs.PoolMono Proofs.PoolOnce.
From Coq Require Import NArith List Bool.
Import ListNotations.
Local Open Scope N_scope.

(* the list never holds a connection twice, holds only connections the client dialed, every transport number is used
   once, a closed client holds nothing, and a connection between the halves of its Close reads as closed *)
Theorem Pool_invariant : forall evs, Inv (pl_run evs).
Proof. exact Inv_run. Qed.
Print Assumptions Pool_invariant.

(* pickConn in any reachable state, in full: ErrClientClosed exactly when closed (nothing changes); otherwise the FIRST
   connection of the list that is open and has room (the closed ones in front of it are dropped, nothing else changes,
   no dial), or - when no connection of the list is usable - exactly one dial: on success the new connection goes to
   the front and is returned, the closed ones are dropped; on failure the dial's error, the closed ones are dropped *)
Theorem Pool_pick : forall evs d q r o,
  pl_pick_conn (pl_run evs) d = (q, r, o) -> pick_post (pl_run evs) d q r o.
Proof. exact pick_conn_run. Qed.
Print Assumptions Pool_pick.

Theorem Pool_pick_has_room : forall evs d q id o, pl_pick_conn (pl_run evs) d = (q, PRConn id, o) ->
  (In id (pl_conns (pl_run evs)) /\ pl_is_closed (pl_run evs) id = false /\ pl_can_open (pl_run evs) id = true /\ o = [])
  \/ (~ In id (pl_conns (pl_run evs)) /\ o = [PODial PDialOk (Some id)] /\ pl_is_closed q id = false /\ pl_can_open q id = true).
Proof. exact pick_conn_has_room. Qed.
Print Assumptions Pool_pick_has_room.

(* any step dials at most once; from a closed client: stays closed, holds nothing, dials nothing *)
Theorem Pool_step_dials : forall evs e, let '(q, r, o) := pl_step (pl_run evs) e in
  (dials o <= 1)%nat /\ (pl_closed (pl_run evs) = true -> pl_closed q = true /\ pl_conns q = [] /\ dials o = 0%nat).
Proof. intros evs e. apply step_dials. apply Inv_run. Qed.
Print Assumptions Pool_step_dials.

Theorem Pool_closed_stays_closed : forall evs1 evs2, pl_closed (pl_run evs1) = true ->
  dials (pl_outs_from (pl_run evs1) evs2) = 0%nat /\ pl_closed (pl_run_from (pl_run evs1) evs2) = true /\
  pl_conns (pl_run_from (pl_run evs1) evs2) = [].
Proof. exact closed_client_stays_closed. Qed.
Print Assumptions Pool_closed_stays_closed.

(* dials only come from pickConn and from the replacement of a dropped connection: one each at most *)
Theorem Pool_dial_budget : forall evs, (dials (pl_outs_from pl_init evs) <= length (filter may_dial evs))%nat.
Proof. exact dial_budget. Qed.
Print Assumptions Pool_dial_budget.

Theorem Pool_client_close : forall evs q o, pl_client_close (pl_run evs) = (q, o) -> pl_closed (pl_run evs) = false ->
  pl_closed q = true /\ pl_conns q = [] /\ dials o = 0%nat /\
  (forall id, In id (pl_conns (pl_run evs)) -> pl_is_closed q id = true).
Proof. exact client_close_spec. Qed.
Print Assumptions Pool_client_close.

(* a connection of the list that drops (open client): it leaves the list, one replacement dial, nothing else joins *)
Theorem Pool_dropped_replaced : forall evs id d q o, let p := pl_run evs in
  pl_on_dropped p id d = (q, o) -> pl_closed p = false -> In id (pl_conns p) ->
  ~ In id (pl_conns q) /\ dials o = 1%nat /\ (forall x, In x (pl_conns q) -> x = pl_next p \/ In x (pl_conns p)).
Proof. exact dropped_replaced. Qed.
Print Assumptions Pool_dropped_replaced.

(* no connection is leaked: in every reachable state every connection the client ever made (every successful dial, by
   pickConn or as a replacement) is in the list or closed ... *)
Theorem Pool_kept : forall evs c, In c (pl_stat (pl_run evs)) -> In (plc_id c) (pl_conns (pl_run evs)) \/ plc_closed c = true.
Proof. exact kept_run. Qed.
Print Assumptions Pool_kept.

(* ... so once Client.Close has run, every connection the client ever made is closed (C12: "after Close ... its
   goroutines exit": a connection's loops end when it is closed), whatever callbacks and callers come afterwards *)
Theorem Pool_no_leak_after_close : forall evs c, pl_closed (pl_run evs) = true -> In c (pl_stat (pl_run evs)) -> plc_closed c = true.
Proof. exact no_leak_after_close. Qed.
Print Assumptions Pool_no_leak_after_close.

(* Closed() is monotone: a connection the client made and that has been closed (by Conn.Close, by Client.Close) reads as
   closed in every later state, whatever events follow (C11: "after GOAWAY ... no further stream on that connection":
   a connection closed on GOAWAY does not come back; C12: a closed connection's requests are not joined by new ones) ... *)
Theorem Pool_closed_conn_stays_closed : forall evs1 evs2 x,
  shut (pl_run evs1) x = true -> shut (pl_run_from (pl_run evs1) evs2) x = true.
Proof. exact closed_conn_stays_closed. Qed.
Print Assumptions Pool_closed_conn_stays_closed.

(* ... and no pickConn of any later state returns it: not from the list, not as a "new" connection *)
Theorem Pool_closed_conn_never_picked : forall evs1 evs2 x d q o,
  shut (pl_run evs1) x = true -> pl_pick_conn (pl_run_from (pl_run evs1) evs2) d <> (q, PRConn x, o).
Proof. exact closed_conn_never_picked. Qed.
Print Assumptions Pool_closed_conn_never_picked.

Example Pool_ex_shut : shut (pl_run (ex_evs ++ [PEvClientClose])) 1 = true /\ shut (pl_run ex_evs) 7 = false.
Proof. exact ex_shut. Qed.

(* the onDisconnect callback of a connection runs at most once: no connection is between the halves of its Close twice,
   the callback that runs leaves the connection closed with no callback pending, and from such a state on every further
   callback for it is a no-op - no removal from the list, no replacement dial (C12: one replacement per dropped
   connection, so a peer that drops connections cannot make the client dial without bound per drop) *)
Theorem Pool_closing_nodup : forall evs, NoDup (pl_closing (pl_run evs)).
Proof. exact closing_nodup. Qed.
Print Assumptions Pool_closing_nodup.

Theorem Pool_callback_finishes : forall evs x d q o,
  In x (pl_closing (pl_run evs)) -> pl_close_end (pl_run evs) x d = (q, o) -> done_with q x.
Proof. exact callback_finishes. Qed.
Print Assumptions Pool_callback_finishes.

Theorem Pool_callback_once : forall evs1 evs2 x d, done_with (pl_run evs1) x ->
  pl_close_end (pl_run_from (pl_run evs1) evs2) x d = (pl_run_from (pl_run evs1) evs2, []).
Proof. exact callback_once. Qed.
Print Assumptions Pool_callback_once.

Example Pool_ex_done : done_with (pl_run ex_evs) 1 /\
  In 1 (pl_closing (pl_run [PEvPick PDialOk; PEvSetCan 0 false; PEvPick PDialOk; PEvCloseBegin 1])).
Proof. exact ex_done. Qed.

Example Pool_ex_no_leak : let p := pl_run (ex_evs ++ [PEvClientClose; PEvPick PDialOk]) in
  pl_closed p = true /\ map plc_id (pl_stat p) = [1; 0] /\ map plc_closed (pl_stat p) = [true; true].
Proof. vm_compute. auto. Qed.

(* the hypotheses are met by a concrete run: two connections dialed, one full, one closing while a caller picks *)
Example Pool_ex_state : pl_conns (pl_run ex_evs) = [0] /\ pl_next (pl_run ex_evs) = 3 /\ pl_closed (pl_run ex_evs) = false.
Proof. exact ex_state. Qed.
Example Pool_ex_pick : exists q, pl_pick_conn (pl_run ex_evs) PDialErr = (q, PRConn 0, []).
Proof. exact ex_pick. Qed.
Example Pool_ex_closed : pl_closed (pl_run (ex_evs ++ [PEvClientClose])) = true.
Proof. exact ex_closed. Qed.
