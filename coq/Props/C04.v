(* Property C04: the HPACK encoder of /repo/hpack.go (appendInt, appendString, search, AppendHeader,
   SetMaxTableSize, addDynamic, shrink) emits valid RFC 7541 header blocks and keeps the peer's
   dynamic table in step with its own, across a whole connection.
   Statements only; the proofs are in Proofs/HpackEnc*.v (vocabulary: Proofs/HpackEncDefs.v,
   Proofs/HpackDefs.v; specification: Spec/Rfc7541.v; model: Impl/Hpack.v). *)
From H2V Require Import Base.Bytes Base.MachineInt Base.Result Gen.GenConsts Gen.GenStatic
     Impl.Huffman Impl.Hpack Spec.Rfc7541Huffman Spec.Rfc7541 Proofs.HpackDefs Proofs.HpackEncDefs.
From H2V Require Proofs.HpackEncInt Proofs.HpackEncString Proofs.HpackEncHeader Proofs.HpackEncSearch
     Proofs.HpackEncBlock Proofs.HpackEncExamples.
Local Open Scope N_scope.

(* The main theorem. A connection is any list of operations on one encoder, [SetMax n] (the peer's
   SETTINGS_HEADER_TABLE_SIZE arrived: SetMaxTableSize(n)) and [Block fs] (one header block:
   AppendHeader on an empty buffer for each (field, store) of fs), started from AcquireHPACK with any
   DisableCompression / DisableDynamicTable. [c04_check] (Proofs/HpackEncDefs.v) runs it against
   the decoder of the specification and requires, at every step:
     - AppendHeader returns without error or panic;
     - the block parses as RFC 7541 representations and decodes, on the peer's table as left by all
       earlier blocks, to exactly the fields given, in order, with their never-indexed flag;
     - after the block the peer's table (entries, size, limit) is the encoder's;
     - the encoder's table never exceeds the limit the peer set, from the moment it is set;
     - a block that follows size changes starts with the size updates RFC 7541 4.2 asks for: the
       final size, preceded by the smallest size in between when the table went below where it
       ends; nothing else in the block is a size update;
     - a sensitive field is a never-indexed literal (which neither side inserts).
   Inputs: byte strings; sizes that a uint32 holds with room for the sums the code forms
   (len(name) + len(value) + 32 < 2^31, table sizes < 2^31). *)
Theorem C04_encoder_in_sync :
  forall no_compress no_dynamic ops, forallb enc_op_ok ops = true -> c04_check no_compress no_dynamic ops = true.
Proof. exact HpackEncBlock.encoder_in_sync. Qed.
Print Assumptions C04_encoder_in_sync.

(* appendInt is RFC 7541 5.1, for every prefix size and every uint64 *)
Theorem C04_append_int_is_spec :
  forall bits pattern v, 1 <= bits <= 8 -> pattern < 256 -> pattern mod 2 ^ bits = 0 -> v < 2 ^ 64 ->
    append_int [pattern] bits v = Ok (spec_enc_int bits pattern v).
Proof. exact HpackEncInt.append_int_is_spec. Qed.
Print Assumptions C04_append_int_is_spec.

(* appendString is RFC 7541 5.2, raw or Huffman coded, whatever dst holds (in particular when it
   ends in a zero octet) *)
Theorem C04_append_string_is_spec :
  forall dst s huff, bytes_ok s = true -> len s < 2 ^ 32 ->
    append_string dst s huff = Ok (dst ++ spec_enc_str huff s).
Proof. exact HpackEncString.append_string_is_spec. Qed.
Print Assumptions C04_append_string_is_spec.

(* search finds what it says: an index, in the RFC 7541 2.3.3 index space of the encoder's own
   table, whose entry has the field's name (and value on a full match). The index of a dynamic
   entry is computed in uint64 from len(hp.dynamic), hence the hypothesis that this is a Go slice
   length; C04_search_sound_needs_bound shows the model does wrap around without it. *)
Theorem C04_search_sound :
  forall st hf i full, N.of_nat (length (h_dynamic st)) < 2 ^ 63 -> search st hf = (i, full) -> 0 < i ->
    exists n v, lookup (abs st) i = Some (n, v) /\ n = f_key hf /\ (full = true -> v = f_value hf).
Proof. exact HpackEncSearch.search_sound. Qed.
Print Assumptions C04_search_sound.

Theorem C04_search_sound_needs_bound :
  ~ (forall st hf i full, search st hf = (i, full) -> 0 < i ->
       exists n v, lookup (abs st) i = Some (n, v) /\ n = f_key hf /\ (full = true -> v = f_value hf)).
Proof. exact HpackEncSearch.search_sound_needs_bound. Qed.
Print Assumptions C04_search_sound_needs_bound.

(* AppendHeader never panics: any state, any buffer, any field *)
Theorem C04_no_panic :
  forall st dst hf store, is_panic (append_header st dst hf store) = false.
Proof. exact HpackEncHeader.append_header_no_panic. Qed.
Print Assumptions C04_no_panic.

(* what AppendHeader appends, and the state it leaves, do not depend on what dst already holds *)
Theorem C04_append_header_prefix :
  forall st dst hf store x st',
    append_header st dst hf store = Ok (dst ++ x, st') <-> append_header st [] hf store = Ok (x, st').
Proof. exact HpackEncHeader.append_header_prefix. Qed.
Print Assumptions C04_append_header_prefix.

(* ... and it always succeeds: the result is Ok of dst extended *)
Theorem C04_append_header_total :
  forall st dst hf store, exists x st', append_header st dst hf store = Ok (dst ++ x, st').
Proof. exact HpackEncHeader.append_header_total. Qed.
Print Assumptions C04_append_header_total.

(* ------------------------------------------------------------------ *)
(* The hypotheses are satisfiable, by inputs that reach the corners. *)

Import HpackEncExamples.

(* RFC C.3.1-like request, a repeat (dynamic full match), a sensitive field whose name has a static
   index >= 16, names that are empty / end in a zero octet / whose Huffman form is all zero octets,
   every combination of DisableCompression and DisableDynamicTable *)
Example C04_example_basic :
  forallb enc_op_ok ex_basic = true /\
  forallb (fun fl => c04_check (fst fl) (snd fl) ex_basic)
          [(false, false); (true, false); (false, true); (true, true)] = true.
Proof. exact example_basic. Qed.
Print Assumptions C04_example_basic.

(* SetMax 31 before the first block, SetMax 0 then SetMax 4096 between two blocks, lowered twice,
   raised above the default, an empty block, a sensitive field, SetMax 0 after the last block *)
Example C04_example_sizes : forallb enc_op_ok ex_sizes = true /\ c04_check false false ex_sizes = true.
Proof. exact example_sizes. Qed.
Print Assumptions C04_example_sizes.

Example C04_example_two_updates :
  encode_block (set_max_table_size (set_max_table_size (hpack_init true false) 0) 4096) [(F [120] [121], true)]
  = Ok ([32; 63; 225; 31; 64; 1; 120; 1; 121],
        mkH true false [F [120] [121]] 4096 4096 false 0) /\
  spec_parse_block [32; 63; 225; 31; 64; 1; 120; 1; 121]
  = Some [SizeUpdate 0; SizeUpdate 4096; Literal Incremental (NameLit [120]) false false [121]].
Proof. exact example_two_updates. Qed.
Print Assumptions C04_example_two_updates.

(* a value equal to the prefix maximum 2^bits - 1 is the prefix and a zero octet (regression: before
   commit 9e71fce appendInt wrote the bare prefix) *)
Example C04_example_prefix_max :
  (1 <= 5 <= 8 /\ 32 < 256 /\ 32 mod 2 ^ 5 = 0 /\ 31 < 2 ^ 64) /\
  append_int [32] 5 31 = Ok [63; 0] /\ spec_enc_int 5 32 31 = [63; 0] /\
  append_int [1; 2; 16] 4 15 = Ok [1; 2; 31; 0] /\
  append_int [128] 7 1337 = Ok [255; 186; 9] /\
  c04_check false false [SetMax 31; Block [(F [97] [98], false)]] = true /\
  c04_check false false [Block [(F accept_charset [120], false); (Fs accept_charset [120], false)]] = true /\
  c04_check true false [Block [(F [120] (repeat 97 127), false)]] = true.
Proof. exact example_prefix_max. Qed.
Print Assumptions C04_example_prefix_max.

Example C04_example_strings :
  (bytes_ok [97; 0] = true /\ len [97; 0] < 2 ^ 32) /\
  append_string [7] [97; 0] false = Ok [7; 2; 97; 0] /\
  append_string [7] [97; 0] true = Ok [7; 131; 31; 254; 63] /\
  append_string [] [48;48;48;48;48;48;48;48] true = Ok [133; 0; 0; 0; 0; 0] /\
  append_string [7; 0] [] true = Ok [7; 0; 128] /\
  spec_enc_str true [97; 0] = [131; 31; 254; 63] /\
  spec_dec_str [131; 31; 254; 63; 5] = Some (true, [97; 0], [5]).
Proof. exact example_strings. Qed.
Print Assumptions C04_example_strings.

Example C04_example_search :
  N.of_nat (length (h_dynamic ex_state)) < 2 ^ 63 /\
  search ex_state (F [120] [121]) = (63, true) /\ lookup (abs ex_state) 63 = Some ([120], [121]) /\
  search ex_state (F method [71;69;84]) = (2, true) /\
  search ex_state (F method [72]) = (2, false) /\ lookup (abs ex_state) 2 = Some (method, [71;69;84]) /\
  search ex_state (F [120] [122]) = (0, false).
Proof. exact example_search. Qed.
Print Assumptions C04_example_search.

Example C04_example_prefix :
  append_header ex_state [] (Fs authz [115]) true = Ok ([31; 8; 1; 115], ex_state) /\
  append_header ex_state [9; 9] (Fs authz [115]) true = Ok ([9; 9] ++ [31; 8; 1; 115], ex_state).
Proof. exact example_prefix. Qed.
Print Assumptions C04_example_prefix.
