(* Property C15: the Huffman coder of /repo/huffman.go is RFC 7541 section 5.2 / Appendix B.
   Statements only; the proofs are in Proofs/Huffman*.v. *)
From H2V Require Import Base.Bytes Base.Result Gen.GenHuffman Spec.XNetTables Spec.Rfc7541Huffman Impl.Huffman.
From H2V Require Proofs.HuffmanTable Proofs.HuffmanEncode Proofs.HuffmanDecode Proofs.HuffmanExamples.
Local Open Scope N_scope.

(* The tables compiled into the package are RFC 7541 Appendix B (independent copy), and that
   table, with EOS = 30 ones as symbol 256, is the canonical prefix code of its length vector:
   canonical (codes assigned in (length, symbol) order), complete (Kraft sum exactly 1, scaled
   by 2^30) and prefix-free. *)
Theorem C15_table_is_rfc :
  huffman_codes = rfc_codes /\ huffman_code_len = rfc_code_len /\
  length rfc_codes = 256%nat /\ length rfc_code_len = 256%nat /\
  rfc_eos_len = 30 /\ rfc_eos_code = 2 ^ 30 - 1 /\ eos_bits = repeat true 30 /\
  is_canonical rfc_codes_eos rfc_lens_eos /\
  kraft_sum rfc_lens_eos = 2 ^ 30 /\
  prefix_free code_words.
Proof. exact HuffmanTable.table_is_rfc. Qed.
Print Assumptions C15_table_is_rfc.

(* package initialisation (rootHuffmanNode) does not panic *)
Theorem C15_root_built : build_root = Some huffman_root.
Proof. exact HuffmanTable.root_built. Qed.
Print Assumptions C15_root_built.

Theorem C15_encode_is_spec : forall s, bytes_ok s = true -> huffman_encode s = spec_encode s.
Proof. exact HuffmanEncode.encode_is_spec. Qed.
Print Assumptions C15_encode_is_spec.

Theorem C15_decode_exact : forall b s, bytes_ok b = true -> (huffman_decode b = Ok s <-> spec_valid b s).
Proof. exact HuffmanDecode.decode_exact. Qed.
Print Assumptions C15_decode_exact.

Theorem C15_roundtrip : forall s, bytes_ok s = true -> huffman_decode (huffman_encode s) = Ok s.
Proof. exact HuffmanDecode.roundtrip. Qed.
Print Assumptions C15_roundtrip.

Theorem C15_decode_total : forall b, bytes_ok b = true -> is_panic (huffman_decode b) = false.
Proof. exact HuffmanDecode.decode_total. Qed.
Print Assumptions C15_decode_total.

Theorem C15_decode_output_bound : forall b s, bytes_ok b = true -> huffman_decode b = Ok s -> (5 * length s <= 8 * length b)%nat.
Proof. exact HuffmanDecode.decode_output_bound. Qed.
Print Assumptions C15_decode_output_bound.

(* The hypotheses are satisfiable: RFC 7541 C.4.1, "www.example.com" = f1e3 c2e5 f23a 6ba0 ab90 f4ff *)
Example C15_example_www :
  bytes_ok HuffmanExamples.ex_www = true /\ bytes_ok HuffmanExamples.ex_www_enc = true /\
  huffman_encode HuffmanExamples.ex_www = HuffmanExamples.ex_www_enc /\
  spec_encode HuffmanExamples.ex_www = HuffmanExamples.ex_www_enc /\
  huffman_decode HuffmanExamples.ex_www_enc = Ok HuffmanExamples.ex_www /\
  spec_valid HuffmanExamples.ex_www_enc HuffmanExamples.ex_www.
Proof. exact HuffmanExamples.example_www. Qed.
Print Assumptions C15_example_www.

(* ... and the decoder does reject: an encoded EOS, non-ones padding, a full byte of padding *)
Example C15_example_rejects :
  huffman_decode [255; 255; 255; 255] = Err E_huff_index /\
  huffman_decode [0] = Err E_huff_zero /\
  huffman_decode [7; 255] = Err E_huff_left.
Proof. exact HuffmanExamples.example_rejects. Qed.
Print Assumptions C15_example_rejects.
