(* The server's configuration glue and handshake (server.go: ServerConfig.defaults, ServeConn, maxRequestBodySize;
   configure.go: ConfigureServer, ConfigureServerAndConfig; conn.go: Handshake), Impl/ServerSetup.v.
   Theorems for EVERY user configuration (any ints, zero and negative included) and both constructors. They carry
     C18 "the settings the endpoint advertises itself are the ones it enforces": every value of the handshake's SETTINGS
         frame equals the value in the `config` the connection model enforces (Setup_announced_is_enforced,
         Setup_handshake_bytes);
     C13 "within the configured limits": what the limits ARE for a given configuration - zero means the default, so the
         header-list guard is on unless it is switched off with a negative value (Setup_header_list, Setup_body);
     C01 "for any set of well-formed requests ... the handler runs": a server is never left with a stream limit of zero
         for want of configuration (Setup_streams) - it was, for every server made by ConfigureServerAndConfig, until
         the repair recorded in known_findings.json (fixed: C01 ConfigureServerAndConfig);
     C14 "never issues an increment of 0": the handshake's WINDOW_UPDATE (Setup_window_update).
   Only statements; proofs are lemmas of Proofs/SetupThms.v.  Tie: the `server` suite builds the server from raw values
   through either constructor, gives the model `srv_serve_config` of them, and compares the handshake bytes. *)
From H2V Require Import Base.Bytes Base.Result Gen.GenConsts Gen.GenSetup Impl.Frames Impl.ServerConn Impl.ServerSetup Proofs.SetupThms.
From Coq Require Import NArith ZArith List Bool.
Import ListNotations.
Local Open Scope Z_scope.

Theorem Setup_streams : forall ac u, su_maxStreams u < two32 ->
  cf_maxStreams (srv_serve_config ac u) = (if ac || (su_maxStreams u <=? 0) then c_srvDefaultMaxStreams else su_maxStreams u) /\
  1 <= cf_maxStreams (srv_serve_config ac u).
Proof. exact setup_streams. Qed.
Print Assumptions Setup_streams.

(* the bound is needed: uint32(int) wraps *)
Example Setup_streams_wraps : cf_maxStreams (srv_serve_config false (mkSrvUser two32 0 0 0)) = 0.
Proof. exact setup_streams_wraps. Qed.

Theorem Setup_header_list : forall ac u,
  cf_maxHeaderList (srv_serve_config ac u) =
    (if ac || (su_maxHeaderList u =? 0) then c_srvDefaultMaxHeaderListSize else su_maxHeaderList u) /\
  (0 <= su_maxHeaderList u \/ ac = true -> 0 < cf_maxHeaderList (srv_serve_config ac u)).
Proof. exact setup_header_list. Qed.
Print Assumptions Setup_header_list.

Theorem Setup_body : forall ac u,
  cf_maxBody (srv_serve_config ac u) = (if 0 <? su_maxBody u then su_maxBody u else c_fasthttpDefaultMaxBody) /\
  0 < cf_maxBody (srv_serve_config ac u).
Proof. exact setup_body. Qed.
Print Assumptions Setup_body.

Theorem Setup_announced_is_enforced : forall ac u, su_maxStreams u < two32 -> su_maxHeaderList u < two32 ->
  let cfg := srv_serve_config ac u in
  srv_announced ac u =
    [(c_EnablePush, 0%N); (c_MaxConcurrentStreams, Z.to_N (cf_maxStreams cfg)); (c_MaxWindowSize, Z.to_N (cf_maxWindow cfg))]
    ++ (if 0 <? cf_maxHeaderList cfg then [(c_MaxHeaderListSize, Z.to_N (cf_maxHeaderList cfg))] else []).
Proof. exact setup_announced_is_enforced. Qed.
Print Assumptions Setup_announced_is_enforced.

(* the handshake on the wire: SETTINGS (no flags, stream 0) carrying exactly the announced entries in that order, then
   WINDOW_UPDATE(0, 1<<22) *)
Theorem Setup_handshake_bytes : forall ac u,
  srv_handshake_bytes ac u =
    Ok (uint24_to_bytes (len (entries (srv_announced ac u))) ++ [4%N; 0%N; 0%N; 0%N; 0%N; 0%N] ++ entries (srv_announced ac u)
        ++ [0%N; 0%N; 4%N; 8%N; 0%N; 0%N; 0%N; 0%N; 0%N] ++ [0%N; 64%N; 0%N; 0%N]).
Proof. intros ac u. apply setup_handshake_bytes. apply announced_len. Qed.
Print Assumptions Setup_handshake_bytes.

Theorem Setup_window_update : 0 < srv_max_window <= 2147483647 /\ forall ac u, cf_maxWindow (srv_serve_config ac u) = srv_max_window.
Proof. exact setup_window_update. Qed.
Print Assumptions Setup_window_update.

Example Setup_ex_and_config : srv_serve_config true (mkSrvUser 0 0 0 0) =
  {| cf_maxStreams := 1024; cf_maxHeaderList := 1048576; cf_maxBody := 4194304; cf_maxRequestTime := 0; cf_maxWindow := 4194304 |}.
Proof. exact ex_and_config. Qed.
Example Setup_ex_announced : srv_announced false (mkSrvUser 0 400 0 0) = [(2%N, 0%N); (3%N, 1024%N); (4%N, 4194304%N); (6%N, 400%N)].
Proof. exact ex_announced. Qed.
