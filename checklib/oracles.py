"""Trace oracles for the connection-grain suites.

Each oracle judges the IMPLEMENTATION's observed behaviour on one scenario (the case line and
the Go result line) against the property text directly, independently of the Coq model. They
are what turns "model and implementation disagree" into "the implementation breaks the
property on this history" (a VIOLATION with the history as its replay). They deliberately
check only what is certain from the observables, so that they never fire on a conforming
implementation; the theorems are about the model, these are the search for a failing input.
"""


def parse_server_case(line):
    parts = line.split(" | ")
    cfg = {}
    for kv in parts[0].split()[1].split(","):
        k, v = kv.split("=")
        cfg[k] = int(v)
    evs = []
    for p in parts[1:]:
        t = p.split()
        if t[0] == "F":
            evs.append({"k": "F", "kind": t[1], "flags": int(t[2], 16), "sid": int(t[3]) & 0x7fffffff,
                        "payload": t[4], "pad": t[5], "dep": t[6], "code": int(t[8]), "inc": int(t[9]),
                        "settings": [] if t[10] == "-" else [tuple(int(x) for x in kv.split("=")) for kv in t[10].split(",")]})
        elif t[0] == "B":
            evs.append({"k": "B", "cls": t[2]})
        elif t[0] == "D":
            evs.append({"k": "D", "sid": int(t[1]), "status": int(t[2]), "body": t[4]})
        elif t[0] == "M":
            # a burst of frames written at once: the ledger applies their grants in order
            evs.append({"k": "M", "frames": [x for x in p.split(" ~ ")]})
        else:
            evs.append({"k": t[0]})
    return cfg, evs


def parse_server_result(go):
    """groups: list of lists of items; tail flags (!pool, !panic, !maxhandlers)."""
    main, *flags = go.split(" !")
    groups = [g.split(";") if g not in ("", "-") else ([] if g == "" else ["-"]) for g in main.split(" / ")]
    fl = {}
    for f in flags:
        if "=" in f:
            k, v = f.split("=", 1)
            fl[k] = v
        elif ":" in f:
            k, v = f.split(":", 1)
            fl[k] = v
        else:
            fl[f] = True
    return groups, fl


def hexlen(h):
    return 0 if h == "-" else len(h) // 2


def items(groups):
    for gi, g in enumerate(groups):
        for it in g:
            yield gi, it


def oracle_c06(line, go):
    """Send-side flow control: ledger kept by the peer, in frame order."""
    cfg, evs = parse_server_case(line)
    groups, _ = parse_server_result(go)
    init = 65535
    conn = 65535
    win = {}      # stream -> window in the peer's ledger
    ended = set()
    for i, ev in enumerate(evs):
        g = groups[i] if i < len(groups) else []
        # the frame the peer sends first: grants apply before the server's reaction to it
        if ev["k"] == "GS":
            conn += 1   # the harness nudges the stream loop to its gate with WINDOW_UPDATE(0, 1)
        if ev["k"] == "F":
            if ev["kind"] == "H" and ev["sid"] not in win and ev["sid"] % 2 == 1:
                win[ev["sid"]] = init
            elif ev["kind"] == "W":
                if ev["sid"] == 0:
                    conn += ev["inc"]
                elif ev["sid"] in win:
                    win[ev["sid"]] += ev["inc"]
            elif ev["kind"] == "S" and ev["sid"] == 0 and not (ev["flags"] & 1):
                for (k, v) in ev["settings"]:
                    if k == 4 and v <= 0x7fffffff:
                        for s in win:
                            win[s] += v - init
                        init = v
        for it in g:
            if it.startswith("D") and ":" in it:
                sid, es, payload = it[1:].split(":")
                sid = int(sid)
                n = hexlen(payload)
                if n > 16384:
                    return "DATA frame of %d bytes on stream %d exceeds 16384" % (n, sid)
                if sid in ended:
                    return "DATA on stream %d after END_STREAM" % sid
                if n > 0:
                    if sid not in win:
                        return "DATA on stream %d the peer never opened" % sid
                    if n > win[sid]:
                        return "DATA of %d bytes on stream %d exceeds its window %d" % (n, sid, win[sid])
                    if n > conn:
                        return "DATA of %d bytes on stream %d exceeds the connection window %d" % (n, sid, conn)
                    win[sid] -= n
                    conn -= n
                if es == "1":
                    ended.add(sid)
            elif it.startswith("H") and ":" in it:
                sid, es, _ = it[1:].split(":")
                sid = int(sid)
                if sid in ended:
                    return "HEADERS on stream %d after END_STREAM" % sid
                if es == "1":
                    ended.add(sid)
    return None


def oracle_c10(line, go):
    """GOAWAY last-stream-id >= every dispatched stream; nothing above it dispatched afterwards."""
    groups, _ = parse_server_result(go)
    dispatched = []
    goaways = []
    for gi, it in items(groups):
        if it.startswith("Xlate"):
            continue   # dispatched after the connection had gone (gated schedules): its stream id is not observable
        if it.startswith("X"):
            dispatched.append((gi, int(it[1:].split(":")[0])))
        elif it.startswith("G") and ":" in it and not it.startswith("G0,"):
            try:
                last, code = it[1:].split(":")
                goaways.append((gi, int(last), int(code)))
            except ValueError:
                pass
    for (gg, last, code) in goaways:
        for (gd, sid) in dispatched:
            if sid > last:
                return "GOAWAY(last=%d, code=%d) but stream %d was dispatched (%s)" % (last, code, sid, "before" if gd <= gg else "after")
    return None


def oracle_c13(line, go):
    cfg, evs = parse_server_case(line)
    groups, fl = parse_server_result(go)
    ms = cfg["ms"]
    if "maxhandlers" in fl and int(fl["maxhandlers"]) > ms:
        return "%s handlers ran at once with MaxConcurrentStreams=%d" % (fl["maxhandlers"], ms)
    for gi, it in items(groups):
        if it.startswith("g") and "," in it:
            strms, opn, ring = (int(x) for x in it[1:].split(",")[:3])
            if opn > ms:
                return "open stream slots %d > MaxConcurrentStreams %d" % (opn, ms)
            if strms > ms + 1:
                return "stream table holds %d streams with MaxConcurrentStreams %d" % (strms, ms)
            if ring > 256:
                return "closed-stream memory holds %d ids" % ring
        elif it.startswith("X"):
            body = it.split(":")[-1]
            if cfg["mb"] > 0 and hexlen(body) > cfg["mb"]:
                return "handler given a body of %d bytes with MaxRequestBodySize %d" % (hexlen(body), cfg["mb"])
    return None


def oracle_c14(line, go):
    groups, _ = parse_server_result(go)
    for gi, it in items(groups):
        if it.startswith("W") and ":" in it:
            sid, inc = it[1:].split(":")
            if int(inc) <= 0:
                return "WINDOW_UPDATE with increment %s on stream %s" % (inc, sid)
            if int(inc) > 0x7fffffff:
                return "WINDOW_UPDATE increment %s above 2^31-1" % inc
    return None


def oracle_c17(line, go):
    groups, fl = parse_server_result(go)
    if "panic" in fl:
        return "the server logged a recovered panic"
    if "HANG" in go:
        return "ServeConn did not return after the peer had gone"
    if "pool" in fl and "recycled-under-its-handler" in str(fl["pool"]):
        return "pool tracker: " + str(fl["pool"])
    if "leak" in fl:
        return "%s handler goroutines never came back after their handlers had returned and the connection was closed" % fl["leak"]
    return None


def oracle_c19(line, go):
    groups, fl = parse_server_result(go)
    if "pool" in fl:
        return "pool tracker: " + str(fl["pool"])
    return None


def oracle_c18(line, go):
    """Peer limits: no frame larger than the peer's SETTINGS_MAX_FRAME_SIZE; one ACK per SETTINGS frame, in order."""
    cfg, evs = parse_server_case(line)
    groups, _ = parse_server_result(go)
    limit = 16384
    acks_due = 0
    for i, ev in enumerate(evs):
        g = groups[i] if i < len(groups) else []
        if ev["k"] == "F" and ev["kind"] == "S" and ev["sid"] == 0 and not (ev["flags"] & 1):
            for (k, v) in ev["settings"]:
                if k == 5 and 16384 <= v <= 16777215:
                    limit = v
            acks_due += 1
        for it in g:
            if it == "SA":
                acks_due -= 1
                if acks_due < 0:
                    return "SETTINGS ACK without a SETTINGS frame to acknowledge"
            elif (it.startswith("H") or it.startswith("D")) and it.count(":") == 2:
                sid, es, payload = it[1:].split(":")
                if hexlen(payload) > limit:
                    return "%s frame of %d bytes on stream %s exceeds the peer's MAX_FRAME_SIZE %d" % (
                        "HEADERS" if it[0] == "H" else "DATA", hexlen(payload), sid, limit)
    return None


def oracle_setup(line, go):
    """The server's handshake read off the wire against the configuration it was GIVEN (the head of the case line holds the
    limits the user asked for: defaults where he asked for none): SETTINGS_MAX_CONCURRENT_STREAMS is that stream limit -
    never 0 for want of configuration -, SETTINGS_MAX_HEADER_LIST_SIZE that header-list limit (absent when switched off),
    SETTINGS_INITIAL_WINDOW_SIZE and the WINDOW_UPDATE are 1<<22, ENABLE_PUSH is 0."""
    cfg, _ = parse_server_case(line)
    _, fl = parse_server_result(go)
    hs = fl.get("hs")
    if not hs or hs == "-" or not isinstance(hs, str):
        return None
    try:
        b = bytes.fromhex(hs)
    except ValueError:
        return None
    if len(b) < 9:
        return None
    n = int.from_bytes(b[0:3], "big")
    if b[3] != 4 or len(b) < 9 + n or n % 6:
        return "the server's first frame is not a SETTINGS frame: " + hs[:40]
    params = {}
    for i in range(9, 9 + n, 6):
        params[int.from_bytes(b[i:i + 2], "big")] = int.from_bytes(b[i + 2:i + 6], "big")
    ms, hl = cfg.get("ms", 0), cfg.get("hl", 0)
    if 0 < ms < 2 ** 32 and params.get(3) != ms:
        return "the server announces SETTINGS_MAX_CONCURRENT_STREAMS=%s, its configuration says %d" % (params.get(3), ms)
    if 0 < hl < 2 ** 32 and params.get(6) != hl:
        return "the server announces SETTINGS_MAX_HEADER_LIST_SIZE=%s, its configuration says %d" % (params.get(6), hl)
    if hl < 0 and 6 in params:
        return "the server announces a header list limit although the check is switched off"
    if params.get(2, 0) != 0:
        return "the server announces ENABLE_PUSH=%d" % params.get(2)
    rest = b[9 + n:]
    if len(rest) >= 13 and rest[3] == 8:
        inc = int.from_bytes(rest[9:13], "big") & 0x7fffffff
        if inc == 0:
            return "the handshake's WINDOW_UPDATE has increment 0"
    return None


def _with_setup(orc):
    def f(line, go):
        return oracle_setup(line, go) or (orc(line, go) if orc else None)
    return f


SERVER_ORACLES = {
    "C06": oracle_c06, "C10": oracle_c10, "C13": _with_setup(oracle_c13), "C14": _with_setup(oracle_c14), "C17": oracle_c17,
    "C19": oracle_c19, "C18": _with_setup(oracle_c18), "C01": _with_setup(None),
}


def finding_goaway_enhance_your_calm(line, go):
    """Used only to replay a known finding: the history ends in GOAWAY(ENHANCE_YOUR_CALM)."""
    groups, _ = parse_server_result(go)
    for gi, it in items(groups):
        if it.startswith("G") and it.endswith(":11"):
            return "GOAWAY(ENHANCE_YOUR_CALM) for a request whose header list is over the limit (a stream-scoped offence)"
    return None


def finding_c08_d1(line, go):
    groups, _ = parse_server_result(go)
    if any(it.startswith("G") and it.endswith(":1") for _, it in items(groups)):
        return "PRIORITY on an even (idle, server-initiated) stream id answered with GOAWAY(PROTOCOL_ERROR); RFC 7540 6.3 allows PRIORITY in any state"
    return None


def finding_c08_d3(line, go):
    groups, _ = parse_server_result(go)
    last = groups[-2] if len(groups) >= 2 else []
    if not any(it.startswith("R") or (it.startswith("G") and ":" in it) for it in last):
        return "WINDOW_UPDATE after the peer's RST_STREAM is ignored; RFC 7540 5.1 asks for a stream error STREAM_CLOSED"
    return None


def finding_c08_d6(line, go):
    groups, _ = parse_server_result(go)
    if any(it.startswith("G") and it.endswith(":5") for _, it in items(groups)):
        return "SETTINGS frame carrying the id of a closed stream answered with GOAWAY(STREAM_CLOSED); RFC 7540 6.5 says PROTOCOL_ERROR"
    return None


# --- client suite: the scripted server's own observations (the "!bad:" / "!pool:" tails of the result line) ---
# The scripted peer keeps the flow-control ledger, decodes every request block with x/net and compares it with the
# request the caller handed in, and watches deliveries; each observation is named in harness/cmd/h2v/client.go.
_CLIENT_BAD = {
    "C07": ("data-frame-", "connection-window-exceeded", "stream-", ),
    "C18": ("data-frame-",),
    "C14": ("conn-recv-window-",),
    "C02": ("block-", "headers-", "even-stream-id", "end-stream-on-headers", "dataflags"),
    "C11": ("retryable-after-headers",),
    "C12": ("second-delivery", "submit-while-write-held"),
}


def _client_tail(go, key):
    for f in go.split(" !")[1:]:
        if f.startswith(key + ":"):
            return f[len(key) + 1:].split(",")
    return []


def client_oracle(pid):
    pre = _CLIENT_BAD.get(pid, ())

    def orc(line, go):
        for b in _client_tail(go, "bad"):
            if b.startswith(pre) and pre:
                return "the scripted server observed: " + b
        if pid in ("C12", "C19") and _client_tail(go, "pool"):
            return "pool tracker: " + ",".join(_client_tail(go, "pool"))
        if pid == "C12" and (":stuck" in go or "!panic" in go or "HANG" in go):
            return "a caller was left waiting (or a panic was recovered) in: " + go[:200]
        return None
    return orc


CLIENT_ORACLES = {pid: client_oracle(pid) for pid in ("C02", "C07", "C11", "C12", "C14", "C18", "C19")}

FINDING_ORACLES = dict(SERVER_ORACLES)
FINDING_ORACLES["c08-d1"] = finding_c08_d1
FINDING_ORACLES["c08-d3"] = finding_c08_d3
FINDING_ORACLES["c08-d6"] = finding_c08_d6
FINDING_ORACLES["goaway-enhance-your-calm"] = finding_goaway_enhance_your_calm


def finding_c18_client_headers(line, go):
    """Known finding replay: the client put a HEADERS frame above 16384 bytes on the wire (no server in the replay case raises the limit)."""
    for g in go.split(" !")[0].split(" / "):
        for it in g.split(";"):
            if it.startswith("H") and it.count(":") == 2 and hexlen(it.split(":")[2]) > 16384:
                return "HEADERS frame of %d bytes with SETTINGS_MAX_FRAME_SIZE 16384" % hexlen(it.split(":")[2])
    return None


FINDING_ORACLES["c18-client-headers"] = finding_c18_client_headers
