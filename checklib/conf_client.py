"""Client connection-grain suite and the properties decided on the client model."""


def cli_nontrivial(line, go):
    # a scenario is non-trivial when the client put a request on the wire and a caller got an answer
    return ("H" in go) and (";r" in go or "/ r" in go)


SUITES = {
    "client": {
        "n_quick": 300, "n_thorough": 5000,
        "nontrivial": cli_nontrivial,
    },
}

_CLI_ASSUME = [
    "conn.go/client.go hand-translated to Impl/ClientConn.v (one Gallina function per Go function); kept honest by the lockstep differential run",
    "one select case of the write loop, one frame of the read loop, one Conn.Write, each half of Conn.Close and of Ctx.fireTimeout, "
    "and the tail of roundTripOnce are atomic steps; channels are unbounded FIFO queues; Go's map iteration order in flushPending is an event payload "
    "(observed in the differential run)",
    "mutexes other than Ctx.lck are taken and released inside one Go function and never nested in themselves; Ctx.lck is tracked (SelfDeadlock outcome)",
    "fasthttp (Request/Response, header canonicalisation, All() order), bufio, net.Conn, timers' real-time behaviour, the Go scheduler and memory model, "
    "Client.pickConn/RoundTrip's loop over connections, dialing and TLS are outside the model",
    "request views (URI().Host(), Header.All(), body) are read from the fasthttp.Request by the harness and given to the model as the caller's input",
]

_RULE = ("scenarios generated while they run (the scripted server reacts to the stream ids the client picks): 1-6 requests, buffered/streamed "
         "bodies around the 65535 window and the 16384 frame size, responses in any order with random HPACK representation choices, "
         "HEADERS/CONTINUATION splits at random bytes, padding, interim responses, trailers; WINDOW_UPDATE and SETTINGS (INITIAL_WINDOW_SIZE, "
         "MAX_FRAME_SIZE, MAX_CONCURRENT_STREAMS, HEADER_TABLE_SIZE) mid-upload; GOAWAY with various last-stream-ids incl. the two-step shutdown "
         "(2^31-1, then lower), RST_STREAM, 0.5 MB downloads that continue onto a stream the client no longer has, requests after "
         "GOAWAY and beyond MAX_CONCURRENT_STREAMS; malformed responses (RFC 7540 8.1.2) and frames (catalogue in harness/cmd/h2v/client_gen.go); "
         "cut connections, write failures, Close and cancel timers in two halves (tick gates); lockstep: after each event the harness waits for "
         "quiescence (hook counters) and records frames, results and gauges; the scripted server keeps the flow-control ledger and decodes every "
         "request block with x/net; non-trivial = a request went out and a caller got an answer")


def _p(expl):
    return {"suites": ["client"], "rule": _RULE, "explanation": expl, "assumptions": _CLI_ASSUME}


PROPS = {
    "C02": _p("request integrity (ids, header block = request under an RFC 7541 decoder, body) and response routing by stream id on the client model + lockstep correspondence"),
    "C07": _p("send-window ledger safety, frame size, no-stall and completion on the client model + lockstep correspondence (the scripted server keeps the ledger)"),
    "C11": _p("no stream after GOAWAY, streams above last-stream-id end with a retryable error, retryable only if unprocessed, on the client model + lockstep correspondence"),
    "C12": _p("resolve-once, no stranding, no self-deadlock, no panic, pool safety over all event lists of the client model + lockstep correspondence"),
}

from checklib.oracles import CLIENT_ORACLES

for _pid in PROPS:
    if _pid in CLIENT_ORACLES:
        PROPS[_pid]["impl_oracle"] = {"client": CLIENT_ORACLES[_pid]}

PROPS["C12"]["freerun"] = {"rounds_quick": 400, "rounds_thorough": 20000, "race": False, "watch": ["stranded", "wrongerr"],
                           "meaning": "a caller still waiting 20 s after the connection was closed; a caller handed a recovered panic or another request's failure"}
PROPS["C11"]["freerun"] = {"rounds_quick": 600, "rounds_thorough": 20000, "race": False, "watch": ["resent", "retryproc"],
                           "meaning": "pool rounds through the real Client.RoundTrip / pickConn / roundTripOnce: a request reached a handler twice "
                                      "(the client sent again what a server had processed); RoundTrip said retry for a request a handler had been given"}
PROPS["C11"]["probe"] = {"rounds_quick": 300, "rounds_thorough": 20000,
                         "meaning": "goaway-gate: with the read loop held between taking a GOAWAY in and failing the streams it disclaims, a request "
                                    "a caller starts is turned away (retryable) and no HEADERS frame with a new stream id reaches the server"}
PROPS["C02"]["freerun"] = {"rounds_quick": 400, "rounds_thorough": 20000, "race": False, "watch": ["mismatch", "wrongerr"],
                           "meaning": "a response that is not this caller's; a caller handed a recovered panic or another request's failure"}

# properties already configured in conf_server.py (suites ["server"]) whose client half runs on this suite too
CLIENT_ALSO = ["C14", "C18", "C20", "C19"]
