"""Frame codec slice: suites frameread / framewrite, properties C05 and C16."""


def _strip_x(s):
    return s[2:] if s.startswith("x:") else s


def _one_read(got, spec, is_ref):
    """One ReadFrameFromWithSize result against the RFC reader's outcome."""
    if not is_ref and " viol=-" not in got:
        return False                       # the pool tracker saw a double release / two owners
    if spec.startswith("ok "):
        return got == spec or got.startswith(spec + " ")
    if spec == "short":
        return got.startswith("err ")      # EOF class; a cut unknown-type frame reports unknown-type
    if spec == "toolarge":
        return got.startswith("err too-large ")
    if spec.startswith("unknown "):
        return got.startswith("err unknown-type " + spec[len("unknown "):] + " ")
    if spec.startswith("malformed "):
        return got.startswith("err ") and (" " + spec[len("malformed "):] + " ") in got
    if spec.startswith("badsettings "):
        return got.startswith("err settings-") and (" " + spec[len("badsettings "):] + " ") in got
    return False


def frameread_rule(line, got, spec):
    is_ref = got.startswith("x:")
    got = _strip_x(got)
    op = line.split(" ", 1)[0]
    if op == "rda":
        return got == spec
    if op in ("rds", "rdm"):
        g, s = got.split(" | "), spec.split(" | ")
        # a frame of unknown type cut short is reported as unknown-type (its missing bytes
        # discarded silently); the caller skips it and meets the end of input on the next read
        if len(g) == len(s) + 1 and s[-1] == "short" and g[-2].startswith("err unknown-type ") and g[-1].startswith("err eof "):
            g = g[:-1]
        return len(g) == len(s) and all(_one_read(a, b, is_ref) for a, b in zip(g, s))
    return _one_read(got, spec, is_ref)


def framewrite_rule(line, got, spec):
    if line.startswith(("rw ", "rwd ", "rwa ")):
        # a frame read and written back must read back to the same accessor values
        return spec == "same-view"
    if got.startswith("x:"):
        # x/net's reading of the bytes against the spec's reading of the same bytes
        if spec.startswith("ok "):
            parsed = spec[3:]
        elif spec.startswith("settings-meaning-differs "):
            parsed = spec[len("settings-meaning-differs "):]
        elif spec.startswith("differs got=["):
            parsed = spec[len("differs got=["):].split("]", 1)[0]
        else:
            return got == "x:reject"
        return got == "x:ok " + parsed
    return spec.startswith("ok ")


def frame_nontrivial(line, go):
    a = line.split(" ")
    return len(a) > 2 and a[-1] not in ("-", "obs=-")


SUITES = {
    "frameread": {
        "n_quick": 20000, "n_thorough": 600000,
        "nontrivial": frame_nontrivial, "spec_rule": frameread_rule,
    },
    "framewrite": {
        "n_quick": 6000, "n_thorough": 200000,
        "nontrivial": frame_nontrivial, "spec_rule": framewrite_rule,
    },
}

_ASSUME = [
    "Go semantics of frameHeader.go, frame.go, the ten frame files and http2utils/utils.go hand-translated "
    "(int8 FrameType/FrameFlags, uint32 truncations, slice bounds as Panic); kept honest by the differential run",
    "bufio.Reader modelled as the byte list it will deliver: Peek(9) consumes nothing on a short read, "
    "io.ReadFull consumes what is there; buffer size >= 9",
    "sync.Pool modelled as an Acq/Rel event log compared with the pool tracker's log per call",
    "RFC 7540 sections 4.1, 4.2, 6.1-6.10 as transcribed in Spec/Rfc7540Frames.v; validated against x/net's Framer both ways",
]

PROPS = {
    "C05": {
        "suites": ["framewrite", "frameread"],
        "rule": "write: frames read and written back (forwarding); 10 types x all 256 pre-set flag octets x payload lengths {0,1,4..9,16383,16384,16385} x padding "
                "on/off x stream ids {0,1,2,2^31-1,2^31,..} x boundary field values, each value also written twice, and on a FrameHeader used before (recycled through the pool, junk payload/length); SETTINGS acknowledged in place; "
                "read: frames written by x/net's Framer and by a raw writer (any flags, reserved bits, padding content); "
                "non-trivial = non-empty frame bytes; distinct by case line",
        "explanation": "Theorems in coq/Props/C05.v about the Gallina model of the frame codec against "
                       "Spec/Rfc7540Frames.v (spec_write/spec_parse proved inverse); the model is tied to the code by "
                       "running WriteTo / ReadFrameFromWithSize, the extracted model, the extracted spec and x/net's "
                       "Framer on the same cases.",
        "assumptions": _ASSUME,
    },
    "C16": {
        "suites": ["frameread", "hpackdec"],
        "rule": "all 2^16 (type,flags) headers x short payloads, impossible fixed sizes / pad lengths / SETTINGS values, "
                "lengths around the limit with the payload present or cut, every prefix of valid frame streams read to "
                "the end on one reader, every prefix of single frames, random soups, reads with mixed limits (ReadFrameFrom / ReadFrameFromWithSize(0, 100, 2^14, 2^20, ...)) on one pool; pool tracker log compared per call",
        "explanation": "Theorems in coq/Props/C16.v (read_total, read_sound, structure_rejected, truncation, pool_safe) "
                       "about the Gallina model of ReadFrameFromWithSize; model tied to the code by the frameread suite.",
        "assumptions": _ASSUME,
    },
}
