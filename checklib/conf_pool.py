"""The `pool` suite: client.go's connection pool (pickConn, createConn, onConnectionDropped, Client.Close) against
Impl/ClientPool.v, and the properties whose pool-side clauses it carries."""


def pool_nontrivial(line, go):
    # a scenario is non-trivial when a caller was handed a connection and a connection was closed
    return "c" in go and "/K" in go


def oracle_pool(line, go):
    """Clauses of C11/C18/C12 read off the implementation's own records (no model): a caller is never handed a
    connection that is closed or has no room; a closed Client never dials and holds nothing; one dial per call at most;
    the list never holds a connection twice."""
    if go.startswith("HANG") or "panic" in go:
        return "pool: the Client hung or panicked: " + go[:120]
    evs = [t for t in line.split(" ")[-1].split(";") if t]
    recs = go.split(";")
    if len(recs) != len(evs):
        return None  # scenario ended inside a Close: the tail is not recorded; the comparison with the model decides
    closed_conns, cannot, made, prev_list, client_closed = set(), set(), set(), [], False
    for ev, rec in zip(evs, recs):
        parts = rec.split("/")
        if len(parts) != 4:
            return None
        res, outs, lst, cl = parts
        outs = [o for o in outs.split(",") if o]
        lst = [x for x in lst.split(".") if x]
        dials = [o for o in outs if o.startswith("D")]
        if len(dials) > 1:
            return "pool: %d dials in one call (%s)" % (len(dials), ev)
        if client_closed and (dials or lst):
            return "pool: a closed Client dialed or holds a connection (%s: %s)" % (ev, rec)
        if len(set(lst)) != len(lst):
            return "pool: the list holds a connection twice: " + rec
        for o in outs:
            if o.startswith("K"):
                closed_conns.add(o[1:])
        for o in dials:
            if o.startswith("Do"):
                made.add(o[2:])
        if ev[0] == "S":
            cid, b = ev[1:].split(",")
            if cid in made:  # a connection that does not exist (yet) has no CanOpenStream to change
                (cannot.discard if b == "1" else cannot.add)(cid)
        if ev[0] == "P" and res.startswith("c"):
            cid = res[1:]
            fresh = dials == ["Do" + cid]
            if not fresh:
                if cid in closed_conns:
                    return "pool: pickConn handed out a closed connection (%s)" % cid
                if cid in cannot:
                    return "pool: pickConn handed out a connection that cannot open a stream (%s)" % cid
                if cid not in prev_list:
                    return "pool: pickConn handed out a connection that was not in the list (%s)" % cid
                if dials:
                    return "pool: pickConn dialed although it returned an existing connection"
        if ev[0] == "E" and dials and ev[1:].split(",")[0] not in prev_list:
            # onConnectionDropped replaces only a connection it finds in the list (Pool_callback_once, pl_on_dropped)
            return "pool: the onDisconnect callback of a connection that was not in the list dialed (%s: %s)" % (ev, rec)
        prev_list = lst
        client_closed = cl == "1"
    return None


def retry_nontrivial(line, go):
    return "attempts=1 " not in go


def oracle_retry(line, go):
    """C11 read off the implementation's own record: RoundTrip says "retry" only when no server was given the request
    (every HEADERS that reached a server was disclaimed by GOAWAY), and never makes more than four attempts."""
    if go.startswith("HANG"):
        return "retry: RoundTrip did not return: " + go
    kv = dict(x.split("=") for x in go.split() if "=" in x)
    if "A" in kv and kv["A"] != "nil":
        return "a request at or below the GOAWAY's last-stream-id did not complete: the connection went with it (%s)" % go
    if kv.get("retry") == "1" and int(kv.get("processed", "0")) > 0:
        return "RoundTrip said retry for a request a server had processed (%s)" % go
    if int(kv.get("attempts", "0")) > 4:
        return "RoundTrip made %s attempts" % kv.get("attempts")
    return None


def oracle_handover(line, go):
    if go != "clean":
        return "a request that was never given to a connection was answered with another request's failure: " + go
    return None


SUITES = {
    "handover": {"n_quick": 3, "n_thorough": 3, "nontrivial": lambda line, go: True},
    "retry": {
        "n_quick": 120, "n_thorough": 3000,
        "nontrivial": retry_nontrivial,
    },
    "pool": {
        "n_quick": 1500, "n_thorough": 40000,
        "nontrivial": pool_nontrivial,
    },
}

# properties (configured elsewhere) that also run this suite and count Props/Pool.v among their theorems
ALSO = {"pool": ["C11", "C12", "C18"], "retry": ["C11"], "handover": ["C12", "C19"]}
ALSO_ORACLES = {"pool": oracle_pool, "retry": oracle_retry, "handover": oracle_handover}
ALSO_PROPS = {"pool": "Pool"}
ALSO_ASSUME = {"retry": "RoundTrip's loop (client.go) is the Gallina function round_trip over attempt outcomes (Proofs/CliResRetry.v); kept honest by the `retry` suite: the real Client.RoundTrip against scripted connections (GOAWAY before processing, MAX_CONCURRENT_STREAMS=0, RST_STREAM, 200, dial and handshake failures); replacement dials of dropped connections are refused by the harness so that the k-th dial is the k-th attempt's",
               "pool": "client.go's pool (pickConn, createConn, onConnectionDropped, Client.Close) hand-translated to Impl/ClientPool.v; "
                       "Conn.Closed()/CanOpenStream() are per-connection inputs changed by environment events; Conn.Close is two steps "
                       "(CAS + transport close, then the onDisconnect callback); kept honest by the `pool` differential run on the real Client"}
