"""HPACK: suites hpackdec (C03) and hpackenc (C04). Case-line formats: harness/cmd/h2v/hpack.go."""


def _op(line):
    return line.split(" ", 1)[0]


def _strip_tables(res):
    """'ok <fields> <table> ; ...' -> the accept/reject + fields projection (x/net's table is not observable)."""
    out = []
    for part in res.split(" ; "):
        f = part.split(" ")
        out.append(" ".join(f[:2]) if f[0] == "ok" else f[0])
    return out


def dec_rule(line, res, spec):
    """Does a result (implementation's, or the reference's) satisfy the spec oracle's verdict?"""
    if res == spec:
        return True
    op = _op(line)
    if op in ("readint", "readstr"):
        # error classes are the implementation's own; the spec only says "decoding error"
        return res.startswith("err") and spec.startswith("err")
    if "*" in res:  # reference rows: fields and accept/reject only
        return _strip_tables(res) == _strip_tables(spec)
    return False


def enc_rule(line, res, spec):
    """enchist: the oracle checked the model's output block by block against spec_decode_block and echoes it
    behind 'sat' when every clause of C04 held; anything else is a violation ('viol <what>')."""
    if spec.startswith("sat "):
        return res == spec[4:]
    return res == spec


def dec_nontrivial(line, go):
    a = line.split(" ")
    return any(len(x) >= 2 and x != "-" for x in a[2:])


def enc_nontrivial(line, go):
    return "F" in line or _op(line) != "enchist"


SUITES = {
    "hpackdec": {"n_quick": 4000, "n_thorough": 80000, "nontrivial": dec_nontrivial, "spec_rule": dec_rule},
    "hpackenc": {"n_quick": 2500, "n_thorough": 50000, "nontrivial": enc_nontrivial, "spec_rule": enc_rule},
}

PROPS = {
    "C03": {
        "suites": ["hpackdec"],
        "rule": "cases: histories of 1-8 header blocks built from the RFC 7541 representation grammar (all modes, static / "
                "dynamic / just-evicted / zero / huge indices, size-update schedules within, above the limit and after a "
                "field, value lengths swept through 0..130 and the 2^7 (quick) and 2^14 (thorough) prefix boundaries, "
                "Huffman on/off, broken Huffman, strings longer than the block), the same blocks cut into HEADERS + "
                "CONTINUATION frames at random offsets and at every offset of the RFC Appendix C examples, truncation at "
                "every / a random offset (as a block and as a single nextField call), over-long and overflowing varints "
                "for every prefix width, mutated blocks and byte soup; non-trivial = at least one non-empty byte argument; "
                "distinct by case line",
        "explanation": "Theorems in coq/Props/C03.v (proofs in coq/Proofs/Hpack*.v) about the Gallina "
                       "model coq/Impl/Hpack.v of hpack.go / headerField.go and of the header-block loop of "
                       "serverConn.handleHeaderFrame; specification coq/Spec/Rfc7541.v: C03_dec_refines_spec (one block = "
                       "spec_decode_block: accept/reject, fields, table), C03_history_refines_spec (a connection), "
                       "C03_split_invariance (HEADERS + CONTINUATION cut anywhere), C03_spec_self_consistent, no panic / "
                       "progress / output bound. Model, implementation (through "
                       "verif_export.go: VerifHandleHeaderFrame drives the real nextField with the server's loop), extracted "
                       "spec_decode_block and x/net's hpack.Decoder run on the same case lines.",
        "assumptions": [
            "Go semantics of hpack.go hand-translated (uint32 table sizes, uint64 integers, int index arithmetic written out); kept honest by the differential run",
            "the header-block loop of serverConn.handleHeaderFrame is exercised through a copy of its decoding skeleton (VerifHandleHeaderFrame), not through the server",
            "RFC 7541 5.1 implementation limit chosen by the spec: at most 9 continuation octets per integer (values unbounded)",
            "x/net reference: leading size updates are fed one by one (x/net refuses a second one while its table is not empty); its table is not observable, only accept/reject, fields and sensitivity are compared",
        ],
    },
    "C04": {
        "suites": ["hpackenc"],
        "rule": "cases: encoder histories (DisableCompression / DisableDynamicTable flags; SetMaxTableSize in "
                "{0,1,31,32,33,64,4096,4097,65536,random} before, between (once or twice) and after blocks; blocks of 0-8 "
                "fields with names and values from static entries, repeats of earlier fields, fresh, empty, raw or Huffman "
                "form ending in 0x00, 100-300 bytes, binary; store and sensitive flags), appendInt for every prefix width "
                "at the boundary values, appendString; non-trivial = has a field or is a primitive call; distinct by case line",
        "explanation": "Theorems in coq/Props/C04.v (proofs in coq/Proofs/HpackEnc*.v) about the model of AppendHeader / "
                       "SetMaxTableSize / appendInt / appendString / search in coq/Impl/Hpack.v: C04_encoder_in_sync is the "
                       "induction over all connection histories against the decoder of coq/Spec/Rfc7541.v. Exact emitted bytes and encoder table after "
                       "every block compared model vs implementation; the oracle decodes the blocks with the extracted "
                       "spec_decode_block and checks every clause of C04 (same fields in order, decoder table = encoder "
                       "table, size <= peer's limit, required size updates, sensitive => never-indexed literal); x/net's "
                       "decoder decodes the implementation's bytes as the reference.",
        "assumptions": [
            "Go semantics of hpack.go hand-translated; kept honest by the differential run",
            "a header block is a sequence of AppendHeader calls on an empty buffer; SetMaxTableSize only between blocks",
            "the spec oracle runs on the model's bytes; the same row requires model bytes = implementation bytes",
        ],
    },
}
