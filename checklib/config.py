"""Per-property and per-suite configuration of ./check.

SUITES and PROPS are assembled from this file and every checklib/conf_*.py
(each defining its own SUITES / PROPS dictionaries)."""
import glob
import importlib
import os

# Axioms from the Coq standard library that a theorem may depend on (none expected).
AXIOM_ALLOW = set()


def _args(line):
    return line.split(" ")


def huff_nontrivial(line, go):
    a = _args(line)
    return len(a) > 1 and a[1] != "-" and len(a[1]) >= 2


SUITES = {
    "huffman": {
        "n_quick": 20000, "n_thorough": 400000,
        "nontrivial": huff_nontrivial,
    },
}

PROPS = {
    "C15": {
        "suites": ["huffman"],
        "rule": "cases: every byte string of length <=1 (quick) / <=2 (thorough) in both directions, symbol pairs, "
                "random strings (biased to >=20-bit codes), valid encodings with flipped padding / appended 0xff; "
                "non-trivial = non-empty input; distinct by case line",
        "explanation": "Theorems in coq/Props/C15.v about the Gallina model of huffman.go (tables generated from the "
                       "built package); model tied to the code by running HuffmanEncode/HuffmanDecode, the extracted "
                       "model, the extracted RFC spec and x/net's hpack on the same inputs.",
        "assumptions": [
            "Go semantics of huffman.go hand-translated (uint64/uint32/uint8 wrap-around written out); kept honest by the differential run",
            "RFC 7541 Appendix B lengths as transcribed from x/net (Spec/XNetTables.v)",
        ],
    },
}


for _p in sorted(glob.glob(os.path.join(os.path.dirname(__file__), "conf_*.py"))):
    _m = importlib.import_module("checklib." + os.path.basename(_p)[:-3])
    SUITES.update(getattr(_m, "SUITES", {}))
    PROPS.update(getattr(_m, "PROPS", {}))
    AXIOM_ALLOW.update(getattr(_m, "AXIOM_ALLOW", set()))

# properties with a half in each role run both connection suites
for _p in sorted(glob.glob(os.path.join(os.path.dirname(__file__), "conf_*.py"))):
    _m = importlib.import_module("checklib." + os.path.basename(_p)[:-3])
    for _pid in getattr(_m, "CLIENT_ALSO", []):
        if _pid in PROPS and "client" not in PROPS[_pid]["suites"]:
            PROPS[_pid]["suites"] = PROPS[_pid]["suites"] + ["client"]
            _co = getattr(_m, "CLIENT_ORACLES", {}).get(_pid)
            if _co is not None:
                PROPS[_pid].setdefault("impl_oracle", {})["client"] = _co

# suites that further properties run besides their own (conf_*.py: ALSO / ALSO_ORACLES / ALSO_PROPS / ALSO_ASSUME)
_ALSO_PROPS = {}
for _p in sorted(glob.glob(os.path.join(os.path.dirname(__file__), "conf_*.py"))):
    _m = importlib.import_module("checklib." + os.path.basename(_p)[:-3])
    for _suite, _pids in getattr(_m, "ALSO", {}).items():
        for _pid in _pids:
            if _pid not in PROPS:
                continue
            if _suite not in PROPS[_pid]["suites"]:
                PROPS[_pid]["suites"] = PROPS[_pid]["suites"] + [_suite]
            _o = getattr(_m, "ALSO_ORACLES", {}).get(_suite)
            if _o is not None:
                PROPS[_pid]["impl_oracle"] = dict(PROPS[_pid].get("impl_oracle") or {})
                PROPS[_pid]["impl_oracle"][_suite] = _o
            _x = getattr(_m, "ALSO_PROPS", {}).get(_suite)
            if _x:
                _ALSO_PROPS.setdefault(_pid, []).append(_x)
            _a = getattr(_m, "ALSO_ASSUME", {}).get(_suite)
            if _a and _a not in PROPS[_pid].get("assumptions", []):
                PROPS[_pid]["assumptions"] = list(PROPS[_pid].get("assumptions", [])) + [_a]

# further files of coq/Props whose theorems belong to a property: the client halves written by the
# client-side proofs, and the blocking-structure model for the termination / deadlock clauses
_EXTRA = {"C14": ["C14_client"], "C18": ["C18_client"], "C20": ["C20_client"],
          "C10": ["Teardown"], "C17": ["Teardown"], "C12": ["Teardown"]}
for _p in sorted(glob.glob(os.path.join(os.path.dirname(__file__), "conf_*.py"))):
    _m = importlib.import_module("checklib." + os.path.basename(_p)[:-3])
    for _pid, _xs in getattr(_m, "ALSO_PROPS_BY_PID", {}).items():
        _ALSO_PROPS[_pid] = _ALSO_PROPS.get(_pid, []) + list(_xs)
for _pid, _xs in _ALSO_PROPS.items():
    _EXTRA[_pid] = _EXTRA.get(_pid, []) + _xs
for _pid, _xs in _EXTRA.items():
    if _pid in PROPS:
        _have = [x for x in _xs if os.path.exists(os.path.join(os.path.dirname(os.path.dirname(__file__)), "coq", "Props", x + ".v"))]
        if _have:
            PROPS[_pid]["extra_props"] = _have
