"""Server connection-grain suite and the properties decided on the server model."""


def srv_nontrivial(line, go):
    # a scenario is non-trivial when the server answered something beyond gauges
    return ("H" in go) or ("R" in go) or ("G" in go)


SUITES = {
    "server": {
        "n_quick": 400, "n_thorough": 6000,
        "nontrivial": srv_nontrivial,
    },
}

_SRV_ASSUME = [
    "serverConn.go/stream.go/streams.go hand-translated to Impl/ServerConn.v (one Gallina function per Go function); kept honest by the lockstep differential run",
    "critical sections and single loop iterations are atomic steps; channels are unbounded FIFO queues (a superset of the real schedules)",
    "fasthttp (Request/Response/RequestCtx, header canonicalisation, All() order), bufio, net.Conn, timers' real-time behaviour, the Go scheduler and memory model are outside the model",
    "response header lists are read back from the observed HEADERS frames (x/net decoder) and given to the model as the handler's output",
]

_RULE = ("scenarios: 1-6 requests with random HPACK representation choices, HEADERS/CONTINUATION splits at random bytes, padding, "
         "priority sections, DATA chunkings, trailers, interleavings, handler completion orders, buffered/streamed responses, "
         "WINDOW_UPDATE/SETTINGS/PING/PRIORITY sprinkles; one quarter with a message-level offence, one quarter with a frame-level "
         "offence (catalogue in harness/cmd/h2v/server_gen.go), 1 in 16 with the stream loop held at a tick gate while the read loop "
         "runs ahead (optionally into a connection error), 1 in 50 with ~280 streams (closed-ring wrap, late frames), 1 in 16 with several "
         "responses blocked on the connection window, 1 in 32 with the request timer running out (ReadTimeout 250 ms, requests in every stage, late "
         "frames and handler returns afterwards), 1 in 64 with the idle timer closing the connection, endless header fields, floods behind a "
         "connection error, content-length values around 2^63/2^64; lockstep: after each event the harness waits for quiescence "
         "(hook counters) and records frames, dispatches and gauges; non-trivial = the server sent HEADERS, RST_STREAM or GOAWAY")


from checklib.oracles import SERVER_ORACLES


def _p(expl):
    return {"suites": ["server"], "rule": _RULE, "explanation": expl, "assumptions": _SRV_ASSUME}


PROPS = {
    "C13": _p("invariants over all event lists of the server model (slots, table, ring, buffered bytes) + lockstep correspondence incl. gauges"),
    "C10": _p("GOAWAY last-stream-id invariant and no dispatch above it, over all event lists + lockstep correspondence"),
    "C17": _p("no panic item in any trace, request context never released under a running handler, over all event lists + correspondence"),
    "C19": _p("ownership of pooled objects and frame conditions per loop over all event lists + correspondence with the pool tracker"),
    "C06": _p("send-window ledger safety and no-stall invariant over all event lists + lockstep correspondence"),
    "C14": _p("receive-window credit invariant over all event lists + lockstep correspondence"),
    "C08": _p("every reaction allowed by the RFC 7540 stream-state specification, over all event lists + lockstep correspondence"),
    "C09": _p("HPACK decoder state depends only on the header block bytes received, stream errors never become connection errors + correspondence"),
    "C01": _p("end-to-end request/response integrity on the server model + lockstep correspondence"),
    "C20": _p("dispatch iff well-formed (RFC 7540 8.1.2) on the server model + lockstep correspondence"),
    "C18": _p("SETTINGS acknowledged once in order, peer limits obeyed, on the server model + lockstep correspondence"),
}

for _pid, _o in SERVER_ORACLES.items():
    if _pid in PROPS:
        PROPS[_pid]["impl_oracle"] = {"server": _o}

# the data-race half of C19 (and the goroutine halves of C12/C17) cannot be exhibited by a Gallina model:
# the same lockstep scenarios are run under the Go race detector as supporting validation
PROPS["C19"]["race"] = {"suites": ["server", "client"], "n_quick": 60, "n_thorough": 1500}

# free-running rounds (harness/cmd/h2v/freerun.go): the real client against the real server, many callers at once,
# hooks off; what each property watches in them
PROPS["C19"]["freerun"] = {"rounds_quick": 60, "rounds_thorough": 1500, "race": True, "watch": ["races"],
                           "meaning": "a report from the Go race detector"}
PROPS["C17"]["freerun"] = {"rounds_quick": 400, "rounds_thorough": 20000, "race": False, "watch": ["srvhang"],
                           "meaning": "ServeConn still running 20 s after both ends of the transport were closed"}
PROPS["C01"]["freerun"] = {"rounds_quick": 400, "rounds_thorough": 20000, "race": False, "watch": ["mismatch"],
                           "meaning": "a 200 response whose body is not the echo of the request that caller sent"}

# the configuration glue and the handshake (Impl/ServerSetup.v, Props/Setup.v): its theorems are counted with the
# properties whose clauses they carry; the tie is this suite (servers built from raw values through either
# constructor, handshake bytes compared)
ALSO = {"server": []}
ALSO_PROPS_BY_PID = {"C18": ["Setup", "ClientSetup"], "C13": ["Setup"], "C01": ["Setup"], "C14": ["Setup", "ClientSetup"]}
